(* C10 — Lists and tables keep their shape: items, rows, cells and spans as written.
   This file contains only statements closed by [exact] and their assumptions.

   Model: Model/Lists.v (digestUntil, Environment.digest, bgroup.digest, List.digest, List.item.digest) and
   Model/Arrays.v (ArrayRow/ArrayCell.digest, the dispatch dg, ArrayCell.borders, BorderCommand/ArrayRow/Array.applyBorders,
   numCols, compileColspec).  Spec: Spec/TableSpec.v (content, print, tree_of, table_spec, den_spec). *)
From Coq Require Import List ZArith Bool.
Import ListNotations.
From Verif Require Import Val Lists TableSpec Arrays ArraysProofs ListsProofs.
Local Open Scope Z_scope.

(* M1 table_roundtrip: for every abstract table (any number of rows and cells, empty cells, cells holding groups, mathematics,
   declarations, nested tables and lists to any depth), digesting the item stream of its source gives one row per written row,
   in each row one cell per separator-delimited piece, in order, each holding exactly the digested form of what was written
   there -- and consumes exactly the table's own tokens (what follows, k, is left untouched). *)
Theorem C10_table_roundtrip :
  forall ak cols rows, wf (CTable ak cols rows) = true -> forall d k,
    digest_top (print d (CTable ak cols rows) ++ k)
    = Some (T (KBegin (EArr ak) cols) (d + 2)
              (map (fun row => T KRow (d + 2) (map (fun cell => T KCell (d + 2) (map (tree_of (d + 2)) cell)) row)) rows), k).
Proof. exact table_roundtrip. Qed.
Print Assumptions C10_table_roundtrip.

(* M5 list_roundtrip: one item per \item, in order, each holding everything up to the next \item of the same list (nested
   lists and tables stay inside the item that contains them), the optional term attached to its item; whatever blank material
   (blanks, blank lines, \par) is written between \begin{..} and the first \item, the items are the children of the list. *)
Theorem C10_list_roundtrip :
  forall lk pre items, wf (CList lk pre items) = true -> forall d k,
    digest_top (print d (CList lk pre items) ++ k)
    = Some (T (KBegin (EList lk) []) (d + 1)
              (map (fun it => match it with (t, b) => T (KItem t) (d + 1) (map (tree_of (d + 1)) b) end) items), k).
Proof. exact list_roundtrip. Qed.
Print Assumptions C10_list_roundtrip.

(* the general form: every well-formed structure (table, list, group, formula), at any nesting *)
Theorem C10_roundtrip :
  forall c, wf c = true -> compound c = true -> is_decl c = false ->
  forall d k, digest_top (print d c ++ k) = Some (tree_of d c, k).
Proof. exact roundtrip. Qed.
Print Assumptions C10_roundtrip.

(* digestion terminates on every item stream whatsoever (the fuel digest_top gives itself is never exhausted) *)
Theorem C10_digest_total :
  forall s, exists t' s', digest_top s = Some (t', s') /\ (length s' <= length s)%nat.
Proof. exact digest_top_total. Qed.
Print Assumptions C10_digest_total.

(* M6 cell_scope (structural part): a declaration written in a cell reaches to the end of that cell only; the next cell is
   a sibling that holds exactly its own content *)
Theorem C10_cell_scope :
  forall ak cols c before body next more rows_after,
  wf (CTable ak cols (((before ++ [CDecl c body]) :: next :: more) :: rows_after)) = true -> forall d k,
  exists rest_rows,
    digest_top (print d (CTable ak cols (((before ++ [CDecl c body]) :: next :: more) :: rows_after)) ++ k)
    = Some (T (KBegin (EArr ak) cols) (d + 2)
              (T KRow (d + 2)
                 (T KCell (d + 2) (map (tree_of (d + 2)) before ++ [T (KBegin (EDecl c) []) (d + 3) (map (tree_of (d + 3)) body)])
                  :: T KCell (d + 2) (map (tree_of (d + 2)) next)
                  :: map (fun cell => T KCell (d + 2) (map (tree_of (d + 2)) cell)) more)
               :: rest_rows), k).
Proof. exact cell_scope. Qed.
Print Assumptions C10_cell_scope.

(* known finding (notes/C10/known.json): a declaration written directly in a list item that is not the last swallows the
   following items -- on the stream the implementation really expands the source to (the frame of the declaration is not closed by
   \item), the digested tree is not the demanded one.  [wf] excludes this input class in C10_list_roundtrip. *)
Theorem C10_list_declaration_refuted :
  let c := CList 0 [] [(None, [CLeaf (KChar 97); CDecl 0 [CLeaf (KChar 98)]]); (None, [CLeaf (KChar 99)])] in
  let s := [leaf (KBegin (EList 0) []) 1; leaf (KItem None) 1; leaf (KChar 97) 1; leaf (KBegin (EDecl 0) []) 2;
            leaf (KChar 98) 2; leaf (KItem None) 2; leaf (KChar 99) 2; leaf (KEnd (EList 0)) 0] in
  map kind_of s = map kind_of (print 0 c) /\ digest_top s <> Some (tree_of 0 c, []).
Proof. exact list_declaration_refuted. Qed.
Print Assumptions C10_list_declaration_refuted.

(* M2 spans: a cell holding \multicolumn{n}{spec}{..} carries colspan n and the column type of spec; any other cell spans one
   column; the width of a row is the sum of the spans of its cells; when every remaining row has width N the table has N columns *)
Theorem C10_span_multicolumn :
  forall d d' before after n col body,
  (forall t, In t after -> multi_of t = None) ->
  let v := cell_view (T KCell d (before ++ leaf (KMulti n col body) d' :: after)) in
  a_span v = n /\ a_own v = Some col.
Proof. exact span_multicolumn. Qed.
Theorem C10_span_plain :
  forall d ch, (forall t, In t ch -> multi_of t = None) ->
  a_span (cell_view (T KCell d ch)) = 1 /\ a_own (cell_view (T KCell d ch)) = None.
Proof. exact span_plain. Qed.
Theorem C10_row_width :
  forall d cells, row_width (row_view (T KRow d cells)) = fold_right (fun c a => a_span (cell_view c) + a) 0 cells.
Proof. exact row_width_sum. Qed.
Theorem C10_num_cols :
  forall rows res N, 0 <= N -> length rows = length res ->
  (forall k row sts, nth_error rows k = Some row -> nth_error res k = Some (Some sts) -> row_width row = N) ->
  (exists k sts, nth_error res k = Some (Some sts)) ->
  num_cols rows res = N.
Proof. exact num_cols_uniform. Qed.
Print Assumptions C10_span_multicolumn.
Print Assumptions C10_num_cols.

(* M3 borders_adjacent: for every column specification and every table (any spans, any placement of rules, any border-only
   rows), the styles the border code computes are exactly those of the Spec:
   - a row remains iff it holds something besides rules and blanks;
   - a cell of a remaining row has a top border iff a rule written before the content of a cell of its own row -- or, for the
     second row, a rule of a border-only first row -- covers it; a bottom border iff a rule written after the content of a cell of
     its row, or in the border-only rows that directly follow it, covers it;
   - \hline covers every cell, \cline{a-b} exactly the cells whose columns (start .. start+span-1, counted with the spans of
     the cells to their left) meet a..b;
   - left/right border and alignment come from the column types of the columns the cell covers, or from the cell's own
     \multicolumn type. *)
Theorem C10_borders_adjacent :
  forall cols rows, apply_borders cols rows = table_spec cols rows.
Proof. exact borders_adjacent. Qed.
Print Assumptions C10_borders_adjacent.
(* M1 and M3 joined: the styles of the table digested from the source of an abstract table are the Spec's styles of the table
   as written ([acell_of]: the rule commands written before / after the content of each cell, its \multicolumn span and type) *)
Theorem C10_cell_view_written :
  forall d d' cell, cell_view (T KCell d' (map (tree_of d) cell)) = acell_of cell.
Proof. exact cell_view_written. Qed.
Theorem C10_written_table_styles :
  forall cols d rows,
  apply_borders cols (map row_view (map (fun row => T KRow d (map (fun cell => T KCell d (map (tree_of d) cell)) row)) rows))
  = table_spec cols (map (map acell_of) rows).
Proof. exact written_table_styles. Qed.
Print Assumptions C10_written_table_styles.
Theorem C10_covers_hline : forall s sp, covers s sp RH = true.
Proof. exact covers_hline. Qed.
Theorem C10_covers_cline : forall s sp a b, covers s sp (RC a b) = true <-> (a <= s + sp - 1 /\ s <= b).
Proof. exact covers_cline. Qed.

(* M4 colspec_compile: on every well-formed column specification (letters, p{..}/d{..}, |, @{..}, >{..}, blanks, *{n}{..} nested
   to any depth) the compiler returns the meaning of the specification -- the stars written out n times, one column per letter,
   a bar the right border of exactly the letter it follows (the left border of the first column when it precedes every letter) --
   and raises exactly when a bar has no column to belong to; with any fuel above the number of loop steps. *)
Theorem C10_colspec_compile :
  forall l, forallb wf_cs l = true -> forall f, (cost_l l < f)%nat ->
    compile f (print_spec l) [] false = match den_spec l with Some cols => COk cols | None => CCrash end.
Proof. exact colspec_compile. Qed.
Print Assumptions C10_colspec_compile.
Theorem C10_star_expands :
  forall ds body, expand (SStar ds body) = rep (Z.to_nat (dec_val ds)) (expand_spec body).
Proof. exact star_expands. Qed.
Theorem C10_colspec_columns :
  forall l cols, den_spec l = Some cols -> length cols = count_cols (expand_spec l).
Proof. exact colspec_columns. Qed.
Theorem C10_colspec_bars :
  forall l cols a c b, den_atoms l = Some cols -> l = a ++ ACol c :: b ->
  exists col, nth_error cols (count_cols a) = Some col
              /\ c_align col = align_of c
              /\ c_right col = starts_with_bar b
              /\ c_left col = (Nat.eqb (count_cols a) 0 && starts_with_bar l).
Proof. exact colspec_bars. Qed.
Print Assumptions C10_colspec_bars.

(* non-vacuity: a two-row table with a \multicolumn, rules, an empty cell, a nested list with a nested table, is well-formed,
   round-trips, and its borders come out as LaTeX draws them; a column specification with a nested star compiles *)
Example C10_nonvacuous :
  let inner := CTable 0 [mkCol 1 false false] [[[CLeaf (KChar 120)]]] in
  let lst := CList 2 [false; true; true] [(Some [84], [CLeaf (KChar 97); inner]); (None, [CGroup [CDecl 0 [CLeaf (KChar 98)]]])] in
  let col := mkCol 2 false true in
  let t := CTable 0 [mkCol 1 true false; mkCol 2 false true; mkCol 3 false false]
             [[[CLeaf KHline; CLeaf (KChar 97)]; []; [lst]];
              [[CLeaf (KCline 3 3); CLeaf (KMulti 2 col [120])]; [CLeaf (KChar 121); CDecl 1 [CLeaf (KChar 122)]]];
              [[CLeaf KHline]]] in
  wf t = true
  /\ digest_top (print 0 t) = Some (tree_of 0 t, [])
  /\ (match tree_of 0 t with
      | T (KBegin _ cols) _ rows => apply_borders cols (map row_view rows)
      | _ => []
      end)
     = [Some [mkS true false true false 1; mkS true false false true 2; mkS true false false false 3];
        Some [mkS false true false true 2; mkS true true false false 3];
        None]
  /\ compile_colspec (print_spec [SBar; SStar [2] [SCol 108; SStar [1] [SBar]]; SAt [120]; SColArg 112 [51]])
     = COk [mkCol 1 true true; mkCol 1 false true; mkCol 1 false false].
Proof. vm_compute. repeat split. Qed.
