(* C05 -- Arguments are delimited, typed and bound as the macro's signature declares.
   This file contains only statements closed by [exact] and their assumptions.
   Model: Model/Numeric.v (numeric scanners, value classes) + Model/Args.v (delimiter readers, casts, signature compiler, parse);
   Spec: Spec/NumericSpec.v (TeX's literal grammar as printers, positional value, balanced groups).
   Python floats are exact rationals in the Model (value statements are Qeq). *)
From Coq Require Import List ZArith Bool QArith.
Import ListNotations.
From Verif Require Import Val Units Signatures Numeric Args NumericSpec NumericProofs ArgsProofs SigProofs GlueProofs TypedProofs LexArgsBridge ParseProofs.
From Verif Require Tokenizer LexItems.
Local Open Scope Z_scope.

(* ---------------------------------------------------------------- regenerated tables *)

(* the unit factors extracted from dimen.__new__ are TeX's num/den table (tex.web 458), as exact rationals *)
Theorem C05_unit_factors_tex : forall u q, In (u, q) tex_units -> exists f, dimen_of_unit u = Some f /\ (f == q * (65536 # 1))%Q.
Proof. exact unit_factor_tex. Qed.

(* the digit sets of readInteger are TeX's: 0-9, 0-7, 0-9A-F (upper case only) *)
Theorem C05_digit_sets_tex : dec_digits = tex_dec /\ oct_digits = tex_oct /\ hex_digits = tex_hex.
Proof. exact digit_sets_tex. Qed.

(* every unit the readers accept is handled by dimen.__new__; fil/fill/filll are tried longest first and are the
   offsets 2e9 / 4e9 / 6e9 *)
Theorem C05_units_handled :
  forallb (fun u => match dimen_of_unit u with Some _ => negb (match u with [] => true | _ => false end) | None => false end)
          (dimen_units ++ mudimen_units ++ fil_units ++ fil_units_minus) = true /\
  (fil_units = [s_filll; s_fill; s_fil] /\ fil_units_minus = [s_filll; s_fill; s_fil]) /\
  dimen_of_unit s_fil = Some (1 + two_e9)%Q /\ dimen_of_unit s_fill = Some (1 + four_e9)%Q /\ dimen_of_unit s_filll = Some (1 + six_e9)%Q.
Proof. exact (conj units_handled (conj fil_units_longest_first fil_encoding)). Qed.

(* every `args` string of the code base compiles, to what it declares *)
Theorem C05_repo_signatures_compile : forall s, In s repo_signatures ->
  exists l, compile_sig s = SigOk l /\ no_blanks (concat (map print_arg l)) = no_blanks s.
Proof. exact repo_signature_compiles. Qed.

(* ---------------------------------------------------------------- M1: integers *)

(* for every sign run (any number of + and -, blanks anywhere), every non-empty decimal digit string and every continuation
   that is not one more decimal digit: the value is sign * positional value, exactly the literal and at most one following
   blank are consumed, the level is restored; after that blank the next token is left untouched and unexpanded.
   (Excluded: a register right after the constant multiplies it -- kept for 5\mycount, known finding.) *)
Theorem C05_read_integer_dec_partial : forall sr d ds rest lvl0,
  Forall (digit_tok tex_dec) (d :: ds) ->
  ends_run (lvl0 - 1) tex_dec rest ->
  no_register_next (seq_rest (lvl0 - 1) true rest) ->
  read_integer true (print_signs sr ++ (d :: ds) ++ rest) lvl0 =
  Ok (sign_value sr * pos_value 10 (codes (d :: ds))) (seq_rest (lvl0 - 1) true rest) lvl0.
Proof. exact read_integer_dec. Qed.

(* the excluded case does fail on the faithful Model: 3\cnta reads 15 and consumes \cnta *)
Theorem C05_read_integer_dec_refuted :
  exists rest, read_integer true ([Ch 12 51] ++ rest) 0 <> Ok 3 (seq_rest (-1) true rest) 0.
Proof. exact read_integer_register_after_decimal_refuted. Qed.

Theorem C05_read_integer_oct : forall sr ds rest lvl0,
  Forall (digit_tok tex_oct) ds -> ends_run (lvl0 - 1) tex_oct rest ->
  read_integer true (print_signs sr ++ Ch 12 39 :: ds ++ rest) lvl0 =
  Ok (sign_value sr * pos_value 8 (codes ds)) (seq_rest (lvl0 - 1) true rest) lvl0.
Proof. exact read_integer_oct. Qed.

Theorem C05_read_integer_hex : forall sr ds rest lvl0,
  Forall (digit_tok tex_hex) ds -> ends_run (lvl0 - 1) tex_hex rest ->
  read_integer true (print_signs sr ++ Ch 12 34 :: ds ++ rest) lvl0 =
  Ok (sign_value sr * pos_value 16 (codes ds)) (seq_rest (lvl0 - 1) true rest) lvl0.
Proof. exact read_integer_hex. Qed.

Theorem C05_read_integer_char : forall sr t c rest lvl0,
  ord_tok t = Some c ->
  read_integer true (print_signs sr ++ Ch 12 96 :: t :: rest) lvl0 = Ok (sign_value sr * c) rest lvl0.
Proof. exact read_integer_char. Qed.

Theorem C05_read_integer_register : forall sr k e rest lvl0,
  lvl0 <= 0 -> is_param k = true ->
  read_integer true (print_signs sr ++ Cs k e :: rest) lvl0 = Ok (sign_value sr * as_number k) rest lvl0.
Proof. exact read_integer_register. Qed.

(* ---------------------------------------------------------------- M2: dimensions *)

(* sign run, decimal factor in any of TeX's forms (12  12.5  12,5  12.  .5  .), blanks, optional `true`, any of the 11 units
   in any letter case, followed by anything: value = sign * decimal * factor(unit) exactly; the literal and one optional
   blank are consumed; the level is restored *)
Theorem C05_read_dimen_exact : forall sr d n1 tr utoks u f rest lvl0,
  declit_ok d -> true_part tr -> In u dimen_units -> spells u utoks -> dimen_of_unit u = Some f ->
  exists v, read_dimen dimen_units (print_signs sr ++ print_dec d ++ blanks n1 ++ tr ++ utoks ++ rest) lvl0
            = Ok v (read_one_optional_space rest) lvl0 /\
            (v == inject_Z (sign_value sr) * dec_value d * f)%Q.
Proof. exact read_dimen_exact. Qed.

(* ... and for the nine physical units that factor is TeX's num/den *)
Theorem C05_read_dimen_tex : forall sr d n1 tr utoks u tq rest lvl0,
  declit_ok d -> true_part tr -> In (u, tq) tex_units -> spells u utoks ->
  exists v, read_dimen dimen_units (print_signs sr ++ print_dec d ++ blanks n1 ++ tr ++ utoks ++ rest) lvl0
            = Ok v (read_one_optional_space rest) lvl0 /\
            (v == inject_Z (sign_value sr) * dec_value d * (tq * (65536 # 1)))%Q.
Proof. exact read_dimen_tex. Qed.

Theorem C05_read_decimal_print : forall lvl sr d rest,
  declit_ok d -> ends_run lvl tex_dec rest -> (d_point d = None -> not_point_next lvl rest) ->
  exists q, read_decimal (print_signs sr ++ print_dec d ++ rest) lvl = Ok q (dec_rest lvl d rest) lvl /\
            (q == inject_Z (sign_value sr) * dec_value d)%Q.
Proof. exact read_decimal_print. Qed.

(* a multiple of fil / fill / filll keeps its order of infinity and scales the amount (after fix-2) *)
Theorem C05_fil_scale : forall a off, In off [two_e9; four_e9; six_e9] ->
  (scale_unit a (1 + off) == if qlt_b a 0 then a - off else a + off)%Q.
Proof. exact fil_scale. Qed.

(* register multiples and registers as dimensions; mu units *)

(* <optional signs><internal dimen>: the value is sign * register (a count or glue register coerced to its value) *)
Theorem C05_read_dimen_register : forall U sr k e rest lvl0,
  lvl0 <= 0 -> is_param k = true ->
  read_dimen U (print_signs sr ++ Cs k e :: rest) lvl0 = Ok (inject_Z (sign_value sr) * as_dimen k)%Q rest lvl0.
Proof. exact read_dimen_register. Qed.

(* <optional signs><factor><optional spaces><internal dimen> (1.5\parindent): value = sign * decimal * register, exactly the
   literal is consumed; the register is below the fil offsets (2e9 sp), as every TeX dimension is *)
Theorem C05_read_dimen_multiple : forall U sr d n k e rest lvl0,
  lvl0 <= 0 -> declit_ok d -> is_param k = true -> qle_b two_e9 (qabs (as_dimen k)) = false ->
  exists v, read_dimen U (print_signs sr ++ print_dec d ++ blanks n ++ Cs k e :: rest) lvl0 = Ok v rest lvl0 /\
            (v == inject_Z (sign_value sr) * dec_value d * as_dimen k)%Q.
Proof. exact read_dimen_multiple. Qed.

(* readMuDimen: the unit list is [mu] and a mu is one unit *)
Theorem C05_read_mudimen_exact : forall sr d n1 tr utoks rest lvl0,
  declit_ok d -> true_part tr -> spells s_mu utoks ->
  exists v, read_dimen mudimen_units (print_signs sr ++ print_dec d ++ blanks n1 ++ tr ++ utoks ++ rest) lvl0
            = Ok v (read_one_optional_space rest) lvl0 /\ (v == inject_Z (sign_value sr) * dec_value d)%Q.
Proof. exact read_mudimen_exact. Qed.

(* ---------------------------------------------------------------- from source characters to values (with the Model of C01) *)

(* the characters  <blanks> (+|-)<blanks>... <digits> <any legal source items>  are turned by the tokenizer Model (default
   category table; Model/Tokenizer.v, proved equal to the lexical rules) into exactly the printed integer literal of
   Spec/NumericSpec.v -- runs of blanks collapse to one blank or none -- followed by the tokens of the rest *)
Theorem C05_source_int_tokens : forall lead signs d ds tl,
  Forall (fun c => is_dec_char c = true) (d :: ds) -> LexItems.items_ok dt tl = true ->
  exists toks,
    Tokenizer.tokenize dt (LexItems.print_items (blanks_item lead ++ sign_items signs ++ char_items (d :: ds) ++ tl)) = Tokenizer.RToks toks /\
    map embed toks = print_signs (mkSR 0 (norm_signs signs)) ++ char_toks 12 (d :: ds) ++
                     map embed (LexItems.lex_items dt Tokenizer.SM (Some (Tokenizer.Tok 12%N [last (d :: ds) d])) tl).
Proof. exact source_int_tokens. Qed.

(* ... and readInteger on those tokens returns sign * positional value of the digit characters and leaves the tokens of the rest
   (minus one blank); the only condition on the rest is that it does not go on with a digit *)
Theorem C05_source_int_value : forall lead signs d ds tl lvl0,
  Forall (fun c => is_dec_char c = true) (d :: ds) -> LexItems.items_ok dt tl = true ->
  let TL := map embed (LexItems.lex_items dt Tokenizer.SM (Some (Tokenizer.Tok 12%N [last (d :: ds) d])) tl) in
  not_digit_head TL ->
  exists toks,
    Tokenizer.tokenize dt (LexItems.print_items (blanks_item lead ++ sign_items signs ++ char_items (d :: ds) ++ tl)) = Tokenizer.RToks toks /\
    read_integer true (map embed toks) lvl0 =
    Ok (sign_list_value signs * pos_value 10 (map Z.of_N (d :: ds))) (seq_rest (lvl0 - 1) true TL) lvl0.
Proof. exact source_int_value. Qed.

(* the characters of a dimension -- signs, digits with optional point/comma and fraction, blanks, unit letters in any case --
   followed by any legal source: tokenize, then readDimen gives exactly sign * decimal * factor(unit) *)
Theorem C05_source_dimen_value : forall lead signs ip pto n ucs u f tl lvl0,
  dec_chars_ok ip pto ->
  ucs <> [] -> Forall (fun c => is_letter_char c = true) ucs -> map upper (map Z.of_N ucs) = map upper u ->
  In u dimen_units -> dimen_of_unit u = Some f ->
  LexItems.items_ok dt tl = true ->
  let TL := map embed (LexItems.lex_items dt Tokenizer.SM (Some (Tokenizer.Tok 11%N [last ucs 0%N])) tl) in
  exists toks v,
    Tokenizer.tokenize dt (LexItems.print_items (blanks_item lead ++ sign_items signs ++ char_items (dec_chars ip pto) ++
                                   blanks_item n ++ char_items ucs ++ tl)) = Tokenizer.RToks toks /\
    read_dimen dimen_units (map embed toks) lvl0 = Ok v (read_one_optional_space TL) lvl0 /\
    (v == inject_Z (sign_list_value signs) * dec_value (dec_lit ip pto) * f)%Q.
Proof. exact source_dimen_value. Qed.

(* ---------------------------------------------------------------- M3: groups *)

Theorem C05_read_grouping_balanced : forall o c cat1 cat2 body rest,
  o <> c -> cat1 <> 0 -> cat2 <> 0 ->
  balanced (g_open o) (g_open c) body ->
  read_grouping o c (Ch cat1 o :: body ++ Ch cat2 c :: rest) = (Some body, rest).
Proof. exact read_grouping_balanced. Qed.

Theorem C05_read_grouping_absent : forall o c s,
  match s with [] => True | t :: _ => tok_is_delim t o = false end -> read_grouping o c s = (None, s).
Proof. exact read_grouping_absent. Qed.

(* a following escape token -- e.g. the control symbols \[ \( \< named like the opening delimiter -- is not an opener *)
Theorem C05_read_grouping_absent_escape : forall o c k e r, read_grouping o c (Cs k e :: r) = (None, Cs k e :: r).
Proof. exact read_grouping_absent_escape. Qed.

Theorem C05_read_token_balanced : forall x y body rest,
  balanced b_open b_close body -> read_token (Ch 1 x :: body ++ Ch 2 y :: rest) = (Some body, rest).
Proof. exact read_token_balanced. Qed.

(* braces are not tracked inside [ ]: the full statement "brace-and-bracket balanced bodies" fails (known finding) *)
Theorem C05_read_grouping_braces_refuted :
  exists body rest, balanced b_open b_close body /\
    read_grouping 91 93 (Ch 12 91 :: body ++ Ch 12 93 :: rest) <> (Some body, rest).
Proof. exact read_grouping_braces_refuted. Qed.

(* ---------------------------------------------------------------- M6: the enable level *)

Theorem C05_enable_balanced_argument : forall a s lvl v s' lvl', read_argument a s lvl = AOk v s' lvl' -> lvl' = lvl.
Proof. exact read_argument_level. Qed.

Theorem C05_enable_balanced_parse : forall args s lvl acc b s' lvl', parse_args args s lvl acc = POk b s' lvl' -> lvl' = lvl.
Proof. exact parse_args_level. Qed.

Theorem C05_enable_balanced_readers : forall u s lvl,
  (forall o v s' l, read_integer o s lvl = Ok v s' l -> l = lvl) /\ (forall v s' l, read_decimal s lvl = Ok v s' l -> l = lvl) /\
  (forall v s' l, read_dimen u s lvl = Ok v s' l -> l = lvl) /\ (forall v s' l, read_glue u s lvl = Ok v s' l -> l = lvl).
Proof.
  exact (fun u s lvl => conj (fun o v s' l => read_integer_level o s lvl v s' l)
        (conj (read_decimal_level s lvl) (conj (read_dimen_level u s lvl) (read_glue_level u s lvl)))).
Qed.

(* the unrepaired `any` branch returned one level down *)
Theorem C05_enable_balanced_any_refuted : exists s lvl v s' lvl', read_any_unfixed s lvl = AOk v s' lvl' /\ lvl' <> lvl.
Proof. exact enable_balanced_any_refuted. Qed.

(* ---------------------------------------------------------------- M5 (partial: untyped delimited arguments) *)

(* for every signature made of mandatory arguments, optional [ ] ( ) < > groupings and * + - = modifiers, and every conforming
   call (groups balanced, optionals present or absent, blanks before any argument): each declared name is bound, in order, to
   the tokens written in its position, absent optionals to nothing, exactly the call is consumed, the level is restored *)
Theorem C05_parse_binds_partial : forall us s b s',
  call us s b s' -> forall lvl acc, parse_args (map compile_u us) s lvl acc = POk (rev acc ++ b) s' lvl.
Proof. exact parse_binds. Qed.

(* ---------------------------------------------------------------- M4: the signature compiler inverts the printer *)

(* for EVERY signature AST of the documented grammar -- modifiers * + -, =, mandatory arguments, optional groupings [ ] ( ) < >
   and { }, names (a letter followed by word characters), any type tag, optional list/dict delimiter (any non-word, non-blank
   character but `:`) and optional subtype -- printed with any number of leading blanks, at least one blank after every item and
   any number of blanks inside the groupings: compiling the printed string gives exactly the declared arguments
   (name, spec, type, delimiter, subtype, expanded flag), in order.  Unbounded induction over the item list. *)
Theorem C05_compile_print_sig : forall lead (l : list (sitem * nat)),
  Forall wf_item (map fst l) ->
  compile_sig (print_sig lead l) = SigOk (map (fun p => arg_of_item (fst p)) l).
Proof. exact compile_print_sig. Qed.

(* ---------------------------------------------------------------- glue *)

(* width [blanks plus stretch] [blanks minus shrink]: the width any printed dimension over the 11 units, stretch and shrink
   any printed dimension over the 11 units + fil/fill/filll (keywords in any letter case, optional `true`, blanks, sign runs).
   readGlue returns exactly the three components and consumes exactly the literal (plus one optional blank after the shrink,
   or every blank while looking for an absent plus/minus).  Hypotheses name what is excluded: after `fil`/`fill` the next token
   must not spell one more `l`; an absent keyword must really be absent (its search must miss). *)
Theorem C05_read_glue_exact : forall p0 st sh rest lvl0,
  pdim_ok dimen_units p0 -> pfil_ok kw_plus st -> pfil_ok kw_minus sh ->
  match st with Some x => fil_next_ok (f_dim x) (print_fil sh ++ rest) | None => True end ->
  match sh with Some x => fil_next_ok (f_dim x) rest | None => True end ->
  (st = None -> sh = None -> misses kw_plus (read_optional_spaces rest)) ->
  (sh = None -> misses kw_minus (read_optional_spaces rest)) ->
  exists v0 ov1 ov2,
    read_glue dimen_units (print_dim p0 ++ print_fil st ++ print_fil sh ++ rest) lvl0
    = Ok (v0, ov1, ov2) (match sh with Some _ => read_one_optional_space rest | None => read_optional_spaces rest end) lvl0 /\
    (exists f0, dimen_of_unit (p_unit p0) = Some f0 /\
                (v0 == inject_Z (sign_value (p_sr p0)) * dec_value (p_dec p0) * f0)%Q) /\
    opt_denotes st ov1 /\ opt_denotes sh ov2.
Proof. exact read_glue_exact. Qed.

(* the components in numbers: an ordinary unit gives sign * decimal * factor, a fil order the amount with its offset *)
Theorem C05_dim_denotes_plain : forall p v, dim_denotes p v -> In (p_unit p) dimen_units ->
  exists f, dimen_of_unit (p_unit p) = Some f /\ (v == inject_Z (sign_value (p_sr p)) * dec_value (p_dec p) * f)%Q.
Proof. exact dim_denotes_plain. Qed.

Theorem C05_dim_denotes_fil : forall p v off, dim_denotes p v ->
  (p_unit p = s_fil /\ off = two_e9) \/ (p_unit p = s_fill /\ off = four_e9) \/ (p_unit p = s_filll /\ off = six_e9) ->
  exists a, (a == inject_Z (sign_value (p_sr p)) * dec_value (p_dec p))%Q /\ (v == if qlt_b a 0 then a - off else a + off)%Q.
Proof. exact dim_denotes_fil. Qed.

(* readStretch and readShrink use the list the glue theorem is about *)
Theorem C05_glue_unit_lists : dimen_units ++ fil_units = UF /\ dimen_units ++ fil_units_minus = UF.
Proof. exact UF_is_stretch_shrink. Qed.

(* ---------------------------------------------------------------- M5 for typed arguments *)

(* each form of [conforms] (Proofs/TypedProofs.v; one constructor per argument type, the side conditions name what is excluded)
   is read by readArgumentAndSource to a value satisfying the predicate the form denotes, at every enable level *)
Theorem C05_conforms_reads : forall a s P s', conforms a s P s' ->
  forall lvl, exists v, read_argument a s lvl = AOk v s' lvl /\ P v.
Proof. exact conforms_reads. Qed.

(* a string argument with brace groups or commands inside is bound to its source text (repaired by 7145f1b; before, the value
   was the repr of a Python object): characters with their braces, a command as \name and one blank, nothing stripped *)
Theorem C05_string_source : forall a k piece body rest src,
  classify (a_type a) = TyStr -> delimited (a_spec a) piece body -> modelled body ->
  forallb is_plain body = false -> braces_balanced O body = true -> source_of body = Some src ->
  forall lvl, exists v, read_argument a (blanks k ++ piece ++ rest) lvl = AOk v rest lvl /\ v = VStr src.
Proof.
  intros a k piece body rest src H1 H2 H3 H4 H5 H6 lvl.
  destruct (areads_str_source a k piece body rest src H1 H2 H3 H4 H5 H6 lvl) as (v & Hr & Hv). exists v. split; [exact Hr|symmetry; exact Hv].
Qed.

(* Macro.parse over any list of declared arguments -- untyped, optional (present / absent), modifiers, str/chr/char, cs, Tok,
   int/number/count, float/double, dimen/length, Number, Dimen, Glue, list, dict -- and any conforming call: every declared name
   is bound, in order, to a value that is the denotation of the tokens written in its position (integers exactly, decimals and
   dimensions as exact rationals, strings with blanks stripped, list items and dictionary pairs in order), exactly the call is
   consumed, the enable level is restored.
   Excluded (see [conforms]): list/dict contents with groups or macros, registers or active characters inside a string (expansion not
   modelled); int/float/dimen arguments that are not exactly one literal; a register directly after a Number argument (known finding: it multiplies the constant); `l` after fil/fill; subtypes of list other than none/str/int and of dict other than none/str; dict values that are empty or
   contain `=`; label/id/ref/idref/url (casts with side effects on the document); XTok, Args, any. *)
Theorem C05_parse_binds_typed_partial : forall args s b s',
  tcall args s b s' ->
  forall lvl acc, exists vals, parse_args args s lvl acc = POk (rev acc ++ vals) s' lvl /\ Forall2 bound vals b.
Proof. exact parse_binds_typed. Qed.

(* M4 and M5 composed: for every signature AST of the documented grammar, printed as an args string, and every conforming typed
   call of the arguments it declares: compiling the string and reading the arguments binds every declared name to the value its
   tokens denote, consumes exactly the call and restores the level *)
Theorem C05_macro_parse_binds : forall lead (l : list (sitem * nat)) s b s',
  Forall wf_item (map fst l) ->
  tcall (map (fun p => arg_of_item (fst p)) l) s b s' ->
  forall lvl, exists vals, macro_parse (print_sig lead l) s lvl = POk vals s' lvl /\ Forall2 bound vals b.
Proof. exact macro_parse_binds. Qed.

(* a Number argument ended directly by a brace, $ or an ordinary control sequence (\foo 12{abc}): the value is read and that
   token stays in the stream, unexpanded -- the former known finding number-then-brace, now a theorem about the repaired code *)
Theorem C05_number_then_brace : forall a sr l rest,
  classify (a_type a) = TyNumberP -> il_ok l -> stops_head rest ->
  forall lvl, exists v, read_argument a (print_signs sr ++ il_toks l ++ rest) lvl = AOk v rest lvl /\ v = VInt (sign_value sr * il_value l).
Proof.
  intros a sr l rest H1 H2 H3 lvl. destruct (areads_number_tight a sr l rest H1 H2 H3 lvl) as (v & Hr & Hv).
  exists v. split; [exact Hr|symmetry; exact Hv].
Qed.

(* the hypothesis "an absent plus / minus is really absent" of the glue theorem holds as soon as the next token cannot be the
   keyword's first letter *)
Theorem C05_misses_first : forall kw l ls s, map upper kw = l :: ls ->
  match s with [] => True | t :: _ => is_element t = false /\ tok_upper_is t l = false end ->
  misses kw s.
Proof. exact misses_first. Qed.

(* ---------------------------------------------------------------- non-vacuity *)

Example C05_nonvacuous :
  (* "- + -  '17 x"  reads 15 and leaves x;  -1.5truecm  ;  [a[b]c]  ;  \foo*[o]{x{y}}z with args = "* [ opt ] text" *)
  read_integer true (print_signs (mkSR 0 [(true, 1%nat); (false, 1%nat); (true, 2%nat)]) ++ Ch 12 39 :: [Ch 12 49; Ch 12 55] ++ [Ch 10 32; Ch 11 120]) 0
    = Ok 15 [Ch 11 120] 0 /\
  declit_ok (mkDec [Ch 12 49] (Some (Ch 12 46)) [Ch 12 53]) /\ spells s_cm [Ch 11 99; Ch 11 77] /\ true_part ([Ch 11 116; Ch 11 114; Ch 11 117; Ch 11 101] ++ blanks 0) /\
  balanced (g_open 91) (g_open 93) [Ch 11 97; Ch 12 91; Ch 11 98; Ch 12 93; Ch 11 99] /\
  call [UMod 42; UOpt [111] 91 93; UMand [116]]
       (blanks 0 ++ Ch 12 42 :: blanks 0 ++ Ch 12 91 :: [Ch 11 111] ++ Ch 12 93 :: blanks 0 ++ Ch 1 123 :: [Ch 11 120; Ch 1 123; Ch 11 121; Ch 2 125] ++ Ch 2 125 :: [Ch 11 122])
       [(nm_modifier, VTok (Ch 12 42)); ([111], VToks [Ch 11 111]); ([116], VToks [Ch 11 120; Ch 1 123; Ch 11 121; Ch 2 125])] [Ch 11 122] /\
  compile_sig [42; 32; 91; 32; 111; 32; 93; 32; 116] = SigOk (map compile_u [UMod 42; UOpt [111] 91 93; UMand [116]]).
Proof.
  split; [vm_compute; reflexivity|]. split.
  { repeat split; repeat constructor; try (exists 12, 49; repeat split; auto; fail); try (exists 12, 53; repeat split; auto; fail).
    exists 12, 46. repeat split; auto. }
  split.
  { split; [|reflexivity]. repeat constructor; [exists 11, 99|exists 11, 77]; repeat split; auto. }
  split.
  { right. exists [Ch 11 116; Ch 11 114; Ch 11 117; Ch 11 101], 0%nat. split; [reflexivity|]. split; [|reflexivity].
    repeat constructor; [exists 11, 116|exists 11, 114|exists 11, 117|exists 11, 101]; repeat split; auto. }
  split; [reflexivity|]. split; [|vm_compute; reflexivity].
  apply (call_mod_present 42 0); [discriminate|].
  apply (call_opt_present [111] 91 93 0 [Ch 11 111]); [discriminate|reflexivity|reflexivity|].
  apply (call_mand [116] 0 123 125 [Ch 11 120; Ch 1 123; Ch 11 121; Ch 2 125]); [reflexivity|reflexivity|].
  apply call_nil.
Qed.

(* non-vacuity of M4, glue and typed M5:
   " * [ opt ]  key:list(;):int" ;  -1.5pt plus 2fil ;  \foo{-12}{ ab }{x,y z}{k=v,b,e=} with args n:int s:str l:list d:dict (b is True, e the empty string) *)
Ltac tokp :=
  match goal with
  | |- digit_tok _ (Ch ?cat ?c) => exists cat, c; repeat split; auto
  | |- kw_tok (Ch ?cat ?c) => exists cat, c; repeat split; auto
  | |- point_tok (Ch ?cat ?c) => exists cat, c; repeat split; auto
  end.

Example C05_nonvacuous_typed :
  Forall wf_item (map fst [(SMod 42, 0%nat); (SArg [111;112;116] (Some 91) None 1 1, 1%nat);
                           (SArg [107;101;121] None (Some (mkTy n_list (Some 59) (Some n_int))) 0 0, 0%nat)]) /\
  (let p0 := mkPD (mkSR 0 [(true, 0%nat)]) (mkDec [Ch 12 49] (Some (Ch 12 46)) [Ch 12 53]) 0 [] [Ch 11 112; Ch 11 116] s_pt in
   let p1 := mkPD (mkSR 1 []) (mkDec [Ch 12 50] None []) 0 [] [Ch 11 102; Ch 11 105; Ch 11 108] s_fil in
   pdim_ok dimen_units p0 /\ pfil_ok kw_plus (Some (mkPF 1 [Ch 11 112; Ch 11 108; Ch 11 117; Ch 11 115] p1)) /\
   fil_next_ok p1 [Ch 11 120] /\ misses kw_minus (read_optional_spaces [Ch 11 120])) /\
  tcall [mkArg [110] None (Some n_int) None None true; mkArg [115] None (Some n_str) None None true;
         mkArg [108] None (Some n_list) None None true; mkArg [100] None (Some n_dict) None None true]
        ([Ch 1 123; Ch 12 45; Ch 12 49; Ch 12 50; Ch 2 125] ++ [Ch 1 123; Ch 10 32; Ch 11 97; Ch 11 98; Ch 10 32; Ch 2 125] ++
         [Ch 1 123; Ch 11 120; Ch 12 44; Ch 11 121; Ch 10 32; Ch 11 122; Ch 2 125] ++
         [Ch 1 123; Ch 11 107; Ch 12 61; Ch 11 118; Ch 12 44; Ch 11 98; Ch 12 44; Ch 11 101; Ch 12 61; Ch 2 125] ++ [Ch 11 119])
        [([110], eq (VInt (-12))); ([115], eq (VStr [97; 98])); ([108], eq (VList [VStr [120]; VStr [121; 32; 122]]));
         ([100], eq (VDict [(VStr [107], VStr [118]); (VStr [98], VTrue); (VStr [101], VStr [])]))]
        [Ch 11 119].
Proof.
  split; [|split].
  {
  cbn [map fst]. constructor; [left; reflexivity|]. constructor.
  - split; [split; [discriminate|reflexivity]|]. split; [eexists; eexists; split; reflexivity|]. split; [left; reflexivity|exact I].
  - constructor; [|constructor].
    split; [split; [discriminate|reflexivity]|]. split; [eexists; eexists; split; reflexivity|]. split; [exact I|].
    split; [split; [discriminate|reflexivity]|]. split; [repeat split; try reflexivity; discriminate|split; [discriminate|reflexivity]].
  }
  {
  cbn zeta. split; [|split; [|split]].
  - unfold pdim_ok, declit_ok, true_part, spells. cbn [p_dec p_true p_unit p_utoks d_ip d_fp d_point].
    split; [split; [|split]|split; [|split]].
    + repeat constructor; tokp.
    + repeat constructor; tokp.
    + tokp.
    + left; reflexivity.
    + cbn; auto.
    + split; [repeat constructor; tokp|reflexivity].
  - unfold pfil_ok, pdim_ok, declit_ok, true_part, spells. cbn [f_kw f_dim p_dec p_true p_unit p_utoks d_ip d_fp d_point].
    split; [split; [repeat constructor; tokp|reflexivity]|].
    split; [split; [|split]|split; [|split]].
    + repeat constructor; tokp.
    + constructor.
    + split; [discriminate|reflexivity].
    + left; reflexivity.
    + cbn; auto 20.
    + split; [repeat constructor; tokp|reflexivity].
  - intros _. cbn. split; reflexivity.
  - reflexivity.
  }
  assert (Hil : il_ok (ILDec [Ch 12 49; Ch 12 50])) by (split; [discriminate|repeat constructor; tokp]).
  apply (tcall_cons _ _ _ _ _ _ _
           (c_int (mkArg [110] None (Some n_int) None None true) 0 _ (mkSR 0 [(true, 0%nat)]) (ILDec [Ch 12 49; Ch 12 50]) _
                  eq_refl (del_brace 123 125 (print_signs (mkSR 0 [(true, 0%nat)]) ++ il_toks (ILDec [Ch 12 49; Ch 12 50])) eq_refl) Hil)).
  apply (tcall_cons _ _ _ _ _ _ _
           (c_str (mkArg [115] None (Some n_str) None None true) 0 _ [Ch 10 32; Ch 11 97; Ch 11 98; Ch 10 32] _
                  eq_refl (del_brace 123 125 [Ch 10 32; Ch 11 97; Ch 11 98; Ch 10 32] eq_refl) eq_refl)).
  assert (Hit : Forall (item_ok 44) [[Ch 11 120]; [Ch 11 121; Ch 10 32; Ch 11 122]]).
  { repeat constructor. }
  apply (tcall_cons _ _ _ _ _ _ _
           (c_list (mkArg [108] None (Some n_list) None None true) 0 _ [[Ch 11 120]; [Ch 11 121; Ch 10 32; Ch 11 122]] _
                   eq_refl (or_introl eq_refl) ltac:(discriminate) Hit (del_brace 123 125 (join 44 [[Ch 11 120]; [Ch 11 121; Ch 10 32; Ch 11 122]]) eq_refl))).
  assert (He : Forall (entry_ok 44) [([Ch 11 107], Some [Ch 11 118]); ([Ch 11 98], None); ([Ch 11 101], Some [])]).
  { repeat constructor; discriminate. }
  apply (tcall_cons _ _ _ _ _ _ _
           (c_dict (mkArg [100] None (Some n_dict) None None true) 0 _ [([Ch 11 107], Some [Ch 11 118]); ([Ch 11 98], None); ([Ch 11 101], Some [])] _
                   eq_refl (or_introl eq_refl) ltac:(discriminate) ltac:(discriminate) He (del_brace 123 125 (join_entries 44 [([Ch 11 107], Some [Ch 11 118]); ([Ch 11 98], None); ([Ch 11 101], Some [])]) eq_refl))).
  apply tcall_nil.
Qed.

(* non-vacuity: the source  " - -12 x"  and  "-1,5 Pt{"  under the default table; 1.5\dima with \dima = 2pt *)
Example C05_nonvacuous_source :
  Forall (fun c => is_dec_char c = true) [49; 50]%N /\
  LexItems.items_ok dt [LexItems.IBlanks 32%N []; LexItems.IChar 120%N] = true /\
  not_digit_head (map embed (LexItems.lex_items dt Tokenizer.SM (Some (Tokenizer.Tok 12%N [50%N])) [LexItems.IBlanks 32%N []; LexItems.IChar 120%N])) /\
  (exists toks, Tokenizer.tokenize dt (LexItems.print_items (blanks_item 1 ++ sign_items [(true, 1%nat); (true, 0%nat)] ++ char_items [49; 50]%N ++
                                        [LexItems.IBlanks 32%N []; LexItems.IChar 120%N])) = Tokenizer.RToks toks /\
                read_integer true (map embed toks) 0 = Ok 12 [Ch 11 120] 0) /\
  dec_chars_ok [49%N] (Some (44%N, [53%N])) /\ map upper (map Z.of_N [80; 116]%N) = map upper s_pt /\
  (exists v, read_dimen dimen_units ([Ch 12 49; Ch 12 46; Ch 12 53] ++ blanks 0 ++ Cs (KDimen (131072 # 1)) false :: [Ch 11 120]) 0
             = Ok v [Ch 11 120] 0 /\ (v == (196608 # 1))%Q).
Proof.
  split; [repeat constructor|]. split; [vm_compute; reflexivity|]. split; [vm_compute; right; reflexivity|].
  split; [eexists; split; vm_compute; reflexivity|].
  split; [split; [repeat constructor|split; [reflexivity|repeat constructor]]|]. split; [reflexivity|].
  eexists. split; [vm_compute; reflexivity|]. vm_compute. reflexivity.
Qed.


(* non-vacuity: \foo 12{a}z with args = "n:Number t"; `minus` is missed on the stream x... *)
Definition C05_example_sig : list (sitem * nat) :=
  [(SArg [110] None (Some (mkTy n_Number None None)) 0 0, 0%nat); (SArg [116] None None 0 0, 0%nat)].
Example C05_nonvacuous_parse :
  stops_head [Ch 1 123; Ch 11 97; Ch 2 125] /\ il_ok (ILDec [Ch 12 49; Ch 12 50]) /\ misses kw_minus [Ch 11 120] /\
  Forall wf_item (map fst C05_example_sig) /\
  tcall (map (fun p => arg_of_item (fst p)) C05_example_sig)
        ([Ch 12 49; Ch 12 50] ++ [Ch 1 123; Ch 11 97; Ch 2 125] ++ [Ch 11 122])
        [([110], eq (VInt 12)); ([116], eq (VToks [Ch 11 97]))] [Ch 11 122] /\
  macro_parse (print_sig 0 C05_example_sig) ([Ch 12 49; Ch 12 50] ++ [Ch 1 123; Ch 11 97; Ch 2 125] ++ [Ch 11 122]) 0
  = POk [([110], VInt 12); ([116], VToks [Ch 11 97])] [Ch 11 122] 0.
Proof.
  assert (Hil : il_ok (ILDec [Ch 12 49; Ch 12 50])) by (split; [discriminate|repeat constructor; tokp]).
  split; [reflexivity|]. split; [exact Hil|]. split; [reflexivity|]. split.
  { cbn [map fst C05_example_sig]. constructor.
    - split; [split; [discriminate|reflexivity]|]. split; [eexists; eexists; split; reflexivity|]. split; [exact I|].
      split; [split; [discriminate|reflexivity]|]. split; exact I.
    - constructor; [|constructor]. split; [split; [discriminate|reflexivity]|]. split; [eexists; eexists; split; reflexivity|]. split; exact I. }
  split; [|vm_compute; reflexivity].
  pose proof (c_number_tight (mkArg [110] None (Some n_Number) None None true) (mkSR 0 []) (ILDec [Ch 12 49; Ch 12 50])
                             ([Ch 1 123; Ch 11 97; Ch 2 125] ++ [Ch 11 122]) eq_refl Hil eq_refl) as C1.
  vm_compute in C1.
  pose proof (c_untyped (mkArg [116] None None None None true) 0 _ [Ch 11 97] [Ch 11 122] (or_introl eq_refl)
                        (del_brace 123 125 [Ch 11 97] eq_refl) eq_refl) as C2.
  vm_compute in C2. vm_compute.
  eapply tcall_cons; [exact C1|]. eapply tcall_cons; [exact C2|]. apply tcall_nil.
Qed.
