(* C07 — Parsing loses, duplicates or reorders no text and yields a well-formed tree.
   This file contains only statements closed by [exact] and their assumptions.

   Model/Digest.v follows TeX.parse, the digest methods, Macro.paragraphs and Node.normalize of plasTeX line by line;
   [parse_doc subs pn ts] is TeX.parse() on the item stream [ts] the expander yields.  [s_log] and [s_ev] of the final
   stream state are ghost lists: what the digest methods consumed without putting it into the tree (with the reason), and
   the two situations in which a sectioning node is handled outside the sectioning clause (met inside a list item / table
   cell, pushed back after digestion).  Every hypothesis below is evaluated by the harness on every real stream. *)
From Coq Require Import List ZArith Bool.
Import ListNotations.
From Verif Require Import Val DigestSpec Digest DigestProofs.
Local Open Scope Z_scope.

(* M1: for every item sequence whatsoever (ill-nested ones included): reading the built tree depth-first, arguments before
   content, gives the running text of the sequence — same words, same characters, same order, nothing twice — provided what
   the digest methods dropped carries no running text; [keep] says which characters are running text and [subs] is any
   substitution table that does not touch them. *)
Theorem C07_digest_flatten :
  forall (keep : Z -> bool) (subs : list (list Z * list Z)) (pn : Z) (ts forest : list tree) (s' : st),
    neutral keep subs ->
    parse_doc subs pn ts = Done (forest, s') ->
    Forall (fun e => words keep (flatten (snd e)) = []) (s_log s') ->
    words keep (flatten_forest forest) = words keep (flatten_forest ts).
Proof. intros keep subs pn ts forest s' Hn. exact (digest_flatten keep subs pn Hn ts forest s'). Qed.
Print Assumptions C07_digest_flatten.

(* M1 at the level of nodes ("every node is reachable from exactly one place"): for ANY choice [vis] of visible nodes that
   does not show the paragraph nodes Macro.paragraphs creates, the depth-first reading of the built tree — each visible node,
   then its argument words, then its content — is the reading of the item sequence, provided the dropped items show nothing:
   every visible item of the stream sits in the tree exactly once, and in stream order (preorder). *)
Theorem C07_digest_reading :
  forall (vis : head -> bool) (keep : Z -> bool) (subs : list (list Z * list Z)) (pn : Z) (ts forest : list tree) (s' : st),
    (forall pn b, vis (par_head pn b) = false) ->
    neutral keep subs ->
    parse_doc subs pn ts = Done (forest, s') ->
    Forall (fun e => reading vis keep (snd e) = []) (s_log s') ->
    reading_forest vis keep forest = reading_forest vis keep ts.
Proof. intros vis keep subs pn ts forest s' Hv Hn. exact (digest_reading vis keep Hv subs pn Hn ts forest s'). Qed.
Print Assumptions C07_digest_reading.

(* the instance the harness evaluates on every stream: all nodes except structural markers, paragraphs, table rows and cells *)
Theorem C07_nodes_once :
  forall (keep : Z -> bool) (subs : list (list Z * list Z)) (pn : Z) (ts forest : list tree) (s' : st),
    neutral keep subs ->
    parse_doc subs pn ts = Done (forest, s') ->
    Forall (fun e => reading vis_std keep (snd e) = []) (s_log s') ->
    reading_forest vis_std keep forest = reading_forest vis_std keep ts.
Proof. intros keep subs pn ts forest s' Hn. exact (digest_reading vis_std keep vis_std_par subs pn Hn ts forest s'). Qed.
Print Assumptions C07_nodes_once.

(* M1b: ... and what they drop are structural markers only: the matching \end / closing $ of the environment being digested,
   the } of the group being digested, & and \\ (kept as endToken), the two delimiters of \verb, whitespace and \setcounter in
   front of a list's first \item / an item's content, empty or blank paragraphs, table rows made of rules and blanks. *)
Theorem C07_dropped_are_markers :
  forall (subs : list (list Z * list Z)) (pn : Z) (ts forest : list tree) (s' : st),
    parse_doc subs pn ts = Done (forest, s') ->
    Forall (fun e : Z * tree =>
      let (k, t) := e in
      (k = R_END /\ is_elem t = true /\ h_mode (hd_of t) = 2) \/
      (k = R_WS /\ is_ws t = true) \/
      (k = R_SETCOUNTER /\ is_elem t = true /\ h_sc (hd_of t) = true) \/
      (k = R_ENDROW /\ is_elem t = true /\ h_er (hd_of t) = true) \/
      (k = R_CELLDELIM /\ is_elem t = true /\ h_cd (hd_of t) = true) \/
      (k = R_VERBOPEN) \/
      (k = R_VERBCLOSE /\ is_elem t = false) \/
      (k = R_EMPTYPAR /\ drop_par t = true) \/
      (k = R_BORDERROW /\ is_row t = true /\ border_cells (children t) = Some true) \/
      (k = R_EGROUP /\ is_elem t = true /\ h_eg (hd_of t) = true)) (s_log s').
Proof. intros subs pn ts forest s'. exact (dropped_are_markers subs pn ts forest s'). Qed.
Print Assumptions C07_dropped_are_markers.

(* M2: every sectioning node of the built tree contains only paragraphs and strictly deeper sectioning nodes, and no
   paragraph contains a paragraph — for every stream whose items are as the expander makes them ([item_ok_b]: a sectioning
   item is digested by SectionUtils.digest and arrives without children, \par is a plain command) and in which no
   sectioning item was met inside a list item / table cell or pushed back after digestion ([s_ev] empty). *)
Theorem C07_digest_sections_wf :
  forall (subs : list (list Z * list Z)) (pn : Z) (ts forest : list tree) (s' : st),
    forallb item_ok_b ts = true ->
    parse_doc subs pn ts = Done (forest, s') ->
    s_ev s' = [] ->
    forallb wf_sections_b forest = true.
Proof. intros subs pn ts forest s'. exact (digest_sections_wf subs pn ts forest s'). Qed.
Print Assumptions C07_digest_sections_wf.

(* the two clauses of wf_sections_b, read at any node [Node h ch] anywhere in a well-formed tree [t] *)
Theorem C07_section_children :
  forall (t : tree) (h : head) (ch : list tree) (c : tree),
    wf_sections_b t = true -> subtree (Node h ch) t -> is_section_level (h_level h) = true -> In c ch ->
    level c = PAR_LEVEL \/ (is_section_level (level c) = true /\ h_level h < level c).
Proof. exact wf_section_children. Qed.
Print Assumptions C07_section_children.

Theorem C07_no_par_in_par :
  forall (t : tree) (h : head) (ch : list tree) (c : tree),
    wf_sections_b t = true -> subtree (Node h ch) t -> h_level h = PAR_LEVEL -> In c ch -> level c <> PAR_LEVEL.
Proof. exact wf_no_par_in_par. Qed.
Print Assumptions C07_no_par_in_par.

(* M3: Macro.paragraphs keeps the running text of the children in order ... *)
Theorem C07_paragraphs_preserves_order :
  forall (keep : Z -> bool) (subs : list (list Z * list Z)) (pn : Z) (mm force : bool) (h : head) (ch kept dr : list tree),
    neutral keep subs ->
    paragraphs subs pn mm force h ch = (kept, dr) ->
    Forall (fun t => words keep (flatten t) = []) dr ->
    words keep (flatten_forest kept) = words keep (flatten_forest ch).
Proof. exact paragraphs_preserves_order. Qed.
Print Assumptions C07_paragraphs_preserves_order.

(* ... and never moves anything across a lower-level item: the first child below PAR_LEVEL and everything behind it stay
   where they are, in front of it there are only paragraph nodes *)
Theorem C07_paragraphs_not_across_lower :
  forall (subs : list (list Z * list Z)) (pn : Z) (mm : bool) (h : head) (pre : list tree) (x : tree) (rest kept dr : list tree),
    Forall (fun c => PAR_LEVEL <= level c) pre -> level x < PAR_LEVEL ->
    paragraphs subs pn mm true h (pre ++ x :: rest) = (kept, dr) ->
    exists pars, kept = pars ++ x :: filter (fun t => negb (drop_par t)) rest /\ Forall (fun p => level p = PAR_LEVEL) pars.
Proof. exact paragraphs_not_across_lower. Qed.
Print Assumptions C07_paragraphs_not_across_lower.

(* M4: Node.normalize shows exactly the text the Spec demands (the table applied to each maximal run of text leaves, left to
   right, in table order; the empty table below a no-substitution node) ... *)
Theorem C07_normalize_expected_text :
  forall (t : tree) (subs : list (list Z * list Z)),
    Forall (fun p => fst p <> []) subs -> text_content (normalize subs t) = expected_text subs t.
Proof. exact normalize_expected_text. Qed.
Print Assumptions C07_normalize_expected_text.

(* ... so, whatever the table, the text below a verbatim / mathematics node is left as it was *)
Theorem C07_charsub_scoped :
  forall (subs : list (list Z * list Z)) (h : head) (ch : list tree),
    h_nosub h = true -> text_content (normalize subs (Node h ch)) = text_content (Node h ch).
Proof. exact charsub_scoped. Qed.
Print Assumptions C07_charsub_scoped.

(* M5: digestion terminates: the fuel parse_doc gives itself (3 * length + 4) is never exhausted *)
Theorem C07_digest_terminates :
  forall (subs : list (list Z * list Z)) (pn : Z) (ts : list tree), parse_doc subs pn ts <> OutOfFuel.
Proof. exact digest_terminates. Qed.
Print Assumptions C07_digest_terminates.

(* Well-nested input is parsed into exactly its syntax tree ("the parent chain leads through the actual containers"): for every
   list of syntax trees built from text tokens, plain commands and environments begin ... end (any nesting depth, any number
   of children) whose pieces fit ([ok]: a child is not a paragraph break, not of a lower level than its environment, not an end
   marker of the environment's own class, not from an outer grouping depth), parsing the item sequence [print] gives the trees
   [den]: each environment node holds exactly what stands between its begin and its end, in order.  Nothing is pushed back, the
   stream is used up, the only items dropped are the end markers, and no sectioning event is recorded. *)
Theorem C07_nf_parse :
  forall (subs : list (list Z * list Z)) (pn : Z) (l : list ast),
    oks ok (fun _ => True) l ->
    exists s', parse_doc subs pn (flat_map print l) = Done (map den l, s') /\
               s_buf s' = [] /\ s_rest s' = [] /\ s_ev s' = [] /\ Forall (fun e => fst e = R_END) (s_log s').
Proof. exact nf_parse. Qed.
Print Assumptions C07_nf_parse.

Example C07_nf_nonvacuous :
  oks ok (fun _ => True) ex_nf /\ length (flat_map print ex_nf) = 9%nat /\
  match parse_doc ex_subs 0 (flat_map print ex_nf) with
  | Done (forest, s') => forest = map den ex_nf /\ length (s_log s') = 2%nat
  | _ => False
  end.
Proof. split; [exact ex_nf_ok|split; [reflexivity|vm_compute; split; reflexivity]]. Qed.

(* ... and with sectioning: syntax trees of text, plain commands (\\par included), environments and sectioning units [SSec h body]
   (every item of the body above the unit's level; behind a unit stands nothing or an item of a level not above its own —
   [chain]).  Parsing the printed item sequence gives [sden]: an environment holds exactly its body, a sectioning unit holds
   Macro.paragraphs of exactly its body — so units nest by level, a unit ends where the next item of its level or above begins,
   and (C07_digest_sections_wf, the C07_paragraphs theorems) its children are paragraphs and deeper units, in source order. *)
Theorem C07_nf_parse_sections :
  forall (subs : list (list Z * list Z)) (pn : Z) (l : list sast),
    oks2 subs pn (sast_ok subs pn) (fun _ => True) l -> chain subs pn l None ->
    exists s', parse_doc subs pn (flat_map sprint l) = Done (map (sden subs pn) l, s') /\
               s_buf s' = [] /\ s_rest s' = [] /\ s_ev s' = [] /\
               Forall (fun e => fst e = R_END \/ fst e = R_EMPTYPAR) (s_log s').
Proof. exact nf2_parse. Qed.
Print Assumptions C07_nf_parse_sections.

Example C07_nf_sections_nonvacuous :
  (oks2 ex_subs 0 (sast_ok ex_subs 0) (fun _ => True) ex_nf2 /\ chain ex_subs 0 ex_nf2 None) /\
  length (flat_map sprint ex_nf2) = 14%nat /\
  match parse_doc ex_subs 0 (flat_map sprint ex_nf2) with
  | Done (forest, s') => forest = map (sden ex_subs 0) ex_nf2 /\ forallb wf_sections_b forest = true /\ length (s_log s') = 2%nat
  | _ => False
  end.
Proof. split; [exact ex_nf2_ok|split; [reflexivity|vm_compute; repeat split; reflexivity]]. Qed.

(* the boolean forms of the hypotheses on the table, as the harness evaluates them *)
Theorem C07_table_hypotheses :
  forall (keep : Z -> bool) (subs : list (list Z * list Z)),
    neutral_b keep subs = true -> neutral keep subs /\ Forall (fun p => fst p <> []) subs.
Proof. exact neutral_b_sound. Qed.

(* non-vacuity: a document with text, a group with a dash ligature, two sections, a subsection, a list — all hypotheses of
   M1 and M2 hold, seven markers are dropped, the tree is well-formed, and the default table of plasTeX satisfies the
   hypotheses on the table *)
Example C07_nonvacuous :
  neutral_b keep_alnum ex_subs = true /\
  forallb item_ok_b ex_stream = true /\
  match parse_doc ex_subs 0 ex_stream with
  | Done (forest, s') =>
      s_ev s' = [] /\
      length (s_log s') = 7%nat /\
      words keep_alnum (flatten_forest (map snd (s_log s'))) = [] /\
      forallb wf_sections_b forest = true /\
      length forest = 2%nat /\
      length (words keep_alnum (flatten_forest forest)) = 10%nat /\
      reading_forest vis_std keep_alnum (map snd (s_log s')) = [] /\
      node_names (reading_forest vis_std keep_alnum forest) = [2; 3; 4; 10; 5; 6; 3] /\
      text_content (Node (ex_head KLeaf 0 0 0 0 0 []) forest) = [97; 98; 32; 99; 8211; 100; 101; 102; 103; 32]
  | _ => False
  end.
Proof. vm_compute. repeat split; reflexivity. Qed.
