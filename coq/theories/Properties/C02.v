(* C02 — Macro definitions expand exactly as TeX's substitution rules say (token level).
   Model: Model/Expand.v (expandDef, Definition.invoke, NewCommand.invoke and the argument readers);
   Spec: Spec/MacroSpec.v (abstract bodies / parameter texts, rendering, TeX's substitution rule). *)
From Coq Require Import List NArith Bool.
Import ListNotations.
From Verif Require Import Val Tokenizer Expand MacroSpec ExpandProofs.
From Coq Require Import ZArith.
From Verif Require Import IfScan MacroLang Engine MacroPrint EngineProofs.
From Verif Require Scope Context.
Local Open Scope N_scope.

(* M1: for every body and every argument vector, expandDef yields the body with each #k replaced by the k-th actual
   argument, ## by one #, and nothing else (a parameter number beyond the supplied arguments contributes nothing). *)
Theorem C02_expand_def_subst :
  forall (b : list piece) (prev : bool) (args : list (list tok)),
    body_ok prev b = true ->
    expand_def (render_body b) prev (None :: map Some args) = Some (subst_body args b).
Proof. exact expand_def_subst. Qed.

(* the one deliberate exception in the code (excluded from the normal form by body_ok): an argument directly after \ifx is wrapped in a group *)
Theorem C02_expand_def_ifx_hack :
  forall (k : nat) (args : list (list tok)), (1 <= k <= 9)%nat ->
    expand_def (Tok CC_ESCAPE [105; 102; 120] :: render_body [PArg k]) false (None :: map Some args)
    = Some (Tok CC_ESCAPE [105; 102; 120] ::
            match nth_error args (k - 1) with Some a => bgroup_tok :: a ++ [egroup_tok] | None => [] end).
Proof. exact expand_def_ifx_hack. Qed.

(* M2: for every parameter text of the normal form (literal prefix; up to 9 parameters, each undelimited or delimited by one
   or more tokens) and every conforming call, matching binds exactly the written arguments — undelimited ones lose their
   braces, delimited ones run up to the delimiter — and leaves the text after the call untouched. *)
Theorem C02_match_roundtrip :
  forall (p : pattern) (args : list (list tok)) (rest : list tok),
    pattern_ok p = true -> call_ok (ps p) args = true ->
    match_pattern (render_pattern p) false false [None] (render_call p args ++ rest) = MOk (None :: map Some args) rest.
Proof. exact match_roundtrip. Qed.

(* M1 + M2: a \def macro applied to a conforming call *)
Theorem C02_definition_invoke :
  forall (p : pattern) (b : list piece) (args : list (list tok)) (rest : list tok),
    pattern_ok p = true -> call_ok (ps p) args = true -> body_ok false b = true -> render_pattern p <> [] ->
    definition_invoke (render_pattern p) (render_body b) (render_call p args ++ rest) = Some (subst_body args b ++ rest).
Proof. exact definition_invoke_spec. Qed.
Theorem C02_definition_invoke_noargs :
  forall (b rest : list tok), definition_invoke [] b rest = Some (b ++ rest).
Proof. exact definition_invoke_noargs. Qed.

(* M3: \newcommand: mandatory arguments; optional argument present; optional argument absent (the default is used and what
   follows is untouched) *)
Theorem C02_newcommand_mandatory :
  forall (b : list piece) (args : list (list tok)) (rest : list tok),
    forallb balanced args = true -> body_ok false b = true ->
    newcommand_invoke (length args) None (render_body b) (render_braced args ++ rest) = Some (subst_body args b ++ rest).
Proof. exact newcommand_no_optional. Qed.
Theorem C02_newcommand_optional_present :
  forall (b : list piece) (o d : list tok) (args : list (list tok)) (rest : list tok),
    bracket_balanced o = true -> forallb balanced args = true -> body_ok false b = true ->
    newcommand_invoke (S (length args)) (Some d) (render_body b) (lbracket :: o ++ rbracket :: render_braced args ++ rest)
    = Some (subst_body (o :: args) b ++ rest).
Proof. exact newcommand_optional_present. Qed.
Theorem C02_newcommand_optional_absent :
  forall (b : list piece) (d a : list tok) (args : list (list tok)) (rest : list tok),
    forallb balanced (a :: args) = true -> body_ok false b = true ->
    newcommand_invoke (S (length (a :: args))) (Some d) (render_body b) (render_braced (a :: args) ++ rest)
    = Some (subst_body (d :: a :: args) b ++ rest).
Proof. exact newcommand_optional_absent. Qed.

(* non-vacuity:  \def\f(#1#2.,#3{<#2|#1|##|#3>}   applied to   ({ab}{c}x{y}.,{z}w *)
Example C02_example :
  let a := Tok 11 [97] in let b := Tok 11 [98] in let c := Tok 11 [99] in let x := Tok 11 [120] in let y := Tok 11 [121] in
  let z := Tok 11 [122] in let w := Tok 11 [119] in
  let dot := Tok 12 [46] in let comma := Tok 12 [44] in let lp := Tok 12 [40] in let lt := Tok 12 [60] in let gt := Tok 12 [62] in let bar := Tok 12 [124] in
  let p := {| pre := [lp]; ps := [PU; PD dot [comma]; PU] |} in
  let body := [PLit lt; PArg 2; PLit bar; PArg 1; PLit bar; PHash; PLit bar; PArg 3; PLit gt] in
  let args := [[a; b]; [c; x; bgroup_tok; y; egroup_tok]; [z]] in
  pattern_ok p = true /\ call_ok (ps p) args = true /\ body_ok false body = true /\
  definition_invoke (render_pattern p) (render_body body) (render_call p args ++ [w])
  = Some [lt; c; x; bgroup_tok; y; egroup_tok; bar; a; b; bar; hash_tok; bar; z; gt; w].
Proof. vm_compute. repeat split. Qed.

(* ---- program level: the expansion ENGINE (Model/Engine.v: TeX.__iter__, pushTokens, Context lookup and group frames,
   \def/\gdef, Definition.invoke, \iftrue/\iffalse/\ifnum through processIfContent and the number reader) simulates the
   reference evaluator of Spec/MacroLang.v ---- *)

(* the if-scanner of the engine works on real tokens; seen through the token classes it is the scanner of Model/IfScan.v,
   so the C03 theorems (C03_scan_render, C03_process_selects, C03_nested_transparent) speak about it *)
Theorem C02_engine_if_scan_is_IfScan :
  forall (w : which) (ts : list tok),
    process w (map classify ts) = option_map (map classify) (tprocess w ts).
Proof. exact tprocess_abstracts. Qed.

(* S1 on fragment F1 (Spec/MacroPrint.v: words, groups, parameterless \def and \gdef, calls, \iftrue / \iffalse /
   \ifnum <literal><rel><literal>\relax with and without \else; any nesting depth, definitions and conditionals inside bodies,
   dynamic binding, local redefinitions in groups): for EVERY program p of F1 to which TeX's rules (den) give a meaning -
   in particular every macro it calls is defined when called - and in which no \gdef is executed while an open group holds a
   local definition of the same name (gdef_safe, checked along the evaluation; there plasTeX deviates from TeX by design),
   the engine started on the printed tokens of p terminates without raising; the character tokens it yields are exactly the
   words den computes, in order; all groups are closed; and the global frame of the context holds, for every macro, exactly
   the (printed) body den's global frame holds, the primitives being untouched (every name that is neither a macro name zq.. nor of
   the switch family - swkey - has its meaning of the base context). *)
Theorem C02_engine_simulates_F1 :
  forall (fuel : nat) (p : list node) (e : env) (out : list Z),
    in_F1 p = true -> den fuel p = Ok e out -> gdef_safe fuel p = true ->
    exists (fuel' : nat) (st' : state) (T : list tok),
      run fuel' (init (print p)) [] = Done st' T /\
      text_of T = words_text (rev out) /\
      ups st' = [] /\
      (forall id, findm (mname id) (bottom st') = option_map mean_of (alookup id (last (frames e) []))) /\
      (forall k, (forall id, k <> mname id) -> swkey k = false -> findm k (bottom st') = findm k base_frame).
Proof. exact engine_simulates_F1. Qed.

(* fuel never changes an answer of the engine *)
Theorem C02_engine_fuel_monotone :
  forall (fuel fuel' : nat) (st : state) (acc : list tok) (st' : state) (out : list tok),
    (fuel <= fuel')%nat -> run fuel st acc = Done st' out -> run fuel' st acc = Done st' out.
Proof. exact run_mono_done. Qed.

(* non-vacuity:  \def\A{W1 \B}\def\B{W2 }{\def\B{W3 }\A}\A \ifnum 12<3\relax W4 \else W5 \fi {\gdef\C{\iftrue \B\fi}}\C
   den: W1 W3 W1 W2 W5 W2; the engine yields these words (and the macro instances of \def, {, }, \gdef in between) *)
Example C02_engine_example :
  let p := ([NDef false 1 O None [NWord 1; NCall 2 None []]; NDef false 2 O None [NWord 2];
            NGroup [NDef false 2 O None [NWord 3]; NCall 1 None []]; NCall 1 None [];
            NCond (TNum (OLit 12) RLt (OLit 3)) [NWord 4] (Some [NWord 5]);
            NGroup [NDef true 3 O None [NCond TTrue [NCall 2 None []] None]]; NCall 3 None []])%Z in
  in_F1 p = true /\ gdef_safe 100 p = true /\
  (exists e, den 100 p = Ok e [2; 5; 2; 1; 3; 1]%Z) /\
  (exists st T, run 200 (init (print p)) [] = Done st T /\ text_of T = words_text [1; 3; 1; 2; 5; 2]%Z).
Proof. vm_compute. repeat split; eexists; try eexists; repeat split. Qed.

(* S1 on fragment F2 = F1 + undelimited parameters + \ifcase (Spec/MacroPrint.v, in_F2): \ifcase<literal>\relax b0\or b1..[\else e]\fi; \def\m#1..#n{body} with n <= 9, calls
   \m{arg1}..{argn} with brace-balanced arguments (themselves words, groups, calls with arguments, conditionals,
   parameterless definitions), #k anywhere in a body (inside groups, arguments of inner calls, branches, bodies of
   parameterless inner definitions), bodies nested at most 49 deep (the reference evaluator substitutes with fuel 50);
   not in F2: definitions with parameters inside a body (they need ##), ## itself, delimited parameters.
   Same statement as for F1: the engine terminates, yields exactly the words den computes, closes all groups, and the
   global frame holds for every macro the parameter text #1..#n and the printed body den's global frame holds.
   The proof goes through Definition.invoke's pattern matcher on #1..#n / braced arguments (match_pattern, read_argument)
   and expandDef: print (subst args body) = expandDef (print body) (map print args). *)
Theorem C02_engine_simulates_F2 :
  forall (fuel : nat) (p : list node) (e : env) (out : list Z),
    in_F2 p = true -> den fuel p = Ok e out -> gdef_safe fuel p = true ->
    exists (fuel' : nat) (st' : state) (T : list tok),
      run fuel' (init (print p)) [] = Done st' T /\
      text_of T = words_text (rev out) /\
      ups st' = [] /\
      (forall id, findm (mname id) (bottom st') = option_map mean_of (alookup id (last (frames e) []))) /\
      (forall k, (forall id, k <> mname id) -> swkey k = false -> findm k (bottom st') = findm k base_frame).
Proof. exact engine_simulates_F2. Qed.

(* textual substitution at both levels: for a body of a macro with n <= 9 parameters and arguments without parameters,
   expandDef applied to the printed body and the printed arguments gives the printing of MacroLang.subst's result *)
Theorem C02_subst_print :
  forall (args : list (list node)) (n : nat) (d : nat) (b : list node),
    Forall (fun a => forallb fa_node a = true) args -> (n <= 9)%nat ->
    forallb (fun y => fb_node n y d) b = true ->
    expand_def (print b) false (None :: map Some (map print args)) = Some (print (subst (S d) args b)).
Proof. intros args n d b Ha Hn Hb. exact (proj1 (subst_print args n Ha Hn d b Hb)). Qed.

(* non-vacuity:  \def\A#1#2{W1 #2{#1}\iftrue #1\fi}\def\B{W9 }\A{W2 \B}{W3 }   ->   W1 W3 W2 W9 W2 W9 *)
Example C02_engine_example_F2 :
  let p := ([NDef false 1 2 None [NWord 1; NParam 2; NGroup [NParam 1]; NCond TTrue [NParam 1] None];
            NDef false 2 O None [NWord 9];
            NCall 1 None [[NWord 2; NCall 2 None []]; [NWord 3]]])%Z in
  in_F2 p = true /\ in_F1 p = false /\ gdef_safe 100 p = true /\
  (exists e, den 100 p = Ok e [9; 2; 9; 2; 3; 1]%Z) /\
  (exists st T, run 200 (init (print p)) [] = Done st T /\ text_of T = words_text [1; 3; 2; 9; 2; 9]%Z).
Proof. vm_compute. repeat split; eexists; try eexists; repeat split. Qed.

(* \ifcase is in F2 as well (non-negative literal selector, at least one branch, optional \else):
   \def\A#1{\ifcase 2\relax W1 \or W2 \or #1\else W4 \fi \ifcase 5\relax W5 \else W6 \fi \ifcase 0\relax #1\fi}\A{W7 }  ->  W7 W6 W7 *)
Example C02_engine_example_case :
  let p := ([NDef false 1 1 None [NCase (OLit 2) [[NWord 1]; [NWord 2]; [NParam 1]] (Some [NWord 4]);
                                  NCase (OLit 5) [[NWord 5]] (Some [NWord 6]);
                                  NCase (OLit 0) [[NParam 1]] None];
            NCall 1 None [[NWord 7]]])%Z in
  in_F2 p = true /\ gdef_safe 100 p = true /\
  (exists e, den 100 p = Ok e [7; 6; 7]%Z) /\
  (exists st T, run 200 (init (print p)) [] = Done st T /\ text_of T = words_text [7; 6; 7]%Z).
Proof. vm_compute. repeat split; eexists; try eexists; repeat split. Qed.

(* \newcommand with an optional argument is in F2 too: NDef true nm n (Some default) body is printed
   \newcommand{\nm}[n+1][default]{body} (global, as plasTeX's \newcommand is), NCall nm (Some opt) args is \nm[opt]{..}{..};
   defaults and optional arguments are plain words; gdef_safe also demands that [opt] is only written after a macro that has one.
   \newcommand{\A}[2][W1 ]{#2#1}\A{W2 }\A[W3 ]{W4 }   ->   W2 W1 W4 W3 *)
Example C02_engine_example_newcommand :
  let p := ([NDef true 1 1 (Some [NWord 1]) [NParam 2; NParam 1];
            NCall 1 None [[NWord 2]]; NCall 1 (Some [NWord 3]) [[NWord 4]]])%Z in
  in_F2 p = true /\ gdef_safe 100 p = true /\
  (exists e, den 100 p = Ok e [3; 4; 1; 2]%Z) /\
  (exists st T, run 300 (init (print p)) [] = Done st T /\ text_of T = words_text [2; 1; 4; 3]%Z).
Proof. vm_compute. repeat split; eexists; try eexists; repeat split. Qed.

(* \let\new=\old (NLet, local, the meaning at that moment) is in F2:
   \def\A{W1 }\let\B=\A \def\A{W2 }{\let\A=\B \A}\A \B   ->   W1 W2 W1 *)
Example C02_engine_example_let :
  let p := ([NDef false 1 O None [NWord 1]; NLet 2 1; NDef false 1 O None [NWord 2];
            NGroup [NLet 1 2; NCall 1 None []]; NCall 1 None []; NCall 2 None []])%Z in
  in_F2 p = true /\ gdef_safe 100 p = true /\
  (exists e, den 100 p = Ok e [1; 2; 1]%Z) /\
  (exists st T, run 300 (init (print p)) [] = Done st T /\ text_of T = words_text [1; 2; 1]%Z).
Proof. vm_compute. repeat split; eexists; try eexists; repeat split. Qed.

(* the context of the engine refines the Model of plasTeX/Context.py proved for C04 (Model/Context.v): for every injective coding
   of macro names by numbers and every coding of meanings by C04's abstract values that sends the unrecognized class of a name to
   VUnrec of its code, lookup / __getitem__ / push() / pop() / addLocal / addGlobal of the engine are Context.v's operations on the
   abstracted state (no object frames, no category changes: the part of Context.v the engine fragment uses).  So C04's theorems
   (innermost binding wins, a balanced group restores the enclosing frames, local dies / global survives) speak about the engine. *)
Theorem C02_engine_context_refines_C04 :
  forall (cn : list N -> N) (cv : Engine.meaning -> Scope.value),
    (forall a b, cn a = cn b -> a = b) -> (forall k, cv (MUnrec k) = Scope.VUnrec (cn k)) ->
    forall (s : Engine.state) (k : list N) (v : Engine.meaning),
      Context.lookup (abs_state cn cv s) (cn k) = option_map cv (Engine.lookup s k) /\
      Context.getitem (cn k) (abs_state cn cv s) = (abs_state cn cv (fst (getitem k s)), cv (snd (getitem k s))) /\
      abs_state cn cv (push_frame s) = Context.push None (abs_state cn cv s) /\
      abs_state cn cv (pop_frame s) = Context.pop None (abs_state cn cv s) /\
      abs_state cn cv (add_local k v s) = Context.add_local (cn k) (cv v) (abs_state cn cv s) /\
      abs_state cn cv (add_global k v s) = Context.add_global (cn k) (cv v) (abs_state cn cv s).
Proof. exact context_refines. Qed.

(* \newif switches are in F2: NNewSwitch n = \newif\ifzs<n>, NSetSwitch n b = \zs<n>true / \zs<n>false, test TSwitch n = \ifzs<n>;
   interpreter-wide state (not undone by groups); gdef_safe demands the declaration before a test or a setter.
   \newif\ifS \ifS W1 \else W2 \fi {\Strue}\ifS W3 \fi \newif\ifS \Sfalse \ifS\else W4 \fi   ->   W2 W3 W4 *)
Example C02_engine_example_switch :
  let p := ([NNewSwitch 1; NCond (TSwitch 1) [NWord 1] (Some [NWord 2]); NGroup [NSetSwitch 1 true];
            NCond (TSwitch 1) [NWord 3] None; NNewSwitch 1; NSetSwitch 1 false; NCond (TSwitch 1) [] (Some [NWord 4])])%Z in
  in_F2 p = true /\ gdef_safe 100 p = true /\
  (exists e, den 100 p = Ok e [4; 3; 2]%Z) /\
  (exists st T, run 300 (init (print p)) [] = Done st T /\ text_of T = words_text [2; 3; 4]%Z).
Proof. vm_compute. repeat split; eexists; try eexists; repeat split. Qed.

(* counters are in F2: NStep c = \stepcounter{zc<c>}, NSetC c n = \setcounter{zc<c>}{n}, NAddC c n = \addtocounter{zc<c>}{n} (n any integer),
   and \value{zc<c>} as an operand of \ifnum, \ifodd, \ifcase; counters are global and start at 0.
   \setcounter{C}{-2}\stepcounter{C}{\addtocounter{C}{4}}\ifnum\value{C}=3\relax W1 \fi \ifodd\value{C}\relax W2 \fi
   \ifcase\value{C}\relax W3 \or W4 \or W5 \or W6 \fi   ->   W1 W2 W6 *)
Example C02_engine_example_counters :
  let p := ([NSetC 1 (-2); NStep 1; NGroup [NAddC 1 4]; NCond (TNum (OCnt 1) REq (OLit 3)) [NWord 1] None;
            NCond (TOdd (OCnt 1)) [NWord 2] None; NCase (OCnt 1) [[NWord 3]; [NWord 4]; [NWord 5]; [NWord 6]] None])%Z in
  in_F2 p = true /\ gdef_safe 100 p = true /\
  (exists e, den 100 p = Ok e [6; 2; 1]%Z) /\
  (exists st T, run 400 (init (print p)) [] = Done st T /\ text_of T = words_text [1; 2; 6]%Z).
Proof. vm_compute. repeat split; eexists; try eexists; repeat split. Qed.

(* ---- stage 4: F3 = F2 + nested definitions with parameters of their own ----
   A definition written inside the body of a macro with parameters writes its own parameters ##k (parameter text and body); the
   body of a definition is printed in body mode (MacroPrint.printb: NParam2 k = ##k, NParam k = #k of the enclosing macro).  When
   the outer macro is called, expandDef replaces #k by the arguments and turns ##k into #k: the reference evaluator does the same
   on the tree (MacroLang.subst replaces NParam, MacroLang.lower turns NParam2 into NParam).  F3 (MacroPrint.in_F3, fb3_node /
   fi_node) allows such a definition - \def with 1..9 parameters, or a global \newcommand with an optional argument - directly in
   the body of a macro that has at least one parameter (also under groups and conditional branches there, not inside a call
   argument), its own body being words, #k, ##k, groups, calls, conditionals (no further definition); and in the body of a
   parameterless \def made of words and such \def's (there \def itself reduces ##k, see the second example).  Same conclusion as for F2:
   visible text, balanced frames, and the global frame holds for every macro the parameter text and the body (in body mode) that
   den's global frame holds. *)
Theorem C02_engine_simulates_F3 :
  forall (fuel : nat) (p : list node) (e : env) (out : list Z),
    in_F3 p = true -> den fuel p = Ok e out -> gdef_safe fuel p = true ->
    exists (fuel' : nat) (st' : state) (T : list tok),
      run fuel' (init (print p)) [] = Done st' T /\
      text_of T = words_text (rev out) /\
      ups st' = [] /\
      (forall id, findm (mname id) (bottom st') = option_map mean_of (alookup id (last (frames e) []))) /\
      (forall k, (forall id, k <> mname id) -> swkey k = false -> findm k (bottom st') = findm k base_frame).
Proof. exact engine_simulates_F3. Qed.

(* non-vacuity: a nested \def with ##1 ##2 and a nested \newcommand with ##1 ##2, both also using #1 of the outer macro
   \def\A#1{\def\B##1##2{W1 #1##2{##1}}\newcommand{\C}[2][W5 ]{##2#1##1}}
   \A{W2 }\B{W3 }{W4 }\C{W6 }\C[W7 ]{W8 }      ->   W1 W2 W4 W3  W6 W2 W5  W8 W2 W7 *)
Example C02_engine_example_F3 :
  let p := ([NDef false 1 1 None [NDef false 2 2 None [NWord 1; NParam 1; NParam2 2; NGroup [NParam2 1]];
                                  NDef true 3 1 (Some [NWord 5]) [NParam2 2; NParam 1; NParam2 1]];
            NCall 1 None [[NWord 2]]; NCall 2 None [[NWord 3]; [NWord 4]];
            NCall 3 None [[NWord 6]]; NCall 3 (Some [NWord 7]) [[NWord 8]]])%Z in
  in_F3 p = true /\ gdef_safe 100 p = true /\
  (exists e, den 100 p = Ok e [7; 2; 8; 5; 2; 6; 3; 4; 2; 1]%Z) /\
  (exists st T, run 600 (init (print p)) [] = Done st T /\ text_of T = words_text [1; 2; 4; 3; 6; 2; 5; 8; 2; 7]%Z).
Proof. vm_compute. repeat split; eexists; try eexists; repeat split. Qed.

(* a parameterless outer macro: its body is handed back as it is (no expandDef), and \def itself (DefCommand, "nested" parameter
   text ##1##2) removes one level of # from the parameter text and the body - Engine.reduce_hashes.  In F3 such a body is made of
   words and \def's with ##k (MacroPrint.fv_node).
   \def\A{W1 \def\B##1##2{##2{##1}}}\A\B{W2 }{W3 }{\A}   ->   W1 W3 W2 W1 *)
Example C02_engine_example_F3_reduce :
  let p := ([NDef false 1 O None [NWord 1; NDef false 2 2 None [NParam2 2; NGroup [NParam2 1]]];
            NCall 1 None []; NCall 2 None [[NWord 2]; [NWord 3]]; NGroup [NCall 1 None []]])%Z in
  in_F3 p = true /\ gdef_safe 100 p = true /\
  (exists e, den 100 p = Ok e [1; 2; 3; 1]%Z) /\
  (exists st T, run 600 (init (print p)) [] = Done st T /\ text_of T = words_text [1; 3; 2; 1]%Z).
Proof. vm_compute. repeat split; eexists; try eexists; repeat split. Qed.

(* \expandafter\a\b (NExpandAfter a b) is in F3, in program text, bodies and arguments: expandafter.invoke takes the two tokens,
   expands \b once and pushes \a and the expansion back; the reference evaluator lets \a find its arguments in the brace groups
   the body of \b starts with.  gdef_safe demands what the Model of expandafter.invoke follows: \b is a parameterless \def whose
   body is non-empty argument text, \a has no optional argument.
   \def\A#1#2{#2#1}\def\B{{W1 }{W2 }W3 }\expandafter\A\B W4 \def\C#1{\expandafter\A\B #1}\C{W5 }   ->   W2 W1 W3 W4 W2 W1 W3 W5 *)
Example C02_engine_example_expandafter :
  let p := ([NDef false 1 2 None [NParam 2; NParam 1]; NDef false 2 O None [NGroup [NWord 1]; NGroup [NWord 2]; NWord 3];
            NExpandAfter 1 2; NWord 4;
            NDef false 3 1 None [NExpandAfter 1 2; NParam 1]; NCall 3 None [[NWord 5]]])%Z in
  in_F3 p = true /\ gdef_safe 100 p = true /\
  (exists e, den 100 p = Ok e [5; 3; 1; 2; 4; 3; 1; 2]%Z) /\
  (exists st T, run 600 (init (print p)) [] = Done st T /\ text_of T = words_text [2; 1; 3; 4; 2; 1; 3; 5]%Z).
Proof. vm_compute. repeat split; eexists; try eexists; repeat split. Qed.

Print Assumptions C02_engine_simulates_F3.

(* ---- delimited parameters in the engine (token level) ----
   Not part of run . print = den (the program printer has no delimiters).  For every parameter text of the normal form of
   C02_match_roundtrip (literal prefix; up to 9 parameters, each undelimited or delimited by one or more tokens) in which no
   token is a brace and which does not begin with a blank, every body of the normal form of C02_expand_def_substitutes with
   balanced braces, and every conforming call - written with the braces { } the Tokenizer makes (render_call_bg; C02_match_roundtrip
   is about BeginGroup(' ') tokens) -: started on  \def\nm<parameter text>{<body>}\nm<arguments><rest>  with a fresh context,
   the expansion loop defines \nm (what \def stores: parameter text and body as written), yields the \def instance and replaces the
   call by the body with every #k replaced by the k-th argument; <rest> is untouched.  (EngineProofs.exec: iterations of TeX.__iter__.) *)
Theorem C02_engine_delimited_parameters :
  forall (p : pattern) (b : list piece) (args : list (list tok)) (rest : list tok) (nm : list N),
    pattern_ok p = true -> call_ok (ps p) args = true -> body_ok false b = true -> render_pattern p <> [] ->
    forallb (fun t => negb (is_bgroup t)) (render_pattern p) = true ->
    match render_pattern p with t :: _ => is_space t = false | [] => True end ->
    depth_after (render_body b) O = Some O ->
    exec (init (esc s_def :: Tok CC_ESCAPE nm :: render_pattern p ++ bg :: render_body b ++ eg ::
                Tok CC_ESCAPE nm :: render_call_bg p args ++ rest))
         [prim_elem (PDef false)]
         (St (subst_body args b ++ rest) [] ((nm, MDef (render_pattern p) (render_body b)) :: base_frame)).
Proof. exact engine_delimited_parameters. Qed.

(* non-vacuity:  \def\a!#1.#2#3;:{[#3#1]}\a!x.{y}z;:w   ->   [zx]w     (prefix "!", #1 delimited by ".", #2 undelimited, #3 by ";:") *)
Example C02_engine_delimited_example :
  let o := fun c : N => Tok CC_OTHER [c] in
  let p := {| pre := [o 33]; ps := [PD (o 46) []; PU; PD (o 59) [o 58]] |} in
  let b := [PLit (o 91); PArg 3; PArg 1; PLit (o 93)] in
  let args := [[o 120]; [o 121]; [o 122]] in
  pattern_ok p = true /\ call_ok (ps p) args = true /\ body_ok false b = true /\
  (exists st T, run 50 (init (esc s_def :: Tok CC_ESCAPE [97] :: render_pattern p ++ bg :: render_body b ++ eg ::
                               Tok CC_ESCAPE [97] :: render_call_bg p args ++ [o 119])) [] = Done st T /\
                text_of T = [o 91; o 122; o 120; o 93; o 119]).
Proof. vm_compute. repeat split; eexists; try eexists; repeat split. Qed.

(* ---- delimited parameters inside run . print = den ----
   The printer takes a delimiter assignment (type class MacroPrint.Delims; NoDelims, the instance of all statements above, has none):
   dl np i = the delimiter tokens written after parameter i of a \def macro with np parameters (punctuation characters ! , . : ;
   [] = undelimited, argument in braces).  \def\zq..#1<dl np 1>..#np<dl np np>{body}; a call with np arguments writes argument i
   in braces when dl np i = [] and as  <argument><dl np i>  otherwise.  In F3 the argument of a delimited parameter is plain words,
   calls inside bodies and arguments, \newcommand macros, nested definitions and \expandafter targets have undelimited parameter
   counts (MacroPrint.undelim).  Same conclusion; the stored parameter text (mean_of) carries the delimiters. *)
Theorem C02_engine_simulates_F3_delims :
  forall (D : Delims) (fuel : nat) (p : list node) (e : env) (out : list Z),
    in_F3 p = true -> den fuel p = Ok e out -> gdef_safe fuel p = true ->
    exists (fuel' : nat) (st' : state) (T : list tok),
      run fuel' (init (print p)) [] = Done st' T /\
      text_of T = words_text (rev out) /\
      ups st' = [] /\
      (forall id, findm (mname id) (bottom st') = option_map mean_of (alookup id (last (frames e) []))) /\
      (forall k, (forall id, k <> mname id) -> swkey k = false -> findm k (bottom st') = findm k base_frame).
Proof. intros D. exact engine_simulates_F3. Qed.

(* non-vacuity: macros with 2 parameters write #1.#2, macros with 3 parameters write #1#2,#3;:
   \def\A#1.#2{#2#1}\A W1 W2 .{W3 }\def\B#1#2,#3;:{#3#2#1}\B{W4 }W5 ,W6 ;:   ->   W3 W1 W2 W6 W5 W4 *)
Definition demo_dl (np i : nat) : list tok :=
  match np, i with
  | 2%nat, 1%nat => [other 46]
  | 3%nat, 2%nat => [other 44]
  | 3%nat, 3%nat => [other 59; other 58]
  | _, _ => []
  end.
Lemma demo_dl_ok : forall np i, forallb dtok_ok (demo_dl np i) = true.
Proof. intros np i. destruct np as [|[|[|[|np]]]]; destruct i as [|[|[|[|i]]]]; reflexivity. Qed.
Definition DemoDelims : Delims := {| dl := demo_dl; dl_ok := demo_dl_ok |}.
Example C02_engine_example_delims :
  let p := ([NDef false 1 2 None [NParam 2; NParam 1]; NCall 1 None [[NWord 1; NWord 2]; [NWord 3]];
            NDef false 2 3 None [NParam 3; NParam 2; NParam 1]; NCall 2 None [[NWord 4]; [NWord 5]; [NWord 6]]])%Z in
  @in_F3 DemoDelims p = true /\ @gdef_safe DemoDelims 100 p = true /\
  @print DemoDelims [NCall 1 None [[NWord 1]; [NWord 3]]] = esc (mname 1) :: wprint 1 ++ other 46 :: bg :: wprint 3 ++ [eg] /\
  (exists e, den 100 p = Ok e [4; 5; 6; 2; 1; 3]%Z) /\
  (exists st T, run 600 (init (@print DemoDelims p)) [] = Done st T /\ text_of T = words_text [3; 1; 2; 6; 5; 4]%Z).
Proof. vm_compute. repeat split; eexists; try eexists; repeat split. Qed.
