(* C11 — Verbatim text and mathematics pass through character-for-character.
   Only statements closed by [exact].  Spec: Spec/Verb.v (string search for the first complete end delimiter; the author's
   tokens of a node), Spec/Lexer.v through Model/Tokenizer.v (the lexical rules, C01).  Models: Model/Verbatim.v
   (VerbatimEnvironment.invoke, verb.invoke/digest), Model/Source.v (Token/EscapeSequence/Macro/bgroup/math/displaymath .source). *)
From Coq Require Import List NArith Bool Arith.
Import ListNotations.
From Verif Require Import Val Catcodes Tokenizer Verbatim Source Verb MathParse TokenizerProofs VerbatimProofs SourceProofs MathParseProofs.
Local Open Scope N_scope.

(* M1: the scan for the end of a verbatim environment is a correct string search, for every input, every pair of non-empty
   end patterns and every tokenizer state: it stops at the earliest position where one of the two patterns ends, hands back
   everything before the pattern and leaves everything after it unread; without a complete end pattern everything is content. *)
Theorem C11_scan_first_occurrence :
  forall (p1 p2 s : list N) (l0 : lst) (pv : option tok), p1 <> [] -> p2 <> [] ->
  let st := {| lx := l0; prev := pv; inp := s |} in
  let run := scan (S (length s)) p1 p2 [ISelf] st in
  (forall k, ends_at p1 p2 s k -> (forall j, (j < k)%nat -> ~ ends_at p1 p2 s j) ->
     exists w st', run = VEnd (ISelf :: map vitem (firstn (k - length (if Nat.eqb w 1 then p1 else p2)) s)) w st' /\
       inp st' = skipn k s /\ lx st' = SM /\
       (w = 1%nat /\ is_suffix p1 (firstn k s) \/ w = 2%nat /\ ~ is_suffix p1 (firstn k s) /\ is_suffix p2 (firstn k s))) /\
  ((forall k, ~ ends_at p1 p2 s k) -> run = VEof (ISelf :: map vitem s)).
Proof. intros p1 p2 s l0 pv H1 H2. exact (scan_first_occurrence p1 p2 s l0 pv H1 H2). Qed.

(* M1 + M2, in the form of the property: for every body that contains no complete end delimiter (partial ones anywhere),
   closed by \end{name} (which = true) or \endname, followed by any text: the content is the body, one token per character
   (C01-M8: backslashes, braces, percent signs, ^^, blanks and line ends are all single tokens of their own), and the
   tokenizer is handed back in state M with exactly the following text unread. *)
Theorem C11_verbatim_chars :
  forall (esc bg eg : N) (name body rest : list N) (which : bool) (l0 : lst) (pv : option tok),
  let p1 := end_pattern1 esc bg eg name in
  let p2 := end_pattern2 esc name in
  let p := if which then p1 else p2 in
  clean_body p1 p2 body p -> last (s_end ++ name) 0 <> eg ->
  exists w st' toks,
    verbatim_invoke esc bg eg name {| lx := l0; prev := pv; inp := body ++ p ++ rest |} = VEnd (ISelf :: map ITok toks) w st' /\
    tokenize verbatim_table body = RToks toks /\
    flat_map (fun t => match t with Tok _ x => x end) toks = body /\
    items_text (ISelf :: map ITok toks) = body /\
    inp st' = rest /\ lx st' = SM.
Proof. intros esc bg eg name body rest which l0 pv. exact (verbatim_invoke_body esc bg eg name body rest which l0 pv). Qed.

(* "text after it is processed normally again": under whatever table is restored, the tokens of the text that follows are
   exactly those the lexical rules give the same text after an ordinary letter. *)
Theorem C11_following_text_normal :
  forall (t0 : table) (a d : N) (rest : list N) (l : list tok),
  which_code t0 a = CC_LETTER ->
  run_from t0 (after_state d rest) = RToks l ->
  tokenize t0 (a :: rest) = RToks (Tok CC_LETTER [a] :: l).
Proof. exact following_text_normal. Qed.

(* M3: \verb and \verb* with every delimiter d (any character; '*' only after a star) and every body that does not contain
   the closing character: the content is the body, character for character, and the following text is left unread. *)
Theorem C11_verb_delims :
  forall (star : bool) (d : N) (body rest : list N) (l0 : lst) (pv : option tok),
  (star = false -> d <> 42) -> ~ In (closing d) body ->
  verb_invoke {| lx := l0; prev := pv; inp := (if star then [42] else []) ++ d :: body ++ closing d :: rest |} =
  BEnd star (vtok (closing d)) (map vtok body) true (after_state (closing d) rest) /\
  flat_map (fun t => match t with Tok _ x => x end) (map vtok body) = body.
Proof. exact verb_delims. Qed.

(* M4: for every list of tokens a formula can consist of (control words, control symbols, single characters of the
   categories group / math shift / alignment / parameter / subscript / blank / letter / other), printing them with
   Token.source / EscapeSequence.source and tokenizing the result under the ordinary category codes gives the tokens back,
   blanks aside: no control word is glued to a following letter and no token is split. *)
Theorem C11_print_tokenize :
  forall ts : list tok, forallb (good_tok default_table) ts = true ->
  exists l, tokenize default_table (print_toks ts) = RToks l /\ strip_blanks l = strip_blanks ts.
Proof. exact print_tokenize. Qed.

(* S1: node level, any depth.  For every well-formed node tree (macros with arguments and children, environments, groups,
   inline and display mathematics, scripts as active characters, nested to any depth), the tokens of its reconstructed
   source are, blanks aside, the author's tokens of the tree; the same for a list of nodes (sourceChildren). *)
Theorem C11_source_tokens_partial :
  forall n : node, wf default_table n = true ->
  exists l, tokenize default_table (src n) = RToks l /\ strip_blanks l = node_toks default_table n.
Proof. exact print_tokenize_node. Qed.
Theorem C11_source_children_tokens_partial :
  forall l : list node, forallb (wf default_table) l = true ->
  exists l0, tokenize default_table (src_list l) = RToks l0 /\ strip_blanks l0 = flat_map (node_toks default_table) l.
Proof. exact print_tokenize_list. Qed.
(* ... for every table that has the escape, group, math-shift and blank characters in their usual places *)
Theorem C11_source_tokens_any_table :
  forall t : table,
  which_code t 92 = CC_ESCAPE -> which_code t 32 = CC_SPACE -> which_code t 123 = CC_BGROUP -> which_code t 125 = CC_EGROUP ->
  which_code t 36 = CC_MATH -> which_code t 91 = CC_OTHER -> which_code t 93 = CC_OTHER ->
  (forall c, letterb c = (which_code t c =? CC_LETTER)) ->
  forall n : node, wf t n = true -> exists l, tokenize t (src n) = RToks l /\ strip_blanks l = node_toks t n.
Proof. exact print_tokenize_node_gen. Qed.

(* The exclusion in [wf] that is a deviation of the code from the statement (known finding): \left< \right> and the other
   angle-replacing delimiters are rewritten to \langle / \rangle, so without the exclusion the statement is false. *)
Theorem C11_source_tokens_angle_refuted :
  exists n, (forall a, In a (match n with NMacro _ _ _ args _ => args | _ => [] end) -> wf default_table a = true) /\
    forall l, tokenize default_table (src n) = RToks l -> strip_blanks l <> node_toks default_table n.
Proof. exact print_tokenize_angle_refuted. Qed.

(* P1: the parser Model (Model/MathParse.v: Macro.parse / readArgumentAndSource / readToken / readGrouping / expandTokens and the
   digest of groups, formulas and environments, for the commands of the formula grammar) keeps every token: for every list of
   tokens as the tokenizer makes them (canon), every fuel and both modes, if everything that was opened was closed, the
   nodes it builds stand -- blanks aside -- for exactly the tokens it was given.  No token is dropped, duplicated or
   reordered by argument reading, blank skipping, nesting or the 'self'-argument bookkeeping, at any depth. *)
Theorem C11_parse_keeps_tokens :
  forall (fuel : nat) (mm : bool) (ts : list tok) (nodes : list node),
  forallb canon ts = true -> parse fuel mm ts = Some (nodes, true) ->
  flat_map (node_toks default_table) nodes = strip_blanks ts.
Proof. exact parse_keeps_tokens. Qed.

(* End to end, from the author's tokens to the reconstructed source and back: for every token list ts of a formula that the
   parser closes and whose nodes are well formed, the source plasTeX reconstructs (src_list of the parsed nodes) tokenizes,
   under the ordinary codes, to ts again, blanks aside.  The tree is no longer an input of the statement: it is computed
   from the tokens by the Model of the parser. *)
Theorem C11_formula_roundtrip :
  forall (mm : bool) (ts : list tok) (nodes : list node),
  forallb canon ts = true -> parse_formula mm ts = Some (nodes, true) -> forallb (wf default_table) nodes = true ->
  flat_map (node_toks default_table) nodes = strip_blanks ts /\
  exists l, tokenize default_table (src_list nodes) = RToks l /\ strip_blanks l = strip_blanks ts.
Proof. exact formula_roundtrip. Qed.

(* the parser terminates: the fuel parse_formula gives itself (one more than the number of tokens) suffices for every input *)
Theorem C11_parse_terminates :
  forall (mm : bool) (s : list tok), exists nodes ok, parse_formula mm s = Some (nodes, ok).
Proof. exact parse_formula_total. Qed.

(* non-vacuity: the characters of  $x^{2}_\alpha\frac ab\left(\text{a $y$}\right]\begin{array}{c}1&2\\ 3\end{array}$  tokenize to
   canonical tokens, the parser closes everything and its nodes are well formed *)
Example C11_formula_example :
  exists ts nodes, tokenize default_table example_formula = RToks ts /\ forallb canon ts = true /\
    parse_formula false ts = Some (nodes, true) /\ forallb (wf default_table) nodes = true /\ (length nodes = 1)%nat.
Proof. exact formula_example. Qed.

(* non-vacuity *)
Example C11_verbatim_example :
  let body := [120; 92; 121; 123; 122; 125; 37; 113; 32; 32; 10; 92; 101; 110; 100; 123; 118] in
  verbatim_invoke 92 123 125 [118] (init_state (body ++ end_pattern1 92 123 125 [118] ++ [90]))
  = VEnd (ISelf :: map vitem body) 1 (after_state 125 [90]).
Proof. exact verbatim_example. Qed.
Example C11_source_example :
  let n := NMath [NTok 120; NMacro MNone (active_prefix ++ [94]) true [NTok 123; NTok 50; NTok 125] [NTok 50];
                  NMacro MNone [102;114;97;99] false [NTok 97; NTok 98] [];
                  NMacro MNone [97;108;112;104;97] false [] []; NTok 98] in
  wf default_table n = true /\
  src n = [36; 120; 94; 123; 50; 125; 92; 102; 114; 97; 99; 32; 97; 98; 92; 97; 108; 112; 104; 97; 32; 98; 36] /\
  node_toks default_table n =
    [Tok 3 [36]; Tok 11 [120]; Tok 7 [94]; Tok 1 [123]; Tok 12 [50]; Tok 2 [125]; Tok 0 [102;114;97;99]; Tok 11 [97]; Tok 11 [98];
     Tok 0 [97;108;112;104;97]; Tok 11 [98]; Tok 3 [36]].
Proof. vm_compute. repeat split. Qed.
