(* C16 -- Configuration values come from defaults, files and command line in that order.
   This file contains only statements closed by [exact] and their assumptions.
   Model: Model/Config.v (line-by-line transcription of plasTeX/ConfigManager.py, the option classes of plasTeX/Config.py and
   Renderers/HTML5/Config.py, and the order of plasTeX/client.py main).  Spec and proofs: Proofs/ConfigProofs.v.
   [fx] is the switch "BooleanOption.setFromString as repaired" (true) / "as before the repair" (false); the layering theorems hold
   for both, the meaning of the boolean words (M3) only for the repaired code. *)
From Coq Require Import Strings.String.
From Coq Require Import List ZArith Bool.
Import ListNotations.
From Verif Require Import Val Config ConfigProofs ConfigOptions.
Local Open Scope Z_scope.

(* L0: after main(), every option is: its default, then the lines of the configuration files addressed to it, file after file in the
   order of the --config occurrences, then the parsed command line -- for every table, every file system, every command line. *)
Theorem C16_layering : forall fx cfg f d cfg' sec key opts o,
  layer fx cfg f d = Ok cfg' -> assoc sec cfg = Some opts -> assoc key opts = Some o ->
  exists files o1 o2,
    config_files f d = Ok files /\
    foldR (file_effect fx opts sec key) files o = Ok o1 /\
    update_opt d o1 = Ok o2 /\
    opt_at cfg' sec key = Some o2.
Proof. exact layering. Qed.

(* M1 (strings, integers, floats, booleans): the command-line value if there is one, else the value denoted by the LAST line
   `key = s` among all files, else the default. *)
Theorem C16_layering_scalar : forall fx cfg f d cfg' sec key opts o,
  wf_config cfg = true -> layer fx cfg f d = Ok cfg' -> assoc sec cfg = Some opts -> assoc key opts = Some o ->
  scalar (o_cls (o_static o)) = true ->
  exists files o',
    config_files f d = Ok files /\ opt_at cfg' sec key = Some o' /\ o_static o' = o_static o /\
    Ok (o_value o') =
      match assoc (o_name (o_static o)) d with
      | Some a => value_of_argval a
      | None => match last_opt (strings_for key (section_items sec files)) with
                | Some s => conv fx (o_cls (o_static o)) s
                | None => Ok (o_value o)
                end
      end.
Proof. exact layering_scalar_wf. Qed.

(* M2 (lists): default ++ the words of every file line in order ++ the words of every command-line occurrence in order. *)
Theorem C16_layering_list : forall fx cfg f d cfg' sec key opts o,
  wf_config cfg = true -> layer fx cfg f d = Ok cfg' -> assoc sec cfg = Some opts -> assoc key opts = Some o ->
  o_cls (o_static o) = CMulti ->
  exists files o' l0 wss,
    config_files f d = Ok files /\ opt_at cfg' sec key = Some o' /\ o_static o' = o_static o /\ o_value o = VList l0 /\
    Forall2 (fun s ws => shlex_split s = Ok ws) (strings_for key (section_items sec files)) wss /\
    o_value o' = VList (l0 ++ concat wss ++ cmd_words (assoc (o_name (o_static o)) d)).
Proof. exact layering_list_wf. Qed.

(* M2 (dictionaries): the bindings of the files (both `key = k1=v1, k2=v2` lines and the undeclared keys of the section, which go
   to the section's first dictionary option) in order, then those of the command line; a later binding of a key replaces an
   earlier one (C16_dict_right_bias). *)
Theorem C16_layering_dict : forall fx cfg f d cfg' sec key opts o ek st,
  wf_config cfg = true -> layer fx cfg f d = Ok cfg' -> assoc sec cfg = Some opts -> assoc key opts = Some o ->
  o_cls (o_static o) = CDict ek st ->
  exists files o' fbs cbs kes,
    config_files f d = Ok files /\ opt_at cfg' sec key = Some o' /\ o_static o' = o_static o /\
    bindings_of opts key (section_items sec files) = Some fbs /\
    cmd_bindings st (assoc (o_name (o_static o)) d) = Some cbs /\
    Forall2 (converted ek) (fbs ++ cbs) kes /\
    o_value o' = VDict (dict_after [] kes).
Proof. exact layering_dict_wf. Qed.

Theorem C16_dict_right_bias : forall k bs d,
  assoc k (dict_after d bs) =
  match last_opt (filter (fun ke => str_eqb (fst ke) k) bs) with Some ke => Some (snd ke) | None => assoc k d end.
Proof. exact dict_after_lookup. Qed.

(* M3: in a file, 1/yes/true/on denote True and 0/no/false/off denote False, in any case; anything else is refused. *)
Theorem C16_bool_from_file : forall s,
  (In (map lower s) true_words -> bool_of_string true s = Ok true) /\
  (In (map lower s) false_words -> bool_of_string true s = Ok false) /\
  (~ In (map lower s) true_words -> ~ In (map lower s) false_words -> bool_of_string true s = Crash ValueError).
Proof. exact bool_from_file. Qed.

Theorem C16_bool_option_from_file : forall o s (b : bool),
  o_cls (o_static o) = CBool -> In (map lower s) (if b then true_words else false_words) ->
  set_from_string true o s = Ok (set_value o (VBool b)).
Proof. exact bool_option_from_file. Qed.

(* the code before the repair (bool(string)) does not have this property: "no" reads as True *)
Theorem C16_bool_from_file_unrepaired_refuted : exists s, In (map lower s) false_words /\ bool_of_string false s = Ok true.
Proof. exact bool_from_file_refuted. Qed.

(* M4: reading back.  For every template (characters, %%, %(k)s, %(k)d in any order and number) the value read is the concatenation
   of what the pieces stand for, %(k)s standing for the CURRENT value of the option k (first section that has it). *)
Theorem C16_interp_template : forall L t, forallb wf_piece t = true -> interp L (pr_t t) IText [] = den_t L t.
Proof. exact interp_template. Qed.

Theorem C16_get_template : forall n cfg opts key o t,
  assoc key opts = Some o -> o_value o = VStr (pr_t t) -> forallb wf_piece t = true ->
  sget (S n) cfg opts key = (s <- den_t (wrapper n cfg) t ;; Ok (VStr s)).
Proof. exact get_template. Qed.

Theorem C16_wrapper_current : forall n cfg k so,
  first_with k cfg = Some so -> is_keyerror (sget (S n) cfg so k) = false -> wrapper (S n) cfg k = sget (S n) cfg so k.
Proof. exact wrapper_current. Qed.

Theorem C16_wrapper_missing : forall n cfg k, first_with k cfg = None -> wrapper (S n) cfg k = Crash KeyError.
Proof. exact wrapper_missing. Qed.

(* any string, once its percent signs are doubled, reads back as itself; other kinds of values read back as they were set *)
Theorem C16_interp_roundtrip : forall n cfg opts key o s,
  assoc key opts = Some o -> o_value o = VStr (escape_percent s) -> sget (S n) cfg opts key = Ok (VStr s).
Proof. exact get_roundtrip. Qed.

Theorem C16_get_plain : forall n cfg opts key o,
  assoc key opts = Some o -> (forall s, o_value o <> VStr s) -> (forall x l, o_value o <> VList (x :: l)) ->
  sget (S n) cfg opts key = Ok (o_value o).
Proof. exact get_plain. Qed.

(* histories: read-back is a function of the current table only (sget takes nothing else), so the M4 theorems hold after any
   sequence of reads, command lines and assignments; an assignment config[sec][key] = v changes exactly that option *)
Theorem C16_assign_current : forall cfg sec key v cfg',
  assign cfg sec key v = Ok cfg' ->
  (exists o, opt_at cfg sec key = Some o /\ opt_at cfg' sec key = Some (set_value o v)) /\
  (forall s' k', s' <> sec \/ k' <> key -> opt_at cfg' s' k' = opt_at cfg s' k') /\
  shape cfg' = shape cfg.
Proof. exact assign_current. Qed.

(* fuel: an answer other than OutOfFuel does not depend on the fuel *)
Theorem C16_fuel : forall n m cfg opts key r,
  sget n cfg opts key = r -> r <> OutOfFuel -> (n <= m)%nat -> sget m cfg opts key = r.
Proof. exact sget_fuel. Qed.

(* M6/M7: the command line.  A well-formed command line is read as the sequence of its occurrences; under a dest, the last
   --x / --no-x / --opt value decides and no occurrence leaves None (so that M1 falls back to files and defaults); list and
   dictionary options collect the argument lists of all their occurrences in order. *)
Theorem C16_parse_args_wf : forall tbl items d,
  wf_items tbl false items -> count_pos items = 1%nat -> foldR step_item items [] = Ok d ->
  parse_args tbl (argv_of items) = Ok d.
Proof. exact parse_args_wf. Qed.

Theorem C16_data_scalar : forall name items d d',
  foldR step_item items d = Ok d' ->
  (forall a args, In (a, args) (occs_for name items) -> scalar_act a = true) ->
  match last_opt (occs_for name items) with
  | Some (a, args) => exists v, occ_result a args = Ok v /\ assoc name d' = Some v
  | None => assoc name d' = assoc name d
  end.
Proof. exact data_scalar. Qed.

Theorem C16_data_append : forall name items d d',
  foldR step_item items d = Ok d' ->
  (forall a args, In (a, args) (occs_for name items) -> append_act a = true) ->
  (assoc name d = None \/ exists l, assoc name d = Some (DLists l)) ->
  match occs_for name items with
  | [] => assoc name d' = assoc name d
  | occs => assoc name d' = Some (DLists (lists_of (assoc name d) ++ map snd occs))
  end.
Proof. exact data_append. Qed.


(* M8: the whole of main() on the command line AS TYPED.  For a well-formed option table and a well-formed command line (option
   occurrences with their arguments and one positional), the hypotheses of M1/M2/M7 are discharged from wf_config: the files are
   those named by the --config / -c occurrences in order; under the dest of an option only that option's own actions are registered. *)
Theorem C16_parse_args_eq : forall tbl items,
  wf_items tbl false items -> count_pos items = 1%nat -> parse_args tbl (argv_of items) = foldR step_item items [].
Proof. exact parse_args_eq. Qed.

(* scalars: the last occurrence on the command line, else the last `key = s` line of the -c files in order, else the default *)
Theorem C16_main_scalar : forall fx cfg f items cfg' sec key opts o,
  wf_config cfg = true -> wf_items (all_actions cfg) false items -> count_pos items = 1%nat ->
  main fx cfg f (argv_of items) = Ok cfg' ->
  assoc sec cfg = Some opts -> assoc key opts = Some o -> scalar (o_cls (o_static o)) = true ->
  exists o', opt_at cfg' sec key = Some o' /\ o_static o' = o_static o /\
    Ok (o_value o') =
      match last_opt (occs_for (o_name (o_static o)) items) with
      | Some (a, args) => v <- occ_result a args ;; value_of_argval v
      | None =>
          match last_opt (strings_for key (section_items sec (map (fs_lookup f) (config_names items)))) with
          | Some s => conv fx (o_cls (o_static o)) s
          | None => Ok (o_value o)
          end
      end.
Proof. exact main_scalar. Qed.

Theorem C16_main_list : forall fx cfg f items cfg' sec key opts o,
  wf_config cfg = true -> wf_items (all_actions cfg) false items -> count_pos items = 1%nat ->
  main fx cfg f (argv_of items) = Ok cfg' ->
  assoc sec cfg = Some opts -> assoc key opts = Some o -> o_cls (o_static o) = CMulti ->
  exists o' l0 wss, opt_at cfg' sec key = Some o' /\ o_value o = VList l0 /\
    Forall2 (fun s ws => shlex_split s = Ok ws)
            (strings_for key (section_items sec (map (fs_lookup f) (config_names items)))) wss /\
    o_value o' = VList (l0 ++ concat wss ++ concat (map snd (occs_for (o_name (o_static o)) items))).
Proof. exact main_list. Qed.

Theorem C16_main_dict : forall fx cfg f items cfg' sec key opts o ek st,
  wf_config cfg = true -> wf_items (all_actions cfg) false items -> count_pos items = 1%nat ->
  main fx cfg f (argv_of items) = Ok cfg' ->
  assoc sec cfg = Some opts -> assoc key opts = Some o -> o_cls (o_static o) = CDict ek st ->
  exists o' fbs cbs kes, opt_at cfg' sec key = Some o' /\
    bindings_of opts key (section_items sec (map (fs_lookup f) (config_names items))) = Some fbs /\
    occs_bindings st (map snd (occs_for (o_name (o_static o)) items)) = Some cbs /\
    Forall2 (converted ek) (fbs ++ cbs) kes /\
    o_value o' = VDict (dict_after [] kes).
Proof. exact main_dict. Qed.

(* M9: list entries as written in a file: words separated by blanks, a word bare (non-empty, no blank/quote/backslash) or between
   single quotes (no single quote inside), read back as exactly those words -- the [wss] of M2/M8 in closed form *)
Theorem C16_shlex_roundtrip : forall l, forallb word_ok l = true -> shlex_split (pr_words l) = Ok (map snd l).
Proof. exact shlex_roundtrip. Qed.

(* M11: a dictionary line as written, `key = k1=v1, k2=v2, ...` (keys without "," "=", values without ",", no blanks at their
   ends), is read as exactly those bindings -- the [fbs] of M2/M8 in closed form for such lines *)
Theorem C16_dict_line_roundtrip : forall p r, forallb kv_ok (p :: r) = true -> entry_pairs (pr_dict (p :: r)) = Some (p :: r).
Proof. exact dict_line_roundtrip. Qed.

Example C16_dict_line_nonvacuous :
  forallb kv_ok [(lit "up-title", lit "A b"); (lit "next-url", lit "http://h/x?y=1")] = true /\
  pr_dict [(lit "up-title", lit "A b"); (lit "next-url", lit "http://h/x?y=1")] = lit "up-title=A b, next-url=http://h/x?y=1" /\
  entry_pairs (lit "a") = None.
Proof. vm_compute. repeat split; reflexivity. Qed.

(* M10: the decimal spelling of every integer (what %(k)s / %(k)d print) is read back by the Model of int() as that integer *)
Theorem C16_int_roundtrip : forall z, parse_int (str_of_Z z) = Ok z.
Proof. exact int_roundtrip. Qed.

(* defaults: no file, no option: every option keeps its declared default *)
Theorem C16_defaults : forall fx cfg f file, plain file = true -> main fx cfg f [file] = Ok cfg.
Proof. exact defaults. Qed.

(* M5: the option table regenerated from plasTeX/Config.py and the renderers' Config.py on this run is well formed
   (distinct sections, keys, option strings and dests; every default has the type of its option class), so that the
   theorems above apply to every shipped option without side conditions. *)
Theorem C16_shipped_wf : wf_config shipped_config = true.
Proof. vm_compute. reflexivity. Qed.

(* non-vacuity: a layering over the shipped table with two files and a command line; the premises of the theorems are met
   and the values are the layered ones; an interpolated value; a cyclic reference runs out of fuel; an ill-formed boolean raises *)
Definition ex_fs : fs :=
  [(lit "a.ini", FParsed [(lit "general", [(lit "xml", lit "no"); (lit "theme", lit "%(renderer)s-x%%"); (lit "plugins", lit "p0")]);
                          (lit "files", [(lit "split-level", lit "1")])]);
   (lit "b.ini", FParsed [(lit "files", [(lit "split-level", lit "3"); (lit "log", lit "On")]);
                          (lit "links", [(lit "next-url", lit "u"); (lit "links", lit "up-title=A, next-url = v")])])].
Definition ex_argv : list str :=
  [lit "-c"; lit "a.ini"; lit "--config"; lit "b.ini"; lit "--no-theme-extras"; lit "doc.tex"; lit "--plugins"; lit "p"; lit "q";
   lit "--link"; lit "up"; lit "B"].

Example C16_nonvacuous :
  wf_items (all_actions shipped_config) false
    [IOcc (lit "-c") (AAppend (lit "config") N1) [lit "a.ini"]; IOcc (lit "--no-theme-extras") (AFalse (lit "copy-theme-extras")) [];
     IPos (lit "doc.tex")] /\
  match main true shipped_config ex_fs ex_argv with
  | Ok cfg =>
      get get_fuel cfg (lit "general") (lit "xml") = Ok (VBool false) /\
      get get_fuel cfg (lit "files") (lit "split-level") = Ok (VInt 3) /\
      get get_fuel cfg (lit "files") (lit "log") = Ok (VBool true) /\
      get get_fuel cfg (lit "general") (lit "copy-theme-extras") = Ok (VBool false) /\
      get get_fuel cfg (lit "general") (lit "theme") = Ok (VStr (lit "HTML5-x%")) /\
      get get_fuel cfg (lit "general") (lit "plugins") = Ok (VList [lit "p0"; lit "p"; lit "q"]) /\
      get get_fuel cfg (lit "links") (lit "links") =
        Ok (VDict [(lit "next-url", EStr (lit "v")); (lit "up-title", EStr (lit "B"))]) /\
      get get_fuel cfg (lit "files") (lit "input-encoding") = Ok (VStr (lit "utf-8"))
  | _ => False
  end /\
  main true shipped_config [(lit "c.ini", FParsed [(lit "general", [(lit "xml", lit "maybe")])])] [lit "-c"; lit "c.ini"; lit "x.tex"]
    = Crash ValueError /\
  match main true shipped_config [] [lit "--theme"; lit "%(renderer)s"; lit "--renderer=%(theme)s"; lit "x.tex"] with
  | Ok cfg => get get_fuel cfg (lit "general") (lit "theme") = OutOfFuel
  | _ => False
  end.
Proof. vm_compute. repeat split; reflexivity. Qed.

(* non-vacuity of M8-M10: a well-formed command line over the shipped table on which main() succeeds and split-level comes
   from the command line, xml from the last file; a written list with a bare, a quoted and an empty word; a negative integer *)
Definition ex_items : list item :=
  [IOcc (lit "-c") (AAppend (lit "config") N1) [lit "a.ini"]; IOcc (lit "--config") (AAppend (lit "config") N1) [lit "b.ini"];
   IOcc (lit "--no-theme-extras") (AFalse (lit "copy-theme-extras")) []; IPos (lit "doc.tex");
   IOcc (lit "--split-level") (AStore (lit "split-level") TInt) [lit "5"]; IOcc (lit "--plugins") (AAppend (lit "plugins") NStar) [lit "p"; lit "q"]].

Example C16_main_nonvacuous :
  wf_config shipped_config = true /\ wf_items (all_actions shipped_config) false ex_items /\ count_pos ex_items = 1%nat /\
  config_names ex_items = [lit "a.ini"; lit "b.ini"] /\
  match main true shipped_config ex_fs (argv_of ex_items) with
  | Ok cfg =>
      get get_fuel cfg (lit "files") (lit "split-level") = Ok (VInt 5) /\
      get get_fuel cfg (lit "general") (lit "xml") = Ok (VBool false) /\
      get get_fuel cfg (lit "files") (lit "log") = Ok (VBool true) /\
      get get_fuel cfg (lit "general") (lit "plugins") = Ok (VList [lit "p0"; lit "p"; lit "q"])
  | _ => False
  end /\
  forallb word_ok [(false, lit "a"); (true, lit "b c"); (true, [])] = true /\
  pr_words [(false, lit "a"); (true, lit "b c"); (true, [])] = lit "a 'b c' ''" /\
  str_of_Z (-1203) = lit "-1203".
Proof. vm_compute. repeat split; reflexivity. Qed.
