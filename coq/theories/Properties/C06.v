(* C06 -- the document tree stays a consistent tree under any sequence of DOM edits.
   Statements only; every proof is [exact] of a lemma of Proofs/DomProofs.v.
   Model: Model/Dom.v (heap, one function per Node method, [step], [run]).
   Spec:  Model/DomSpec.v ([wf_b] the invariant, [adm_op] "detached or fragment arguments", [expected] the list model). *)
From Coq Require Import List ZArith Bool Arith.
Import ListNotations.
From Verif Require Import Val Dom DomSpec DomProofs.

(* M1: one operation with admissible arguments, applied to ANY consistent heap, gives a consistent heap; and when
   it raises, nothing at all has changed.  ([covered]: append, insert, insertBefore, insertAfter, replaceChild,
   removeChild, pop, item assignment, extend -- with element, text and fragment arguments --, normalize on an
   element/document, deep cloneNode, and the create* calls; everything but attribute assignment.) *)
Theorem C06_op_preserves_wf :
  forall (h : heap) (o : op), wf_b h = true -> adm_op h o = true -> covered o = true ->
    wf_b (fst (step h o)) = true /\ (forall k, snd (step h o) = RCrash k -> fst (step h o) = h).
Proof. exact op_preserves_wf. Qed.
Print Assumptions C06_op_preserves_wf.

(* M2: the child order equals the order the plain list model predicts, no other child list moves, and the
   operation raises exactly when list indexing / lookup does (and then changes nothing). *)
Theorem C06_op_refines_list :
  forall (h : heap) (o : op), wf_b h = true -> adm_op h o = true ->
    match expected h o, receiver_of o with
    | EList l, Some p => (exists r, snd (step h o) = ROk r) /\
                         forall m, children (fst (step h o)) m = if Nat.eqb m p then l else children h m
    | ERaise k, _ => step h o = (h, RCrash k)
    | _, _ => True
    end.
Proof. exact op_refines_list. Qed.
Print Assumptions C06_op_refines_list.

(* M3: every state reachable from the empty heap by an admissible history (each step admissible in the state it is
   applied to; any length) is a consistent tree, ... *)
Theorem C06_history_wf :
  forall ops : list op, forallb covered ops = true -> adm_hist [] ops = true -> wf_b (run [] ops) = true.
Proof. exact history_wf. Qed.
Print Assumptions C06_history_wf.

(* ... and every further admissible step from such a state follows the list model. *)
Theorem C06_history_refines :
  forall (ops : list op) (o : op), forallb covered ops = true -> adm_hist [] (ops ++ [o]) = true ->
    refines (run [] ops) o.
Proof. exact history_refines. Qed.
Print Assumptions C06_history_refines.

(* M6: a deep clone is a new root that is equal to the original as a tree (to every depth), consists of nodes that
   did not exist before, and leaves every existing node exactly as it was; the Model's recursion fuel suffices. *)
Theorem C06_clone_equal_disjoint :
  forall (h : heap) (c : nat), wf_b h = true -> adm_op h (OClone c) = true ->
    let h' := fst (step h (OClone c)) in
    exists n, snd (step h (OClone c)) = ROk (Some n) /\ n = length h /\ ext h h' /\
              (forall F, shape F h' n = shape F h c) /\ within (length h) h' n /\ up h' n = None.
Proof. exact clone_equal_disjoint. Qed.
Print Assumptions C06_clone_equal_disjoint.

(* M4 (part): previousSibling / nextSibling are the neighbours in the list of the element/document that lists the
   node, None for a node nobody lists; firstChild / lastChild are the ends of the child list.  Holds in every heap. *)
Theorem C06_siblings :
  forall (h : heap) (n : nat), listed_in_frag h n = false ->
    next_sibling h n = spec_next h n /\ prev_sibling h n = spec_prev h n.
Proof. exact siblings_spec. Qed.
Print Assumptions C06_siblings.

Theorem C06_first_last :
  forall (h : heap) (n : nat),
    first_child h n = nth_error (children h n) 0 /\ last_child h n = nth_error (children h n) (length (children h n) - 1).
Proof. exact first_last_spec. Qed.
Print Assumptions C06_first_last.

(* M4 (part): textContent is the concatenation of the text nodes below the node in document (preorder) order, and
   getElementsByTagName is the preorder listing of the elements of that name below the node; in every consistent
   heap (without attribute maps for the latter), and the Model's recursion fuel suffices. *)
Theorem C06_text_content :
  forall (h : heap) (n : nat), wf_b h = true -> n < length h ->
    text_content (S (length h)) h n = Some (concat (map (text_of h) (dfs (S (length h)) h n))).
Proof. exact text_content_spec_b. Qed.
Print Assumptions C06_text_content.

Theorem C06_elements_by_tag_name :
  forall (h : heap) (n : nat) (name : Z), wf_b h = true -> no_attrs h = true -> n < length h ->
    by_tag (S (length h)) h n name = Some (filter (fun x => has_name h x name) (tl (dfs (S (length h)) h n))).
Proof. exact by_tag_spec_b. Qed.
Print Assumptions C06_elements_by_tag_name.

(* M5: Node.normalize on the heap is [norm_tree] (merge every run of adjacent text children, recursively) on the tree:
   for every consistent heap and every element/document receiver the call returns, the tree below the receiver -- seen
   to any depth F that covers it -- is the normalized tree of before, no child list outside the receiver's subtree
   changes (M1 adds: the invariant is kept), and the check the extracted Model evaluates on every run is true. *)
Theorem C06_normalize_refines :
  forall (h : heap) (p : nat), wf_b h = true -> adm_op h (ONormalize p) = true ->
    let h' := fst (step h (ONormalize p)) in
    snd (step h (ONormalize p)) = ROk None /\
    (forall F, (forall d, deep h p d -> d < F) -> shape F h' p = norm_tree (shape F h p)) /\
    (forall m, m < length h -> ~ In p (chain (length h) h m) -> children h' m = children h m) /\
    normalize_conforms h h' p = true.
Proof. exact normalize_refines. Qed.
Print Assumptions C06_normalize_refines.

(* the fuel the Model gives itself ([S (length h)] in [step]) always suffices: never the out-of-fuel outcome *)
Theorem C06_normalize_fuel :
  forall (h : heap) (p : nat), wf_b h = true -> adm_op h (ONormalize p) = true ->
    snd (step h (ONormalize p)) <> RFuel.
Proof. exact normalize_fuel. Qed.
Print Assumptions C06_normalize_fuel.

(* lifted to histories: a normalize step after any admissible history *)
Theorem C06_history_normalize_refines :
  forall (ops : list op) (p : nat), forallb covered ops = true -> adm_hist [] (ops ++ [ONormalize p]) = true ->
    let h := run [] ops in let h' := fst (step h (ONormalize p)) in
    snd (step h (ONormalize p)) = ROk None /\
    (forall F, (forall d, deep h p d -> d < F) -> shape F h' p = norm_tree (shape F h p)) /\
    (forall m, m < length h -> ~ In p (chain (length h) h m) -> children h' m = children h m).
Proof. exact history_normalize_refines. Qed.
Print Assumptions C06_history_normalize_refines.

(* and what the normalized tree is good for: it has the same text, no two adjacent text children anywhere, and
   normalizing it again changes nothing *)
Theorem C06_norm_tree_text : forall t : tree, tree_text (norm_tree t) = tree_text t.
Proof. exact norm_tree_text. Qed.
Theorem C06_norm_tree_no_adjacent : forall t : tree, no_adjacent (norm_tree t) = true.
Proof. exact norm_tree_no_adjacent. Qed.
Theorem C06_norm_tree_idempotent : forall t : tree, norm_tree (norm_tree t) = norm_tree t.
Proof. exact norm_tree_idempotent. Qed.
Print Assumptions C06_norm_tree_idempotent.

(* M4 (compareDocumentPosition).  The full statement -- for two nodes of one tree of a consistent heap the answer is
   the position of [o] relative to [s] in document order (CONTAINS / CONTAINED_BY for ancestors, else PRECEDING /
   FOLLOWING by the lexicographic order of the child-index paths from the root) -- is REFUTED on the faithful Model by
   the known finding C06-compare-stale-parent-cycle: an admissible history after which the comparison of two children
   of one element does not return (replayed on the real code: same). *)
Theorem C06_compare_stale_cycle_refuted :
  exists (ops : list op) (s o : nat),
    forallb covered ops = true /\ adm_hist [] ops = true /\
    let h := run [] ops in
    wf_b h = true /\ root_of h s = root_of h o /\ spec_compare_dewey h s o = POS_FOLLOWING /\ compare_pos h s o = VHang.
Proof. exact compare_stale_cycle_refuted. Qed.
Print Assumptions C06_compare_stale_cycle_refuted.

(* It is proved under the explicit exclusion of that input class: the root of the tree carries no parentNode link
   (i.e. it was not removed from / cloned below some other node before).  This covers the shortcut through
   previousSibling / nextSibling, the two ancestor walks, and the nested loops over the two ancestor chains (fix-3). *)
Theorem C06_compare_partial :
  forall (h : heap) (s o : nat), wf_b h = true -> s < length h -> o < length h -> listed_in_frag h s = false ->
    root_of h s = root_of h o -> parent h (root_of h s) = None ->
    compare_pos h s o = VVal (spec_compare_dewey h s o).
Proof. exact compare_partial. Qed.
Print Assumptions C06_compare_partial.

(* the invariant, clause by clause (what [wf_b h = true] means) *)
Theorem C06_wf_meaning :
  forall h : heap, wf_b h = true <->
    (forall n c, In c (children h n) ->
       c < length h /\ is_frag h c = false /\ is_doc h c = false /\ creator h c = creator h n) /\
    (forall n c, is_tree h n = true -> In c (children h n) -> parent h c = Some n) /\
    (forall n, is_tree h n = true -> NoDup (children h n)) /\
    (forall n, n < length h -> owner h n = Some (creator h n) /\ is_doc h (creator h n) = true) /\
    (forall n, n < length h -> exists fuel, rooted fuel h n = true) /\
    (forall n, is_text h n = true -> children h n = []).
Proof. exact wf_meaning. Qed.
Print Assumptions C06_wf_meaning.

(* non-vacuity: an admissible history with a fragment of two items inserted at a negative position, a replaceChild,
   an item assignment with a negative index and a pop; its final state; a normalize that merges two text nodes, a deep clone; and inadmissible steps
   (a listed node as argument; a node into its own descendant) that are rejected by [adm_op] *)
Example C06_nonvacuous :
  let ops := [OCreateDoc; OCreateElem 0 0; OCreateElem 0 1; OCreateElem 0 2; OCreateText 0 [97%Z]; OCreateFrag 0;
              OAppend 1 2; OAppend 5 3; OAppend 5 4; OInsert 1 (-1) 5;
              OCreateFrag 0; OCreateElem 0 0; OAppend 6 7; OReplaceChild 1 6 3;
              OCreateElem 0 1; OSetItem 1 (-1) 8; OPop 1 0;
              OCreateText 0 [98%Z]; OInsert 1 1 9; ONormalize 1; OClone 1] in
  forallb covered ops = true /\ adm_hist [] ops = true /\ wf_b (run [] ops) = true /\ children (run [] ops) 1 = [10; 8] /\
  kind_of (run [] ops) 10 = Some (KText [97%Z; 98%Z]) /\ children (run [] ops) 11 = [12; 13] /\
  adm_op (run [] ops) (OAppend 2 8) = false /\ adm_op (run [] ops) (OAppend 8 1) = false /\
  expected (run [] ops) (OSetItem 1 5 2) = ERaise E_INDEX.
Proof. vm_compute. repeat split. Qed.
