(* C20 — Cross-document label data survives a round trip and never blocks processing.
   This file contains only statements closed by [exact] and their assumptions.

   Everywhere below
     new_raises, setattr_raises   stand for the class table of a Context (can a class be instantiated, is an attribute
                                  of it a read-only property) — arbitrary;
     bytes, pickle, unpickle      stand for the pickle module — arbitrary, [unpickle b = None] = "pickle.load raises";
                                  the only hypothesis ever made is  forall d, unpickle (pickle d) = Some d.
   [persist _ _ true ...] is Context.persist with the proposed repair, [persist _ _ false ...] the unchanged tree. *)
From Coq Require Import List ZArith Bool.
Import ListNotations.
From Verif Require Import Val Persist PersistProofs.

(* M1 round trip: for every set of labels (a Python dict: keys pairwise different) of well-formed nodes and every renderer
   name, saving into a fresh file and restoring under the same renderer yields the same labels, in the same order, and
   every restored node answers the six persisted attributes (macroName, ref = number, title, captionName, id, url = target)
   exactly as the saved node did.  Holds for the unchanged and the repaired persist alike. *)
Theorem C20_roundtrip :
  forall (new_raises : str -> bool) (setattr_raises : str -> str -> bool)
         (bytes : Type) (pickle : pyobj -> bytes) (unpickle : bytes -> option pyobj),
    (forall d, unpickle (pickle d) = Some d) ->
    forall (fixed : bool) (PL : list (str * snode)) (r : str) (wou : bool),
      NoDup (map fst PL) -> Forall (wf_snode new_raises setattr_raises) (map snd PL) ->
      exists b T,
        persist pickle unpickle fixed PL r Missing true = PSaved (Bytes b) /\
        restore new_raises setattr_raises unpickle (Bytes b) r [] wou = RDone T wou /\
        Forall2 (fun kn kn' => fst kn' = PStr (fst kn) /\
                               forall name, In name refAttributes -> rget (snd kn') name = sget (snd kn) name) PL T.
Proof. intros nr sr bytes pickle unpickle Hp fixed PL r wou Hnd Hwf.
       exact (roundtrip_proof nr sr pickle unpickle Hp fixed PL r wou Hnd Hwf). Qed.
Print Assumptions C20_roundtrip.

(* M2 separately per renderer (a): a file saved under r restores to nothing under any other renderer name *)
Theorem C20_other_renderer_sees_nothing :
  forall (new_raises : str -> bool) (setattr_raises : str -> str -> bool)
         (bytes : Type) (pickle : pyobj -> bytes) (unpickle : bytes -> option pyobj),
    (forall d, unpickle (pickle d) = Some d) ->
    forall (fixed : bool) (PL : list (str * snode)) (r r' : str) (L : labels) (wou : bool), r' <> r ->
      exists b, persist pickle unpickle fixed PL r Missing true = PSaved (Bytes b) /\
                restore new_raises setattr_raises unpickle (Bytes b) r' L wou = RDone L wou.
Proof. intros nr sr bytes pickle unpickle Hp fixed PL r r' L wou Hne.
       exact (other_renderer_sees_nothing_proof nr sr pickle unpickle Hp fixed PL r r' L wou Hne). Qed.
Print Assumptions C20_other_renderer_sees_nothing.

(* M2 (b): two renderers saving into the same file one after the other: each restores exactly its own labels *)
Theorem C20_two_renderers :
  forall (new_raises : str -> bool) (setattr_raises : str -> str -> bool)
         (bytes : Type) (pickle : pyobj -> bytes) (unpickle : bytes -> option pyobj),
    (forall d, unpickle (pickle d) = Some d) ->
    forall (PL1 PL2 : list (str * snode)) (r1 r2 : str) (wou : bool), r1 <> r2 ->
      NoDup (map fst PL1) -> Forall (wf_snode new_raises setattr_raises) (map snd PL1) ->
      NoDup (map fst PL2) -> Forall (wf_snode new_raises setattr_raises) (map snd PL2) ->
      exists b1 b2 T1 T2,
        persist pickle unpickle true PL1 r1 Missing true = PSaved (Bytes b1) /\
        persist pickle unpickle true PL2 r2 (Bytes b1) true = PSaved (Bytes b2) /\
        restore new_raises setattr_raises unpickle (Bytes b2) r1 [] wou = RDone T1 wou /\ Forall2 same_label PL1 T1 /\
        restore new_raises setattr_raises unpickle (Bytes b2) r2 [] wou = RDone T2 wou /\ Forall2 same_label PL2 T2.
Proof. intros nr sr bytes pickle unpickle Hp PL1 PL2 r1 r2 wou Hne H1 H2 H3 H4.
       exact (two_renderers_proof nr sr pickle unpickle Hp PL1 PL2 r1 r2 wou Hne H1 H2 H3 H4). Qed.
Print Assumptions C20_two_renderers.

(* M3 restore is total: for EVERY file (missing, or any bytes whatever — no hypothesis on unpickle, so every truncation,
   every bit pattern, every value the unpickler may return or any failure of it), every renderer name, every class table
   and every prior label table, restore does not raise; no label that was present is lost; a label whose key the file's
   section for this renderer does not mention is untouched; when the file contributes no section (does not load, is not a
   dictionary, has no such renderer, or the renderer's entry is not a dictionary) the label table is exactly unchanged;
   the only other effect is that warnOnUnrecognized may be left False. *)
Theorem C20_restore_total :
  forall (new_raises : str -> bool) (setattr_raises : str -> str -> bool)
         (bytes : Type) (unpickle : bytes -> option pyobj)
         (f : @file bytes) (r : str) (L : labels) (wou : bool),
    exists L' wou',
      restore new_raises setattr_raises unpickle f r L wou = RDone L' wou' /\
      incl (map fst L) (map fst L') /\
      (forall k n, In (k, n) L ->
                   (forall k', In k' (map fst (old_entries unpickle f r)) -> key_eqb k' k = false) -> In (k, n) L') /\
      (old_entries unpickle f r = [] -> L' = L) /\
      (wou' = wou \/ wou' = false).
Proof. intros nr sr bytes unpickle f r L wou. exact (restore_total_proof nr sr unpickle f r L wou). Qed.
Print Assumptions C20_restore_total.

(* M4 persist is total (with the repair): for EVERY previous file, persist does not raise and writes a file that loads
   to a dictionary whose section for this renderer is a dictionary containing every current label with its persisted
   attributes; entries of the old section under other keys and the sections of other renderers are kept as they were. *)
Theorem C20_persist_total :
  forall (bytes : Type) (pickle : pyobj -> bytes) (unpickle : bytes -> option pyobj),
    (forall d, unpickle (pickle d) = Some d) ->
    forall (PL : list (str * snode)) (r : str) (f : @file bytes),
      exists b d sec,
        persist pickle unpickle true PL r f true = PSaved (Bytes b) /\
        unpickle b = Some (PDict d) /\ dict_get r d = Some (PDict sec) /\
        (NoDup (map fst PL) -> forall key n, In (key, n) PL -> dict_get key sec = Some (macro_persist n)) /\
        (forall key, ~ In key (map fst PL) -> dict_get key sec = dict_get key (old_entries unpickle f r)) /\
        (forall r', r' <> r -> dict_get r' d = dict_get r' (old_dict unpickle f)).
Proof. intros bytes pickle unpickle Hp PL r f. exact (persist_total_proof pickle unpickle Hp PL r f). Qed.
Print Assumptions C20_persist_total.

(* ... the unchanged tree refutes it: a loadable file whose entry for the renderer is not a dictionary makes persist raise
   (reachable by one flipped bit: {'HTML5': {}} -> {'HTML5': []}; replayed on the real code by the check) *)
Theorem C20_persist_orig_refuted :
  forall (bytes : Type) (pickle : pyobj -> bytes) (unpickle : bytes -> option pyobj),
    (forall d, unpickle (pickle d) = Some d) ->
    exists PL r f, persist pickle unpickle false PL r f true = PCrash EType.
Proof. intros bytes pickle unpickle Hp. exact (persist_orig_refuted_proof pickle unpickle Hp). Qed.
Print Assumptions C20_persist_orig_refuted.

(* ... and agrees with the repaired one on every file whose entry for the renderer, if there is one, is a dictionary *)
Theorem C20_persist_orig_partial :
  forall (bytes : Type) (pickle : pyobj -> bytes) (unpickle : bytes -> option pyobj)
         (PL : list (str * snode)) (r : str) (f : @file bytes) (io : bool),
    (forall b kv v, f = Bytes b -> unpickle b = Some (PDict kv) -> dict_get r kv = Some v -> exists items, v = PDict items) ->
    persist pickle unpickle false PL r f io = persist pickle unpickle true PL r f io.
Proof. intros bytes pickle unpickle PL r f io H. exact (persist_orig_partial_proof pickle unpickle PL r f io H). Qed.
Print Assumptions C20_persist_orig_partial.

(* a write that fails (read-only directory) does not raise either *)
Theorem C20_persist_io_failure :
  forall (bytes : Type) (pickle : pyobj -> bytes) (unpickle : bytes -> option pyobj)
         (PL : list (str * snode)) (r : str) (f : @file bytes),
    persist pickle unpickle true PL r f false = PSaved f \/ persist pickle unpickle true PL r f false = PSaved Missing.
Proof. intros bytes pickle unpickle PL r f. exact (persist_io_failure_proof pickle unpickle PL r f). Qed.

(* "the next save produces a complete, loadable file again": whatever the damaged file was, provided it contributes no
   entries of its own for this renderer (it does not load — every truncation —, is not a dictionary, lacks the renderer,
   or the renderer's entry is not a dictionary or is empty), the next save restores to exactly the current labels *)
Theorem C20_resave_complete :
  forall (new_raises : str -> bool) (setattr_raises : str -> str -> bool)
         (bytes : Type) (pickle : pyobj -> bytes) (unpickle : bytes -> option pyobj),
    (forall d, unpickle (pickle d) = Some d) ->
    forall (PL : list (str * snode)) (r : str) (f : @file bytes) (wou : bool),
      old_entries unpickle f r = [] -> NoDup (map fst PL) -> Forall (wf_snode new_raises setattr_raises) (map snd PL) ->
      exists b T, persist pickle unpickle true PL r f true = PSaved (Bytes b) /\
                  restore new_raises setattr_raises unpickle (Bytes b) r [] wou = RDone T wou /\ Forall2 same_label PL T.
Proof. intros nr sr bytes pickle unpickle Hp PL r f wou Ho Hnd Hwf.
       exact (resave_complete_proof nr sr pickle unpickle Hp PL r f wou Ho Hnd Hwf). Qed.
Print Assumptions C20_resave_complete.

(* observation (not reachable by truncation or a single flipped bit, see the REPORT): without that proviso the statement is
   false — a surviving entry that is not a dictionary is kept by persist and stops the restore loop before the new labels *)
Theorem C20_resave_stale_entry_refuted :
  forall (new_raises : str -> bool) (setattr_raises : str -> str -> bool)
         (bytes : Type) (pickle : pyobj -> bytes) (unpickle : bytes -> option pyobj),
    (forall d, unpickle (pickle d) = Some d) ->
    exists PL r f b, PL <> [] /\ persist pickle unpickle true PL r f true = PSaved (Bytes b) /\
                     restore new_raises setattr_raises unpickle (Bytes b) r [] true = RDone [] false.
Proof. intros nr sr bytes pickle unpickle Hp. exact (resave_stale_entry_refuted_proof nr sr pickle unpickle Hp). Qed.

(* sequences: whatever is put into the working directory between runs (any files, any contents), over any number of runs of
   any documents under any renderer names, no run (restore of the other documents' files, then save of the own file) raises *)
Theorem C20_runs_never_crash :
  forall (new_raises : str -> bool) (setattr_raises : str -> str -> bool)
         (bytes : Type) (pickle : pyobj -> bytes) (unpickle : bytes -> option pyobj)
         (ops : list (@op bytes)) (F : @fs bytes),
    existsb (is_crash (bytes := bytes)) (run_ops new_raises setattr_raises pickle unpickle true ops F) = false.
Proof. intros nr sr bytes pickle unpickle ops F. exact (runs_never_crash_proof nr sr pickle unpickle ops F). Qed.
Print Assumptions C20_runs_never_crash.

(* ... and every run leaves its own file loadable and holding all of its labels *)
Theorem C20_run_leaves_complete_file :
  forall (new_raises : str -> bool) (setattr_raises : str -> str -> bool)
         (bytes : Type) (pickle : pyobj -> bytes) (unpickle : bytes -> option pyobj),
    (forall d, unpickle (pickle d) = Some d) ->
    forall (job r : str) (PL : list (str * snode)) (F : @fs bytes),
      exists L wou b d sec F',
        step new_raises setattr_raises pickle unpickle true (ORun job r PL) F = (ObsRun L wou (Bytes b), F') /\
        fs_get job F' = Bytes b /\ unpickle b = Some (PDict d) /\ dict_get r d = Some (PDict sec) /\
        (NoDup (map fst PL) -> forall key n, In (key, n) PL -> dict_get key sec = Some (macro_persist n)).
Proof. intros nr sr bytes pickle unpickle Hp job r PL F.
       exact (run_leaves_complete_file_proof nr sr pickle unpickle Hp job r PL F). Qed.
Print Assumptions C20_run_leaves_complete_file.

(* non-vacuity: the hypotheses are met by the executable instance (bytes = the oracle's answer) and by a non-trivial label
   set; the round trip really returns number, title and target; the one-bit-flip file crashes the unchanged persist only *)
Example C20_nonvacuous :
  let S_sec : str := [115; 101; 99]%Z in let S_1 : str := [49]%Z in let S_T : str := [84]%Z in let S_u : str := [117; 35; 115]%Z in let S_H : str := [72]%Z in
  let n : snode := [(s_ref, PStr S_1); (s_title, PStr S_T); (s_id, PStr S_sec); (s_url, PStr S_u)] in
  let nr := fun _ : str => false in let sr := fun _ _ : str => false in
  (forall d, xunpickle (xpickle d) = Some d) /\
  wf_snode nr sr n /\
  (exists T, run_ops nr sr xpickle xunpickle true [ORun [97%Z] S_H [(S_sec, n)]; ORestore [97%Z] S_H []] []
             = [ObsRun [] true (Bytes (Some (PDict [(PStr S_H, PDict [(PStr S_sec, macro_persist n)])]))); ObsRestore [(PStr S_sec, T)] true]
             /\ rget T s_ref = PStr S_1 /\ rget T s_title = PStr S_T /\ rget T s_url = PStr S_u /\ rget T s_id = PStr S_sec) /\
  persist xpickle xunpickle false [(S_sec, n)] S_H (Bytes (Some (PDict [(PStr S_H, PList [])]))) true = PCrash EType /\
  (exists b, persist xpickle xunpickle true [(S_sec, n)] S_H (Bytes (Some (PDict [(PStr S_H, PList [])]))) true = PSaved (Bytes b)).
Proof.
  cbv zeta. split; [reflexivity|]. split.
  - unfold wf_snode. repeat split; try reflexivity. 
  - split; [eexists; vm_compute; repeat split|]. split; [reflexivity | eexists; reflexivity].
Qed.
