(* C01 — Tokenization follows TeX's lexical rules for every input and catcode table.
   Only statements closed by [exact]; the Spec is Spec/Lexer.v, the Model is Model/Tokenizer.v,
   the tables are regenerated from /repo on every run (Gen/Catcodes.v). *)
From Coq Require Import List NArith Bool Arith.
Import ListNotations.
From Verif Require Import Val Catcodes Tokenizer Lexer TokenizerProofs LexItems LexItemsProofs.
Local Open Scope N_scope.

(* M1 + M2: for every input, every starting table and every schedule of category-code changes made between
   pulls, tokenizing terminates within the fuel the Model gives itself and never raises. *)
Theorem C01_terminates_never_raises :
  forall (chg : nat -> table -> table) (t : table) (l : list N), exists toks, tokenize_sched chg t l = RToks toks.
Proof. exact tokenize_sched_total. Qed.

(* M5: under any fixed table the produced stream is exactly the one the lexical rules of Spec/Lexer.v prescribe,
   and those rules prescribe exactly one stream. *)
Theorem C01_tokenize_is_lex :
  forall (t : table) (l : list N), exists toks, tokenize t l = RToks toks /\ Lex t (init_state l) toks.
Proof. exact tokenize_lex. Qed.
Theorem C01_lex_is_tokenize :
  forall (t : table) (l : list N) (toks : list tok), Lex t (init_state l) toks -> tokenize t l = RToks toks.
Proof. exact lex_tokenize. Qed.
(* ... also one turn at a time, which covers tables that change between pulls: every turn taken under the table then
   in force is the turn the rules prescribe for that table (push-back included: the pushed-back character is the head of [inp]). *)
Theorem C01_step_is_lexstep :
  forall (t : table) (s : tst) (r : sres), LexStep t s r <-> r = step t s.
Proof. intros t s r. split; [exact (lex_step_functional t s r) | intros ->; exact (step_lex t s)]. Qed.
Theorem C01_decode : forall (t : table) (l : list N) (r : cres), Dec t l r <-> next_char t l = r.
Proof. exact dec_iff. Qed.

(* M3 + M4: every produced token carries the category its class denotes: a single-character token that is neither a
   control sequence nor a space carries the category the table in force gives its character. *)
Theorem C01_token_category_sound :
  forall (t : table) (s : tst) (tk : tok) (s' : tst), step t s = Emit tk s' -> char_token_sound t tk.
Proof. exact step_token_sound. Qed.
Theorem C01_token_classes_registered :
  forall k c, In k [1;2;3;4;6;7;8;11;12] -> class_tok k c = Some (Tok k [c]).
Proof. exact class_tok_defined. Qed.

(* M7: \catcode algebra, for every table of 16 classes *)
Theorem C01_catcode_assign_same :
  forall (t : table) (c : N) (k : cat), length t = 16%nat -> In k gen_chain -> which_code (set_catcode t c k) c = k.
Proof. exact set_catcode_same. Qed.
Theorem C01_catcode_assign_other_code : forall (t : table) (c : N), which_code (set_catcode t c CC_OTHER) c = CC_OTHER.
Proof. exact set_catcode_other_code. Qed.
Theorem C01_catcode_assign_frame :
  forall (t : table) (c : N) (k : cat) (d : N), d <> c -> which_code (set_catcode t c k) d = which_code t d.
Proof. exact set_catcode_other_char. Qed.
Theorem C01_catcode_assign_length : forall t c k, length (set_catcode t c k) = length t.
Proof. exact set_catcode_length. Qed.

(* M7': \catcode assignments under grouping.  An assignment changes the table of the innermost open group only, and leaving a
   group brings back exactly the table in force when it was entered, whatever (balanced) assignments and inner groups came in
   between -- so text after the group is tokenized under the outer table again. *)
Theorem C01_group_restores_table :
  forall (ops : list (N * N)) (stack : list table) (cur : table) (c c' : N) (rest : list (N * N)), bal 0 ops = true ->
    apply_gops stack cur ((c, 16) :: ops ++ (c', 17) :: rest) = apply_gops stack cur rest.
Proof. exact group_restores_table. Qed.
Theorem C01_group_assign_innermost :
  forall (stack : list table) (cur : table) (c k : N) (rest : list (N * N)), k <? 16 = true ->
    apply_gops stack cur ((c, k) :: rest) = apply_gops stack (set_catcode cur c k) rest.
Proof. exact gops_assign_innermost. Qed.
Example C01_group_example :   (* {\catcode`\@=11 {\catcode`\%=12 } ... }: % is a comment character again after the inner group, @ a letter until the outer one ends *)
  which_code (apply_gops [] default_table [(0, 16); (64, 11); (0, 16); (37, 12); (0, 17)]) 37 = 14 /\
  which_code (apply_gops [] default_table [(0, 16); (64, 11); (0, 16); (37, 12); (0, 17)]) 64 = 11 /\
  which_code (apply_gops [] default_table [(0, 16); (64, 11); (0, 16); (37, 12); (0, 17); (0, 17)]) 64 = 12 /\
  bal 0 [(64, 11); (0, 16); (37, 12); (0, 17)] = true.
Proof. vm_compute. repeat split; reflexivity. Qed.

(* M8: under the verbatim table every character is one token of its own (used by C11) *)
Theorem C01_verbatim_identity :
  forall l, tokenize verbatim_table l = RToks (map (fun c => Tok (which_code verbatim_table c) [c]) l).
Proof. intros l. exact (tokenize_only_letters verbatim_table l verbatim_only_letters). Qed.

(* M6 (readable corollary): for every category table and every text built from lexical items -- significant characters,
   runs of blanks, newlines, control words (followed by a non-letter), control symbols, comment lines, active characters --
   the token stream is the one spelled out by [lex_items]: one token per significant character with the character's
   category; a run of blanks gives one space token in the middle of a line and nothing after a control word, after a
   space or at a line start; a newline gives a space, nothing, or one paragraph token (never two in a row); a comment is
   removed through its newline and the next line starts afresh. *)
Theorem C01_items_tokenize :
  forall (t : table) (l : list item), items_ok t l = true -> tokenize t (print_items l) = RToks (lex_items t SN None l).
Proof. exact items_tokenize. Qed.
Example C01_items_example :   (* \foo  ab % c<nl><nl><nl>x{ ~   under the default table *)
  let l := [ICtrlWord 92 102 [111; 111]; IBlanks 32 [32]; IChar 97; IChar 98; IBlanks 32 []; IComment 37 [32; 99]; IEol; IEol;
            IChar 120; IChar 123; IBlanks 32 []; IActive 126] in
  items_ok default_table l = true /\ lex_items default_table SN None l =
    [Tok 0 [102; 111; 111]; Tok 11 [97]; Tok 11 [98]; Tok 10 [32]; Tok 0 [112; 97; 114]; Tok 11 [120]; Tok 1 [123]; Tok 10 [32];
     Tok 0 [97; 99; 116; 105; 118; 101; 58; 58; 126]].
Proof. vm_compute. split; reflexivity. Qed.

(* regenerated-table obligations *)
Theorem C01_gen_chain_complete :
  forallb (fun k => existsb (N.eqb k) gen_chain) [0;1;2;3;4;5;6;7;8;9;10;11;13;14;15] = true.
Proof. exact gen_chain_complete. Qed.
Theorem C01_gen_default_classes_disjoint :
  forallb (fun c => (length (filter (fun l => mem c l) gen_default_table) <=? 1)%nat) (concat gen_default_table) = true.
Proof. exact gen_default_disjoint. Qed.

(* non-vacuity: a^^M\foo  %c<nl><nl>b^^  under the default table *)
Example C01_example :
  tokenize default_table [97; 94; 94; 77; 92; 102; 111; 111; 32; 32; 37; 99; 10; 10; 98; 94; 94]
  = RToks [Tok 11 [97]; Tok 10 [32]; Tok 0 [102; 111; 111]; Tok 0 [112; 97; 114]; Tok 11 [98]; Tok 7 [94]; Tok 7 [94]].
Proof. vm_compute. reflexivity. Qed.
