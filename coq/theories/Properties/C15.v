(* C15 -- The filename generator yields unique, clean names in template order.
   This file contains only statements closed by [exact] and their assumptions.
   Model: Model/Filenames.v (plasTeX/Filenames.py after notes/C15/fix-1.diff, fix-2.diff and fix-3.diff; the switches
   legacy_reset / legacy_words / legacy_passes reproduce the code before the repairs).  Spec definitions used below
   (passed_over, chosen, wild_outcome, static_outcome, follows, stage, words_of, charsub_spec, the template
   grammar seg / wf_name / pr_int / pr_surf, spec_expand, var_value) are in Proofs/FilenamesProofs.v. *)
From Coq Require Import List ZArith NArith Bool.
Import ListNotations.
From Verif Require Import Val Filenames FilenamesProofs FilenamesSpec FilenamesSpelling.
Local Open Scope Z_scope.

(* M1: for every configuration, every generator state (hence every template, parsed or not, and every reserved set)
   and every history of requests: the issued names are pairwise distinct, none of them is one of the names reserved or
   issued before the history started, and the generator's own record is exactly "old names ++ issued names". *)
Theorem C15_never_twice :
  forall (c : cfg) (reqs : list (list (str * str))) (s : st) (out : list (res * ns)) (s' : st),
    run c s reqs = (out, s') ->
    NoDup (names_of out) /\ (forall n, In n (names_of out) -> ~ In n (inval s)) /\ inval s' = inval s ++ names_of out.
Proof. exact never_twice. Qed.
Print Assumptions C15_never_twice.

(* M6: every request, in every state, ends -- with a fresh name, or with an exception that finishes the generator, or (only
   when the generator is already finished) with None.  It never returns a taken name and never runs out of fuel. *)
Theorem C15_request_terminates_or_errors :
  forall (c : cfg) (s : st) (b : list (str * str)) (r : res) (s' : st),
    request c s b = (r, s') ->
    match r with
    | RName name => ~ In name (inval s) /\ inval s' = inval s ++ [name] /\ ph s <> PDead /\ ph s' <> PDead
    | RNone => ph s = PDead /\ ph s' = PDead /\ inval s' = inval s
    | RRaise _ => ph s <> PDead /\ ph s' = PDead /\ inval s' = inval s
    | RFuel => False
    end.
Proof. exact request_terminates_or_errors. Qed.
Print Assumptions C15_request_terminates_or_errors.

(* M6, the bound: 101 iterations of "while 1" always suffice, whatever the pass counter; more fuel changes nothing *)
Theorem C15_pass_bound :
  forall c wild g num vars inval passes fuel,
    (101 <= fuel)%nat ->
    wild_loop fuel c wild g num vars inval passes = wild_loop 101 c wild g num vars inval passes.
Proof. exact pass_bound. Qed.
Print Assumptions C15_pass_bound.

(* M2 (history): the generator follows its template: static stage, then wildcard stage, then finished -- never back;
   a name issued in the static stage consumes a non-empty prefix of what was left of the static list (so static
   templates are used in order, each at most once); g and the wildcard never change. *)
Theorem C15_stages_in_order :
  forall c s b r s' static wild,
    follows static wild (ph s) -> request c s b = (r, s') ->
    follows static wild (ph s') /\ (stage (ph s) <= stage (ph s'))%nat /\
    (forall rest' w' g' n', ph s' = PStatic rest' w' g' n' ->
       exists rest, (match ph s with PFresh _ => rest = static | PStatic r0 _ _ _ => rest = r0 | _ => False end) /\
                    exists pre item, rest = pre ++ item :: rest') /\
    (forall g, (match ph s with PStatic _ _ g0 _ => g0 = g | PWild _ g0 _ _ => g0 = g | _ => False end) ->
               match ph s' with PStatic _ _ g1 _ => g1 = g | PWild _ g1 _ _ => g1 = g | PDead => True | PFresh _ => False end).
Proof. exact stages_in_order. Qed.
Print Assumptions C15_stages_in_order.

Theorem C15_follows_run :
  forall c reqs s out s' static wild,
    follows static wild (ph s) -> run c s reqs = (out, s') -> follows static wild (ph s') /\ (stage (ph s) <= stage (ph s'))%nat.
Proof. exact follows_run. Qed.
Print Assumptions C15_follows_run.

(* M2 (request): in the static stage the name issued is the FIRST remaining static template that is bound and fresh; the
   templates before it were passed over (unbound, or taken) and are dropped; when none is left the wildcard decides.
   M4: the running number starts at 1 (first request) and advances exactly as [passed_over] / [chosen] say: by one for every
   numbered candidate that is issued or skipped as taken, not at all for unbound candidates. *)
Theorem C15_static_first_in_order :
  forall c s b rest wild g num r s',
    legacy_reset c = false -> ph s = PStatic rest wild g num -> lookup k_num (update (vars s) b) = None ->
    request c s b = (r, s') -> static_outcome c rest wild g num (update (vars s) b) (inval s) r s'.
Proof. exact static_request. Qed.
Print Assumptions C15_static_first_in_order.

Theorem C15_first_request :
  forall c s b files static wild r s',
    legacy_reset c = false -> ph s = PFresh files -> split_files files [] = (static, wild) ->
    lookup k_num (update (vars s) b) = None -> request c s b = (r, s') ->
    static_outcome c static wild (update (vars s) b) 1 (update (vars s) b) (inval s) r s'.
Proof. exact first_request. Qed.
Print Assumptions C15_first_request.

(* M3: in the wildcard stage the name issued is the first candidate -- going through the alternatives in order, pass after
   pass -- whose variables are all bound in the request's namespace and whose name is fresh; every candidate before it was
   unbound or taken.  An error is reported only after every candidate of the passes made was passed over and the pass counter
   exceeded 100 (or a candidate is malformed). *)
Theorem C15_first_bound_alternative :
  forall c s b wild g num passes r s',
    legacy_reset c = false -> ph s = PWild wild g num passes -> lookup k_num (update (vars s) b) = None ->
    request c s b = (r, s') -> wild_outcome c wild g num (update (vars s) b) (inval s) passes r s'.
Proof. exact wildcard_request. Qed.
Print Assumptions C15_first_bound_alternative.

(* ... and conversely a bound, fresh alternative reached in the first pass IS issued (no error, no later alternative) *)
Theorem C15_first_bound_alternative_complete :
  forall c s b wild g num passes pre item post n1 name n',
    legacy_reset c = false -> ph s = PWild wild g num passes -> lookup k_num (update (vars s) b) = None ->
    wild = pre ++ item :: post -> passed_over c (update (vars s) b) (inval s) num pre n1 ->
    chosen c (update (vars s) b) (inval s) n1 item name n' ->
    request c s b = (RName name, {| ph := PWild wild g n' (if legacy_passes c then passes + 1 else 0)%N; vars := g; inval := inval s ++ [name] |}).
Proof. exact wildcard_request_complete. Qed.
Print Assumptions C15_first_bound_alternative_complete.

(* the number never decreases and grows by at most one per candidate passed over *)
Theorem C15_num_monotone :
  forall c, legacy_reset c = false ->
    forall v taken l n n', passed_over c v taken n l n' -> (n <= n' <= n + N.of_nat (length l))%N.
Proof. exact passed_over_mono. Qed.
Print Assumptions C15_num_monotone.

(* M4: $num(w) = the decimal digits of the number (no leading zero) padded on the left with zeros to w digits *)
Theorem C15_num_format :
  forall format n,
    let w := N.to_nat (int_of format) in
    fmt_num format n = repeat 48 (w - length (dec n)) ++ dec n /\
    length (fmt_num format n) = Nat.max w (length (dec n)) /\
    int_of (fmt_num format n) = n /\
    Forall (fun ch => is_digit ch = true) (fmt_num format n) /\
    ((0 < n)%N -> hd 48 (dec n) <> 48).
Proof. exact fmt_num_spec. Qed.
Print Assumptions C15_num_format.

(* M5: the text of a candidate.  For a name of the documented grammar (literal runs and variables ${x} / ${x.width}, as
   parseFilenames leaves them) in which every variable occurs once, and a caller that does not bind "num":
   unbound iff one of its variables is unbound; otherwise literals ++ values, where a value is the bound string with forbidden
   characters replaced and then cut to its first n words, and $num is the padded running number; numbered iff it contains $num. *)
Theorem C15_candidate_text :
  forall c num vars name,
    legacy_words c = false -> wf_name name -> NoDup (map fst (keys_of name)) -> lookup k_num vars = None ->
    expand c vars num (pr_int name) =
      match spec_expand c num vars name with Some s => EOk s (numbered name) | None => EKeyError end.
Proof. intros c num vars name H. exact (expand_spec c H num vars name). Qed.
Print Assumptions C15_candidate_text.

(* M5 words: a value made of the words ws separated by white space is cut to its first n words joined by single blanks *)
Theorem C15_words_limit :
  forall format v ws, words_of v ws ->
    limit_words false format v = Some (join_sp (firstn (N.to_nat (int_of format)) ws)).
Proof. exact words_limit. Qed.
Print Assumptions C15_words_limit.

(* M5 forbidden characters: when the substitute contains no forbidden character, the sequential str.replace loop is the
   simultaneous replacement, and no forbidden character survives in the value *)
Theorem C15_charsub :
  forall bad sub v, (forall ch, In ch sub -> ~ In ch bad) ->
    charsub_val (Some (bad, sub)) v = charsub_spec bad sub v /\
    (forall ch, In ch (charsub_val (Some (bad, sub)) v) -> ~ In ch bad).
Proof.
  intros bad sub v H. split; [exact (charsub_simultaneous bad sub v H) | intros ch; exact (charsub_clean bad sub v ch H)].
Qed.
Print Assumptions C15_charsub.

(* M5 extension: the extension is appended exactly when the name has none, and "has an extension" means: in the last path
   component some character other than "." stands before the last "." (os.path.splitext) *)
Theorem C15_extension :
  forall ext f dir comp,
    f = dir ++ comp -> ~ In 47 comp -> (dir = [] \/ exists d, dir = d ++ [47]) ->
    add_extension ext f = (if has_ext f then f else f ++ ext) /\
    (~ In 46 comp -> has_ext f = false) /\
    (forall a e, comp = a ++ 46 :: e -> ~ In 46 e -> has_ext f = existsb (fun x => negb (x =? 46)) a).
Proof.
  intros ext f dir comp E H1 H2. subst f. split; [reflexivity | exact (has_ext_spec dir comp H1 H2)].
Qed.
Print Assumptions C15_extension.

(* M7: for every template of the documented grammar -- static names and at most one bracket group pre[alt,...]post in the last
   name, names made of non-empty literal runs and variables ${x} / ${x}(width), printed with single blanks between names --
   parseFilenames returns exactly the template: one string per static name and the list of expanded alternatives, every
   variable in the form ${x} / ${x.width} that _newFilename expects. *)
Theorem C15_parse_print_template :
  forall (static : list name_t) (wild : option wildcard),
    Forall wf_name1 static -> (match wild with Some w => wf_wild w | None => True end) ->
    parse_filenames (pr_surf (template_toks static wild)) = Some (template_files static wild).
Proof. exact parse_print_template. Qed.
Print Assumptions C15_parse_print_template.

Example C15_parse_print_nonvacuous :
  let static := [[SLit [105;110;100;101;120]]] in
  let w := {| w_pre := []; w_alt0 := [SVar [105;100] None]; w_alts := [[SLit [115;101;99;116]; SVar k_num (Some [52])]]; w_post := [] |} in
  pr_surf (template_toks static (Some w)) =
    [105;110;100;101;120;32;91;36;123;105;100;125;44;115;101;99;116;36;123;110;117;109;125;40;52;41;93] /\
  template_files static (Some w) =
    [FStr [105;110;100;101;120]; FList [[36;123;105;100;125]; [115;101;99;116;36;123;110;117;109;46;52;125]]].
Proof. exact parse_print_example. Qed.

(* The property as one statement (Spec = the reference generator [s_request] / [s_run] of Proofs/FilenamesSpec.v, written from the
   property text on the template AST: static names first and in order, then the alternatives of the wildcard pass after pass, the
   first candidate that is bound and fresh, the number advancing on numbered candidates issued or skipped as taken, at most 101
   passes per request, then an error; the namespace returns to the one of the first request after each issued name).
   For all static names and wildcard alternatives of the documented grammar in which a variable occurs at most once per name, every
   forbidden-character set, extension, reserved set, initial namespace and every history of requests that leave "num" alone: the
   Model of Filenames, started on the parsed template, returns exactly the results of the Spec. *)
Theorem C15_model_meets_spec :
  forall c static wild files vars0 reserved reqs,
    legacy_reset c = false -> legacy_words c = false -> legacy_passes c = false ->
    split_files files [] = (map pr_int static, map pr_int wild) ->
    Forall name_ok static -> Forall name_ok wild -> lookup k_num vars0 = None -> Forall no_num reqs ->
    map fst (fst (run c {| ph := PFresh files; vars := vars0; inval := reserved |} reqs)) =
    s_run c (s_init static wild vars0 reserved) reqs.
Proof. exact model_meets_spec. Qed.
Print Assumptions C15_model_meets_spec.

(* ... and from the template STRING: parseFilenames succeeds on the printed template and the Model then returns the Spec's results *)
Theorem C15_template_string_meets_spec :
  forall c static wild vars0 reserved reqs,
    legacy_reset c = false -> legacy_words c = false -> legacy_passes c = false ->
    Forall wf_name1 static -> (match wild with Some w => wf_wild w | None => True end) ->
    Forall name_ok (fst (template_names static wild)) -> Forall name_ok (snd (template_names static wild)) ->
    lookup k_num vars0 = None -> Forall no_num reqs ->
    exists files,
      parse_filenames (pr_surf (template_toks static wild)) = Some files /\
      map fst (fst (run c {| ph := PFresh files; vars := vars0; inval := reserved |} reqs)) =
      s_run c (s_init (fst (template_names static wild)) (snd (template_names static wild)) vars0 reserved) reqs.
Proof. exact template_string_meets_spec. Qed.
Print Assumptions C15_template_string_meets_spec.

Example C15_spec_nonvacuous :
  let static := [[SLit [105;110;100;101;120]]] in
  let w := {| w_pre := []; w_alt0 := [SVar [105;100] None]; w_alts := [[SLit [115;101;99;116]; SVar k_num (Some [52])]]; w_post := [] |} in
  let c := {| cs := None; ext := [46;104;116;109;108]; legacy_reset := false; legacy_words := false; legacy_passes := false |} in
  let reqs := [[]; [([105;100], [97])]; [([105;100], [97])]; []] in
  (Forall wf_name1 static /\ wf_wild w /\
   Forall name_ok (fst (template_names static (Some w))) /\ Forall name_ok (snd (template_names static (Some w))) /\ Forall no_num reqs) /\
  s_run c (s_init (fst (template_names static (Some w))) (snd (template_names static (Some w))) [] [[115;101;99;116;48;48;48;50;46;104;116;109;108]]) reqs =
    [RName [105;110;100;101;120;46;104;116;109;108]; RName [97;46;104;116;109;108];
     RName [115;101;99;116;48;48;48;49;46;104;116;109;108]; RName [115;101;99;116;48;48;48;51;46;104;116;109;108]].
Proof. exact spec_example. Qed.

(* M7 for EVERY spelling of the documented grammar.  [sts] is the template as written: literal runs, variables written $x or
   ${x} with any blanks inside the braces, widths ( n ) with any blanks inside the parentheses, "[" followed by blanks, "]" preceded
   by blanks, "," surrounded by blanks; [erase] forgets the spelling, [prss 0] is the text as written.  Whenever the erased tokens are
   those of a template of the grammar, every blank run is white space, and no brace-less width-less "$x" is run together with a
   literal that starts with a word character: parseFilenames returns exactly the template -- the six substitutions are followed
   token by token ($x -> ${x}; ${ x } -> ${x}; }( n ) -> .n}; blanks after "[", before "]", around "," removed). *)
Theorem C15_parse_spelled_template :
  forall static wild sts,
    Forall wf_name1 static -> (match wild with Some w => wf_wild w | None => True end) ->
    map erase sts = template_toks static wild -> Forall spell_ok sts -> unbraced_ok sts ->
    parse_filenames (prss 0 sts) = Some (template_files static wild).
Proof. exact parse_spelled_template. Qed.
Print Assumptions C15_parse_spelled_template.

(* ... and the whole property from the template as written, in any spelling *)
Theorem C15_spelled_string_meets_spec :
  forall c static wild sts vars0 reserved reqs,
    legacy_reset c = false -> legacy_words c = false -> legacy_passes c = false ->
    Forall wf_name1 static -> (match wild with Some w => wf_wild w | None => True end) ->
    map erase sts = template_toks static wild -> Forall spell_ok sts -> unbraced_ok sts ->
    Forall name_ok (fst (template_names static wild)) -> Forall name_ok (snd (template_names static wild)) ->
    lookup k_num vars0 = None -> Forall no_num reqs ->
    exists files,
      parse_filenames (prss 0 sts) = Some files /\
      map fst (fst (run c {| ph := PFresh files; vars := vars0; inval := reserved |} reqs)) =
      s_run c (s_init (fst (template_names static wild)) (snd (template_names static wild)) vars0 reserved) reqs.
Proof. exact spelled_string_meets_spec. Qed.
Print Assumptions C15_spelled_string_meets_spec.

(* non-vacuity: "index [$id, sect$num(4)]" exactly as the docstring writes it, and "index [  ${ id  } , sect${ num  }( 4<TAB>) ]" *)
Example C15_spelled_nonvacuous :
  let static := [[SLit [105;110;100;101;120]]] in
  let w := {| w_pre := []; w_alt0 := [SVar [105;100] None]; w_alts := [[SLit [115;101;99;116]; SVar k_num (Some [52])]]; w_post := [] |} in
  let plain_sty := {| v_braced := false; v_in1 := []; v_in2 := []; v_w1 := []; v_w2 := [] |} in
  let rich_sty := {| v_braced := true; v_in1 := [32]; v_in2 := [32;32]; v_w1 := [32]; v_w2 := [9] |} in
  let sts1 := [SLitT [105;110;100;101;120]; SSp; SLbT []; SVarT [105;100] None plain_sty; SCmT [] [32];
               SLitT [115;101;99;116]; SVarT k_num (Some [52]) plain_sty; SRbT []] in
  let sts2 := [SLitT [105;110;100;101;120]; SSp; SLbT [32;32]; SVarT [105;100] None rich_sty; SCmT [32] [32];
               SLitT [115;101;99;116]; SVarT k_num (Some [52]) rich_sty; SRbT [32]] in
  prss 0 sts1 = [105;110;100;101;120;32;91;36;105;100;44;32;115;101;99;116;36;110;117;109;40;52;41;93] /\
  map erase sts1 = template_toks static (Some w) /\ Forall spell_ok sts1 /\ unbraced_ok sts1 /\
  map erase sts2 = template_toks static (Some w) /\ Forall spell_ok sts2 /\ unbraced_ok sts2 /\
  parse_filenames (prss 0 sts1) = Some (template_files static (Some w)) /\
  parse_filenames (prss 0 sts2) = Some (template_files static (Some w)).
Proof. exact spelled_example. Qed.

(* Clean names (the title of the property).  For the Model, in every history: when the substitute is not itself forbidden, digits are
   not forbidden, the literal text of the template and the extension contain no forbidden character, and -- if the blank is forbidden --
   all white space is forbidden, then no issued name contains a forbidden character.  (The last hypothesis is needed: see the
   counterexample below.) *)
Theorem C15_names_clean :
  forall c bad sub static wild files vars0 reserved reqs name,
    legacy_reset c = false -> legacy_words c = false -> legacy_passes c = false ->
    split_files files [] = (map pr_int static, map pr_int wild) ->
    Forall name_ok static -> Forall name_ok wild -> lookup k_num vars0 = None -> Forall no_num reqs ->
    cs c = Some (bad, sub) ->
    (forall ch, In ch sub -> ~ In ch bad) -> (forall ch, In ch bad -> is_digit ch = false) ->
    (In 32 bad -> forall ch, is_space ch = true -> In ch bad) ->
    Forall (lits_clean bad) static -> Forall (lits_clean bad) wild -> clean bad (ext c) ->
    In name (names_of (fst (run c {| ph := PFresh files; vars := vars0; inval := reserved |} reqs))) -> clean bad name.
Proof. exact model_names_clean. Qed.
Print Assumptions C15_names_clean.

Example C15_names_clean_nonvacuous :
  let c := {| cs := Some ([58; 47], [45]); ext := [46; 120]; legacy_reset := false; legacy_words := false; legacy_passes := false |} in
  let wild := [[SVar [116] None]] in
  ((forall ch, In ch [45] -> ~ In ch [58; 47]) /\ (forall ch, In ch [58; 47] -> is_digit ch = false) /\
   (In 32 [58; 47] -> forall ch, is_space ch = true -> In ch [58; 47]) /\ Forall (lits_clean [58; 47]) wild /\ clean [58; 47] (ext c)) /\
  s_run c (s_init [] wild [] []) [[([116], [97; 58; 98; 47; 99])]] = [RName [97; 45; 98; 45; 99; 46; 120]].
Proof. exact clean_example. Qed.

(* with only the blank forbidden, "a<TAB>b" cut to 2 words is "a b": the word limit puts a forbidden blank back *)
Example C15_clean_needs_whitespace_hypothesis :
  let c := {| cs := Some ([32], [45]); ext := []; legacy_reset := false; legacy_words := false; legacy_passes := false |} in
  spec_expand c 1 [([116], [97; 9; 98])] [SVar [116] (Some [50])] = Some [97; 32; 98].
Proof. exact clean_needs_whitespace_hypothesis. Qed.

(* findings on the code before the repairs, on the faithful (legacy) Model *)
Theorem C15_legacy_reset_refuted :
  let c0 := {| cs := None; ext := []; legacy_reset := true; legacy_words := false; legacy_passes := false |} in
  let c1 := {| cs := None; ext := []; legacy_reset := false; legacy_words := false; legacy_passes := false |} in
  let files := [FList [[101]; [36; 123; 105; 125]]] in
  let s0 := {| ph := PFresh files; vars := []; inval := [] |} in
  let reqs := [[]; [([105], [97])]] in
  map fst (fst (run c0 s0 reqs)) = [RName [101]; RRaise K_Bail] /\
  map fst (fst (run c1 s0 reqs)) = [RName [101]; RName [97]].
Proof. exact legacy_reset_refuted. Qed.
Print Assumptions C15_legacy_reset_refuted.

Theorem C15_legacy_words_refuted :
  exists format v, limit_words true format v = None /\ limit_words false format v = Some [].
Proof. exact words_limit_legacy_refuted. Qed.
Print Assumptions C15_legacy_words_refuted.

Theorem C15_legacy_passes_refuted :
  let c0 := {| cs := None; ext := []; legacy_reset := false; legacy_words := false; legacy_passes := true |} in
  let c1 := {| cs := None; ext := []; legacy_reset := false; legacy_words := false; legacy_passes := false |} in
  let s0 := {| ph := PFresh [FList [[115; 36; 123; 110; 117; 109; 125]]]; vars := []; inval := [[115; 49; 48; 50]] |} in
  let reqs := repeat [] 102 in
  last (map fst (fst (run c0 s0 reqs))) RNone = RRaise K_Bail /\
  last (map fst (fst (run c1 s0 reqs))) RNone = RName [115; 49; 48; 51].
Proof. exact legacy_passes_refuted. Qed.
Print Assumptions C15_legacy_passes_refuted.

(* non-vacuity: template "index [$id, sect$num(4)]" with extension ".html" and "sect0002.html" reserved;
   requests {}, {id: a}, {id: a}, {} give index.html, a.html, sect0001.html (a.html is taken), sect0003.html (0002 is reserved) *)
Example C15_nonvacuous :
  let spec := [105;110;100;101;120;32;91;36;105;100;44;32;115;101;99;116;36;110;117;109;40;52;41;93] in
  let c := {| cs := None; ext := [46;104;116;109;108]; legacy_reset := false; legacy_words := false; legacy_passes := false |} in
  match parse_filenames spec with
  | Some files =>
      files = [FStr [105;110;100;101;120]; FList [[36;123;105;100;125]; [115;101;99;116;36;123;110;117;109;46;52;125]]] /\
      map fst (fst (run c {| ph := PFresh files; vars := []; inval := [[115;101;99;116;48;48;48;50;46;104;116;109;108]] |}
                        [[]; [([105;100], [97])]; [([105;100], [97])]; []])) =
      [RName [105;110;100;101;120;46;104;116;109;108]; RName [97;46;104;116;109;108];
       RName [115;101;99;116;48;48;48;49;46;104;116;109;108]; RName [115;101;99;116;48;48;48;51;46;104;116;109;108]]
  | None => False
  end.
Proof. vm_compute. split; reflexivity. Qed.
