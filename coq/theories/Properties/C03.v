(* C03 — Conditionals process exactly the branch TeX would select (scanning and selection).
   Model: Model/IfScan.v (TeX.processIfContent); Spec: Spec/Cond.v (conditional texts as trees, TeX's selection rule). *)
From Coq Require Import List ZArith Bool.
Import ListNotations.
From Verif Require Import Val IfScan Cond IfScanProofs.
Local Open Scope Z_scope.

(* M1: for every conditional text (any number of \or branches, optional \else, every segment containing arbitrary
   complete conditionals nested to ANY depth and \newif<token> pairs), followed by \fi and any tail, the scan returns
   exactly its branches and the position of \else, stops at the matching \fi and leaves the tail untouched:
   an inner \else, \or or \fi never terminates the outer conditional. *)
Theorem C03_scan_render :
  forall (c : cond_text) (tl : list ctok),
    scan (render_cond c ++ KFi :: tl) =
    Some {| cases := cases_of c;
            elsecase := match c_else c with Some _ => Some (S (length (c_ors c))) | None => None end;
            rest := tl; terminated := true |}.
Proof. exact scan_render. Qed.

(* M1-M4: after processIfContent the token stream is exactly the branch TeX's rule selects (true: first branch; false: the
   \else branch or nothing; \ifcase n: branch n if listed, otherwise the \else branch if there is one and nothing otherwise,
   for every integer n, negative ones included) followed by what came after \fi. Every token of every other branch, the
   separators and the \fi are no longer in the stream, hence can contribute neither text nor side effect. *)
Theorem C03_process_selects :
  forall (w : which) (c : cond_text) (tl : list ctok),
    process w (render_cond c ++ KFi :: tl) = Some (render_items (select_spec w c) ++ tl).
Proof. exact process_spec. Qed.

(* nesting inside a branch is transparent at every nesting level *)
Theorem C03_nested_transparent :
  forall (l : items) (n : nat) (cur : list ctok) (done : list (list ctok)) (els : option nat) (tl : list ctok),
    scan_go (render_items l ++ tl) n cur done els = scan_go tl n (rev (render_items l) ++ cur) done els.
Proof. exact scan_items. Qed.

(* non-vacuity: \ifcase 4 a \or \ifnum b \else c \fi \or d \else e \fi z   -> e z ;  selector -1 -> e z ; selector 1 -> the nested conditional *)
Example C03_example :
  let inner := ICond 0 (ICons (ITok 98) INil) (SCons true (ICons (ITok 99) INil) SNil) in
  let c := {| c_first := ICons (ITok 97) INil; c_ors := [ICons inner INil; ICons (ITok 100) INil]; c_else := Some (ICons (ITok 101) INil) |} in
  process (WCase 4) (render_cond c ++ [KFi; KTok 122]) = Some [KTok 101; KTok 122] /\
  process (WCase (-1)) (render_cond c ++ [KFi; KTok 122]) = Some [KTok 101; KTok 122] /\
  process (WCase 1) (render_cond c ++ [KFi; KTok 122]) = Some [KIf 0; KTok 98; KElse; KTok 99; KFi; KTok 122] /\
  process (WBool false) (render_cond c ++ [KFi; KTok 122]) = Some [KTok 101; KTok 122].
Proof. vm_compute. repeat split. Qed.
