(* C04 — Grouping restores every local change and leaves the context stack balanced.
   This file contains only statements closed by [exact] and their assumptions.
   Model  = Model/Context.v  (plasTeX/Context.py: frames, heap of category tables, push/pop/mapMethods/...)
   Spec   = Spec/Scope.v     (balanced histories, lexical environments, big-step lexical semantics Sem)
   [abs s] is the lexical environment a Model state stands for (Proofs/ContextProofs.v). *)
From Coq Require Import List NArith ZArith Bool.
Import ListNotations.
From Verif Require Import Val Tokenizer TokenizerProofs Scope Context ContextProofs ContextRefine.
Local Open Scope N_scope.

(* M1: name lookup (ContextItem.__getitem__ chained through .parent) yields the innermost live definition:
   the binding of the first frame, from the top, that has one — and nothing if no frame has one.
   Same for \let aliases (Context.get_let). *)
Theorem C04_lookup_innermost :
  forall (s : state) (k : name) (r : option value),
    lookup s k = r <-> innermost (map macros (ups s ++ [bottom s])) k r.
Proof. exact lookup_innermost. Qed.
Print Assumptions C04_lookup_innermost.

Theorem C04_get_let_innermost :
  forall (s : state) (k : name) (r : option ltok),
    get_let s k = r <-> innermost (map lets (ups s ++ [bottom s])) k r.
Proof. exact get_let_innermost. Qed.

(* the observations of the Model are those of the lexical environment it stands for *)
Theorem C04_observations_lexical :
  forall (s : state),
    (forall k, lookup s k = s_lookup (abs s) k) /\ (forall k, get_let s k = s_getlet (abs s) k) /\
    (forall c, which s c = s_which (abs s) c).
Proof. intros s. exact (conj (lookup_abs s) (conj (get_let_abs s) (which_abs s))). Qed.

(* M2: for every reachable state s (any depth, any frames), every group — anonymous or opened by an object o and
   closed by a matching p — and every balanced inside b (nested to any depth, with inner groups left open when the
   object closes and objects left open when the group closes): after the group
     - every frame above the global one is the very frame it was (macros, aliases, table reference, object),
     - the table in force is the same reference and no table that existed has been modified (copy-on-write safety),
     - the global frame differs only in its namespace (definitions, and aliases made by \global\let), which is the
       global effect the lexical semantics assigns to the group; the interpreter-wide cells are those of the semantics;
     - the state stands for [leave (abs s) e1]: the environment from before the group with the globals from inside. *)
Theorem C04_balanced_restores :
  forall (s : state) (o p : option objinfo) (b : list op) (e1 : senv),
    wf s -> brackets o p = true -> Sem (kind_of o) b (enter o (abs s)) e1 ->
    let s' := run (Push o :: b ++ [Pop p]) s in
    wf s' /\ ups s' = ups s /\ cur s' = cur s /\ (exists ext, heap s' = heap s ++ ext) /\
    bottom s' = set_lets (set_macros (bottom s) (fst (fst (global_effect e1)))) (snd (fst (global_effect e1))) /\
    m_cells s' = snd (global_effect e1) /\
    abs s' = leave (abs s) e1.
Proof. exact balanced_restores. Qed.
Print Assumptions C04_balanced_restores.

(* M2, general form: along any balanced history started inside a group the Model computes the lexical semantics,
   and the frames below the one it started on are untouched; what may stay open above it is only what the kind allows *)
Theorem C04_balanced_lexical :
  forall (K : kind) (h : list op) (e e' : senv),
    Sem K h e e' ->
    forall (s : state) (f : frame) (us : list frame), wf s -> ups s = f :: us -> abs s = e ->
    let s' := run h s in
    wf s' /\ abs s' = e' /\ (exists ext, heap s' = heap s ++ ext) /\ same_bottom (bottom s') (bottom s) /\
    exists ex f', ups s' = ex ++ f' :: us /\ fobj f' = fobj f /\ extra_ok K ex.
Proof. exact sem_run. Qed.

(* the premise of M2 is not a restriction: every balanced history has a lexical meaning in every environment,
   and only balanced histories have one *)
Theorem C04_balanced_total :
  forall (K : kind) (h : list op), Bal K h <-> (forall e, exists e', Sem K h e e').
Proof.
  intros K h. split; [exact (bal_sem K h)|].
  intros H. destruct (H (abs init_state)) as (e' & He). exact (sem_bal _ _ _ _ He).
Qed.

(* the wf premise holds of Context() and is kept by every operation *)
Theorem C04_wf_invariant : wf init_state /\ forall (h : list op) (s : state), wf s -> wf (run h s).
Proof. exact (conj init_wf run_wf). Qed.

(* copy-on-write safety for *every* history (balanced or not, from any state): tables are only ever added *)
Theorem C04_cow_safe :
  forall (h : list op) (s : state),
    (exists ext, heap (run h s) = heap s ++ ext) /\
    (forall r, (r < length (heap s))%nat -> table_at (run h s) r = table_at s r).
Proof. intros h s. exact (conj (cow_safe h s) (tables_unchanged h s)). Qed.
Print Assumptions C04_cow_safe.

(* M3: after any balanced history, from any state whatsoever, len(contexts) is what it was — for arbitrary
   interleavings of anonymous and object frames; and in the middle of one (inside an object / a group) the frames
   the history started on are all still there *)
Theorem C04_balanced_depth :
  forall (h : list op) (s : state), Balanced h -> depth (run h s) = depth s.
Proof. exact balanced_depth. Qed.
Print Assumptions C04_balanced_depth.

Theorem C04_balanced_never_below :
  forall (K : kind) (h : list op) (s : state),
    Bal K h -> exists ex, map fobj (ups (run h s)) = ex ++ map fobj (ups s) /\ textra_ok K ex.
Proof. exact balanced_never_below. Qed.

(* M4a: after a group closes, category codes are those from before, and every name that was not defined (aliased)
   globally inside has the meaning (alias) it had *)
Theorem C04_local_dies :
  forall (s : state) (o p : option objinfo) (b : list op) (e1 : senv),
    wf s -> brackets o p = true -> Sem (kind_of o) b (enter o (abs s)) e1 ->
    let s' := run (Push o :: b ++ [Pop p]) s in
    (forall c, which s' c = which s c) /\
    (forall k, forallb (no_glet k) b = true -> get_let s' k = get_let s k) /\
    (forall k, forallb (no_gwrite k) b = true -> lookup s' k = lookup s k).
Proof. exact local_dies. Qed.
Print Assumptions C04_local_dies.

(* M4b: a global definition survives every history that does not define the name again (balanced or not), and is
   the meaning of the name whenever the stack is back at the global level; counters / \newif switches likewise *)
Theorem C04_global_survives :
  forall (h1 h2 : list op) (s : state) (k : name) (v : value),
    forallb (no_write k) h2 = true ->
    let s' := run (h1 ++ AddGlobal k v :: h2) s in
    find k (macros (bottom s')) = Some v /\ (ups s' = [] -> lookup s' k = Some v).
Proof. exact global_survives. Qed.

Theorem C04_cells_survive :
  forall (h1 h2 : list op) (s : state) (c : N) (z : Z),
    forallb (no_cell_write c) h2 = true -> find c (m_cells (run (h1 ++ SetCell c z :: h2) s)) = Some z.
Proof. exact cells_survive. Qed.

(* M4c: \let\d\src is a snapshot: whatever is defined afterwards at this level (including \src, locally or
   globally), \d keeps the meaning \src had *)
Theorem C04_let_snapshot :
  forall (s : state) (d src : name) (v : value) (h : list op),
    lookup s src = Some v ->
    forallb (fun o => simple o && negb (binds d o)) h = true ->
    lookup (run h (step (LetMacro d src) s)) d = Some v.
Proof. exact let_snapshot. Qed.

(* ---- non-vacuity and recorded behaviour ---- *)
Definition envB : objinfo := {| oid := 1; otype := 0; omode := 1; oname := [113]; oparent := None; odoc := false; olocals := [(5, VDef 9)] |}.
Definition envE : objinfo := {| oid := 2; otype := 0; omode := 2; oname := [113]; oparent := None; odoc := false; olocals := [] |}.
Definition docB : objinfo := {| oid := 3; otype := 1; omode := 1; oname := [100]; oparent := None; odoc := true; olocals := [] |}.
Definition body3 : list op :=
  [AddLocal 0 (VDef 1); Push (Some envB); Catcode 64 11; Push None; AddGlobal 1 (VDef 2); LetMacro 2 0; Pop (Some envE); Getitem 0].

(* a group nested three deep — { \def  \begin{q} \catcode { \gdef \let \end{q} (closing over the open {)  use } —
   meets the premises of M2, and the conclusions are not trivially true: inside, things did change *)
Example C04_nonvacuous :
  (exists e1, Sem InGroup body3 (enter None (abs init_state)) e1) /\
  (let s1 := run (Push None :: body3) init_state in
   depth s1 = 2%nat /\ lookup s1 0 = Some (VDef 1) /\ lookup s1 1 = Some (VDef 2)) /\
  (let s2 := run [Push None; AddLocal 0 (VDef 1); Push (Some envB); Catcode 64 11; Push None] init_state in
   depth s2 = 4%nat /\ which s2 64 = 11 /\ lookup s2 5 = Some (VDef 9)) /\
  (let s' := run (Push None :: body3 ++ [Pop None]) init_state in
   depth s' = 1%nat /\ which s' 64 = 12 /\ lookup s' 0 = None /\ lookup s' 2 = None /\ lookup s' 1 = Some (VDef 2)).
Proof.
  split; [|vm_compute; repeat split].
  eexists. unfold body3.
  eapply S_simple; [reflexivity|].
  eapply (S_obj InGroup envB envE [Catcode 64 11; Push None; AddGlobal 1 (VDef 2); LetMacro 2 0] [Getitem 0]); [reflexivity|reflexivity| |].
  - eapply S_simple; [reflexivity|]. eapply S_open_anon. eapply S_simple; [reflexivity|]. eapply S_simple; [reflexivity|]. apply S_nil.
  - eapply S_simple; [reflexivity|]. apply S_nil.
Qed.

(* recorded, not claimed as a violation: a \gdef does not override a definition local to an enclosing open group
   (TeX would make the new meaning visible at once); the global meaning appears when that group closes *)
Example C04_gdef_shadowed_by_enclosing_local :
  let h := [AddLocal 0 (VDef 1); Push None; AddLocal 0 (VDef 2); Push None; AddGlobal 0 (VDef 3); Pop None] in
  lookup (run h init_state) 0 = Some (VDef 2) /\ lookup (run (h ++ [Pop None]) init_state) 0 = Some (VDef 3).
Proof. vm_compute. split; reflexivity. Qed.

(* why balanced histories exclude document-level objects: Context.push discards every open frame for them, and the
   new frame inherits the category table of the discarded top frame *)
Example C04_document_push_discards_open_groups :
  depth (run [Push None; Push None; Push (Some docB)] init_state) = 2%nat /\
  which (run [Push None; Catcode 64 11; Push (Some docB)] init_state) 64 = 11.
Proof. vm_compute. split; reflexivity. Qed.

(* Historical remark (former known finding C04-number-lookahead, program level; repaired in /repo by c654904, 076499b, 9658874):
   the number reader used to pull the token after the digits through the expanding iterator, so in {\catcode`\@=11} the closing
   brace was executed before the assignment: the implementation ran the second history below instead of the first, and the change
   was made outside the group.  The statement is a fact about the Model's histories (it still holds of the Model); the implementation
   now runs the first history, and such inputs are ordinary members of the main program streams. *)
Example C04_lookahead_reorder_refuted :
  which (run [Push None; Catcode 64 11; Pop None] init_state) 64 = which init_state 64 /\
  which (run [Push None; Pop None; Catcode 64 11] init_state) 64 <> which init_state 64.
Proof. vm_compute. split; [reflexivity|discriminate]. Qed.

(* known finding C04-redefine-char-let (program level): once \ql is \let to a character the Tokenizer replaces the control
   sequence by that character, so a second \let\ql=y inside a group reaches Context.let with another destination; the
   history really run is the second one, and the innermost alias of \ql is not the one the program asked for *)
Example C04_charlet_redefinition_refuted :
  get_let (run [LetTok 7 120; Push None; LetTok 7 121] init_state) 7 = Some 121 /\
  get_let (run [LetTok 7 120; Push None; LetTok 99 121] init_state) 7 = Some 120.
Proof. vm_compute. split; reflexivity. Qed.

(* fixed by notes/C04/fix-1.diff: \global was a no-op, i.e. {\global\def\a{..}} ran the first history below, not the second *)
Example C04_global_prefix_was_ignored :
  lookup (run [Push None; AddLocal 0 (VDef 1); Pop None] init_state) 0 = None /\
  lookup (run [Push None; AddGlobal 0 (VDef 1); Pop None] init_state) 0 = Some (VDef 1) /\
  get_let (run [Push None; GLetTok 0 120; Pop None] init_state) 0 = Some 120.
Proof. vm_compute. repeat split. Qed.

(* ---- one proved core for grouped category tables, shared with C01 (Model/Tokenizer.v apply_gops / bal) ----
   [tabs s] = the tables of the frames, top first; [curt s] its head (the table in force), [saved s] its tail.
   [gtrace h s] = the history as C01's grouped-table operations: a push enters a group, a pop leaves as many groups as it removes
   frames (several for the pop-through of pop(obj) / pop(), none at the global level), \catcode assigns, nothing else counts. *)

(* R1: for EVERY history without setVerbatimCatcodes / document-level pushes / invalid codes, from every well-formed state, and
   whatever follows: C01's grouped table run on the trace computes the table Context has in force on its heap of shared tables *)
Theorem C04_table_refines_gops :
  forall (h : list op) (s : state) (rest : list (N * N)),
    wf s -> forallb gop_ok h = true ->
    apply_gops (saved s) (curt s) (gtrace h s ++ rest) = apply_gops (saved (run h s)) (curt (run h s)) rest.
Proof. exact table_refines_gops. Qed.
Print Assumptions C04_table_refines_gops.

Theorem C04_which_is_gops :
  forall (h : list op) (s : state) (c : N),
    wf s -> forallb gop_ok h = true ->
    which (run h s) c = which_code (apply_gops (saved s) (curt s) (gtrace h s)) c.
Proof. exact which_is_gops. Qed.

(* R2: on the brace fragment (anonymous groups only) the trace is the history read off syntactically *)
Theorem C04_table_refines_gops_braces :
  forall (h : list op) (s : state) (rest : list (N * N)),
    wf s -> all_anon s -> forallb anon_ok h = true ->
    apply_gops (saved s) (curt s) (gops_of h ++ rest) = apply_gops (saved (run h s)) (curt (run h s)) rest.
Proof. exact table_refines_gops_braces. Qed.

(* R3: hence C01_group_restores_table (the theorem about apply_gops) gives the restoration of the category table after { b }
   in the Model of Context; and balanced histories (Spec/Scope.v) of the fragment have balanced traces (Model/Tokenizer.v bal) *)
Theorem C04_group_restores_table_via_C01 :
  forall (s : state) (b : list op),
    wf s -> all_anon s -> forallb anon_ok b = true -> bal 0 (gops_of b) = true ->
    curt (run (Push None :: b ++ [Pop None]) s) = curt s /\
    forall c, which (run (Push None :: b ++ [Pop None]) s) c = which s c.
Proof. exact group_restores_table_via_C01. Qed.
Print Assumptions C04_group_restores_table_via_C01.

Theorem C04_balanced_braces_bal :
  forall (h : list op), Balanced h -> forallb anon_ok h = true -> bal 0 (gops_of h) = true.
Proof. exact balanced_braces_bal. Qed.

Example C04_refinement_nonvacuous :
  (* an environment closed over an unclosed brace: the pop removes two frames, the trace has two leaves *)
  let h := [Push None; Catcode 64 11; Push (Some envB); Catcode 37 12; Push None; Catcode 64 13; AddLocal 0 (VDef 1); Pop (Some envE)] in
  forallb gop_ok h = true /\
  gtrace h init_state = [(0, 16); (64, 11); (0, 16); (37, 12); (0, 16); (64, 13); (0, 17); (0, 17)] /\
  which (run h init_state) 64 = 11 /\ which (run h init_state) 37 = 14 /\
  (* the brace fragment *)
  let b := [Catcode 64 11; Push None; Catcode 37 12; Getitem 3; Pop None; LetTok 1 120] in
  forallb anon_ok b = true /\ all_anon init_state /\ bal 0 (gops_of b) = true /\ Balanced b /\
  which (run (Push None :: b) init_state) 64 = 11.
Proof.
  cbv zeta. split; [reflexivity|]. split; [vm_compute; reflexivity|]. split; [vm_compute; reflexivity|]. split; [vm_compute; reflexivity|].
  split; [reflexivity|]. split; [constructor|]. split; [reflexivity|]. split; [|vm_compute; reflexivity].
  apply (Bal_simple Strict (Catcode 64 11)); [reflexivity|].
  apply (Bal_group Strict [Catcode 37 12; Getitem 3] [LetTok 1 120]).
  - repeat (apply Bal_simple; [reflexivity|]). apply Bal_nil.
  - apply Bal_simple; [reflexivity|]. apply Bal_nil.
Qed.

(* ---- \begin{x} ... \end{x} of ANY name is a group (Model: begin_env / end_env = begin.invoke / end.invoke + the invoke of the
   class: Environment.invoke, the MODE_BEGIN / MODE_END branches of Macro.invoke for Command classes and unknown names,
   NewCommand.invoke for \newenvironment) ----
   For every name x, every kind of class, every well-formed state and every balanced body that says nothing about x (does not
   define it and opens no object with a class-local macro x), the state after \end{x} is the state before \begin{x} up to the
   global effect of the body (and the definition of x as unrecognized, if it was unknown): all conclusions of C04_balanced_restores. *)
Theorem C04_env_is_group :
  forall (s : state) (x : name) (ck : ckind) (i1 i2 : N) (nm : list N) (locs : list (name * value)) (body : list op) (e1 : senv),
    wf s -> find x locs = None ->
    let sg := fst (getitem x s) in
    let o := env_obj ck (snd (getitem x s)) i1 nm locs in
    Sem (kind_of o) body (enter o (abs sg)) e1 ->
    forallb (quiet x) body = true ->
    let s' := end_env x ck i2 nm (run body (begin_env x ck i1 nm locs s)) in
    wf s' /\ ups s' = ups s /\ cur s' = cur s /\ (exists ext, heap s' = heap s ++ ext) /\
    bottom s' = set_lets (set_macros (bottom sg) (glo_m e1)) (glo_l e1) /\ m_cells s' = s_cells e1 /\
    abs s' = leave (abs sg) e1.
Proof. exact env_is_group. Qed.
Print Assumptions C04_env_is_group.

Example C04_env_is_group_nonvacuous :
  (* {\def\a{B}\begin{sloppypar}\def\a{C}\catcode`\@=11 \a\end{sloppypar}\a}: an unknown / Command-class name (CMacro) *)
  let s := run [Push None; AddLocal 0 (VDef 1)] init_state in
  let body := [AddLocal 0 (VDef 2); Catcode 64 11; Getitem 0] in
  (exists e1, Sem InObj body (enter (env_obj CMacro (snd (getitem 50 s)) 7 [115] []) (abs (fst (getitem 50 s)))) e1) /\
  forallb (quiet 50) body = true /\
  (let s1 := run body (begin_env 50 CMacro 7 [115] [] s) in depth s1 = 3%nat /\ lookup s1 0 = Some (VDef 2) /\ which s1 64 = 11) /\
  (let s' := end_env 50 CMacro 8 [115] (run body (begin_env 50 CMacro 7 [115] [] s)) in
   depth s' = 2%nat /\ lookup s' 0 = Some (VDef 1) /\ which s' 64 = 12 /\ lookup s' 50 = Some (VUnrec 50)) /\
  (* the three kinds of class issue a group each *)
  (forall ck, depth (end_env 50 ck 8 [115] (begin_env 50 ck 7 [115] [] s)) = depth s).
Proof.
  split; [|vm_compute; repeat split; intros []; reflexivity].
  eexists. repeat (eapply S_simple; [reflexivity|]). apply S_nil.
Qed.

(* ---- reachable states: the well-formedness premise of M2 discharged (every state Context() can reach by any history) ---- *)
Theorem C04_reachable_restores :
  forall (s : state) (o p : option objinfo) (b : list op) (e1 : senv),
    reachable s -> brackets o p = true -> Sem (kind_of o) b (enter o (abs s)) e1 ->
    let s' := run (Push o :: b ++ [Pop p]) s in
    reachable s' /\ ups s' = ups s /\ cur s' = cur s /\ (exists ext, heap s' = heap s ++ ext) /\
    bottom s' = set_lets (set_macros (bottom s) (glo_m e1)) (glo_l e1) /\ m_cells s' = s_cells e1 /\
    (forall c, which s' c = which s c).
Proof. exact reachable_restores. Qed.
Print Assumptions C04_reachable_restores.

(* from Context(): the table in force is C01's grouped table started from the default table (the form C01's driver runs) *)
Theorem C04_which_is_gops_init :
  forall (h : list op) (c : N),
    forallb gop_ok h = true ->
    which (run h init_state) c = which_code (apply_gops [] default_table (gtrace h init_state)) c.
Proof. exact which_is_gops_init. Qed.

(* ---- the histories of the other grouping constructs are balanced, so M2 / M3 / M4 apply to them ----
   \cmd{body} = push(cmd); sub-process: push(ArgumentContext); body; pop(same); pop(cmd)  (closed by identity);
   tabular = push(table); push() first cell; [& or \\ = pop(); push()] next cell ...; \end{tabular} = pop(obj) closing the last cell too *)
Theorem C04_cmd_hist_balanced :
  forall (K : kind) (o a : objinfo) (body rest : list op),
    odoc o = false -> odoc a = false -> Bal InObj body -> Bal K rest -> Bal K (cmd_hist o a body ++ rest).
Proof. exact cmd_hist_balanced. Qed.

Theorem C04_tabular_hist_balanced :
  forall (K : kind) (tb te : objinfo) (first : list op) (cells : list (list op)) (rest : list op),
    odoc tb = false -> closes tb te = true -> Bal Strict first -> Forall (Bal Strict) cells -> Bal K rest ->
    Bal K (tabular_hist tb te first cells ++ rest).
Proof. exact tabular_hist_balanced. Qed.

Example C04_constructs_nonvacuous :
  (* \begin{tabular} \def\a & {\catcode} \\ \gdef \end{tabular}  and  \textbf{\def\a ... {  (argument closed over an open brace) *)
  let t := tabular_hist envB envE [AddLocal 0 (VDef 1)] [[Push None; Catcode 64 11; Pop None]; [AddGlobal 1 (VDef 2)]] in
  let c := cmd_hist envB envE [AddLocal 0 (VDef 1); Push None; Catcode 64 11] in
  Balanced (t ++ []) /\ depth (run t init_state) = 1%nat /\ lookup (run t init_state) 1 = Some (VDef 2) /\
  lookup (run t init_state) 0 = None /\
  Balanced (c ++ []) /\ depth (run c init_state) = 1%nat /\ which (run c init_state) 64 = 12.
Proof.
  cbv zeta. split; [|split; [reflexivity|split; [reflexivity|split; [reflexivity|split; [|split; reflexivity]]]]].
  - apply tabular_hist_balanced; [reflexivity|reflexivity| | |apply Bal_nil].
    + apply Bal_simple; [reflexivity|apply Bal_nil].
    + apply Forall_cons; [|apply Forall_cons; [|apply Forall_nil]].
      * apply (Bal_group Strict [Catcode 64 11] []); [apply Bal_simple; [reflexivity|apply Bal_nil]|apply Bal_nil].
      * apply Bal_simple; [reflexivity|apply Bal_nil].
  - apply cmd_hist_balanced; [reflexivity|reflexivity| |apply Bal_nil].
    apply Bal_simple; [reflexivity|]. apply Bal_open_anon. apply Bal_simple; [reflexivity|apply Bal_nil].
Qed.
