(* C04 — Grouping restores every local change and leaves the context stack balanced.
   This file contains only statements closed by [exact] and their assumptions.
   Model  = Model/Context.v  (plasTeX/Context.py: frames, heap of category tables, push/pop/mapMethods/...)
   Spec   = Spec/Scope.v     (balanced histories, lexical environments, big-step lexical semantics Sem)
   [abs s] is the lexical environment a Model state stands for (Proofs/ContextProofs.v). *)
From Coq Require Import List NArith ZArith Bool.
Import ListNotations.
From Verif Require Import Val Tokenizer Scope Context ContextProofs.
Local Open Scope N_scope.

(* M1: name lookup (ContextItem.__getitem__ chained through .parent) yields the innermost live definition:
   the binding of the first frame, from the top, that has one — and nothing if no frame has one.
   Same for \let aliases (Context.get_let). *)
Theorem C04_lookup_innermost :
  forall (s : state) (k : name) (r : option value),
    lookup s k = r <-> innermost (map macros (ups s ++ [bottom s])) k r.
Proof. exact lookup_innermost. Qed.
Print Assumptions C04_lookup_innermost.

Theorem C04_get_let_innermost :
  forall (s : state) (k : name) (r : option ltok),
    get_let s k = r <-> innermost (map lets (ups s ++ [bottom s])) k r.
Proof. exact get_let_innermost. Qed.

(* the observations of the Model are those of the lexical environment it stands for *)
Theorem C04_observations_lexical :
  forall (s : state),
    (forall k, lookup s k = s_lookup (abs s) k) /\ (forall k, get_let s k = s_getlet (abs s) k) /\
    (forall c, which s c = s_which (abs s) c).
Proof. intros s. exact (conj (lookup_abs s) (conj (get_let_abs s) (which_abs s))). Qed.

(* M2: for every reachable state s (any depth, any frames), every group — anonymous or opened by an object o and
   closed by a matching p — and every balanced inside b (nested to any depth, with inner groups left open when the
   object closes and objects left open when the group closes): after the group
     - every frame above the global one is the very frame it was (macros, aliases, table reference, object),
     - the table in force is the same reference and no table that existed has been modified (copy-on-write safety),
     - the global frame differs only in its namespace (definitions, and aliases made by \global\let), which is the
       global effect the lexical semantics assigns to the group; the interpreter-wide cells are those of the semantics;
     - the state stands for [leave (abs s) e1]: the environment from before the group with the globals from inside. *)
Theorem C04_balanced_restores :
  forall (s : state) (o p : option objinfo) (b : list op) (e1 : senv),
    wf s -> brackets o p = true -> Sem (kind_of o) b (enter o (abs s)) e1 ->
    let s' := run (Push o :: b ++ [Pop p]) s in
    wf s' /\ ups s' = ups s /\ cur s' = cur s /\ (exists ext, heap s' = heap s ++ ext) /\
    bottom s' = set_lets (set_macros (bottom s) (fst (fst (global_effect e1)))) (snd (fst (global_effect e1))) /\
    m_cells s' = snd (global_effect e1) /\
    abs s' = leave (abs s) e1.
Proof. exact balanced_restores. Qed.
Print Assumptions C04_balanced_restores.

(* M2, general form: along any balanced history started inside a group the Model computes the lexical semantics,
   and the frames below the one it started on are untouched; what may stay open above it is only what the kind allows *)
Theorem C04_balanced_lexical :
  forall (K : kind) (h : list op) (e e' : senv),
    Sem K h e e' ->
    forall (s : state) (f : frame) (us : list frame), wf s -> ups s = f :: us -> abs s = e ->
    let s' := run h s in
    wf s' /\ abs s' = e' /\ (exists ext, heap s' = heap s ++ ext) /\ same_bottom (bottom s') (bottom s) /\
    exists ex f', ups s' = ex ++ f' :: us /\ fobj f' = fobj f /\ extra_ok K ex.
Proof. exact sem_run. Qed.

(* the premise of M2 is not a restriction: every balanced history has a lexical meaning in every environment,
   and only balanced histories have one *)
Theorem C04_balanced_total :
  forall (K : kind) (h : list op), Bal K h <-> (forall e, exists e', Sem K h e e').
Proof.
  intros K h. split; [exact (bal_sem K h)|].
  intros H. destruct (H (abs init_state)) as (e' & He). exact (sem_bal _ _ _ _ He).
Qed.

(* the wf premise holds of Context() and is kept by every operation *)
Theorem C04_wf_invariant : wf init_state /\ forall (h : list op) (s : state), wf s -> wf (run h s).
Proof. exact (conj init_wf run_wf). Qed.

(* copy-on-write safety for *every* history (balanced or not, from any state): tables are only ever added *)
Theorem C04_cow_safe :
  forall (h : list op) (s : state),
    (exists ext, heap (run h s) = heap s ++ ext) /\
    (forall r, (r < length (heap s))%nat -> table_at (run h s) r = table_at s r).
Proof. intros h s. exact (conj (cow_safe h s) (tables_unchanged h s)). Qed.
Print Assumptions C04_cow_safe.

(* M3: after any balanced history, from any state whatsoever, len(contexts) is what it was — for arbitrary
   interleavings of anonymous and object frames; and in the middle of one (inside an object / a group) the frames
   the history started on are all still there *)
Theorem C04_balanced_depth :
  forall (h : list op) (s : state), Balanced h -> depth (run h s) = depth s.
Proof. exact balanced_depth. Qed.
Print Assumptions C04_balanced_depth.

Theorem C04_balanced_never_below :
  forall (K : kind) (h : list op) (s : state),
    Bal K h -> exists ex, map fobj (ups (run h s)) = ex ++ map fobj (ups s) /\ textra_ok K ex.
Proof. exact balanced_never_below. Qed.

(* M4a: after a group closes, category codes are those from before, and every name that was not defined (aliased)
   globally inside has the meaning (alias) it had *)
Theorem C04_local_dies :
  forall (s : state) (o p : option objinfo) (b : list op) (e1 : senv),
    wf s -> brackets o p = true -> Sem (kind_of o) b (enter o (abs s)) e1 ->
    let s' := run (Push o :: b ++ [Pop p]) s in
    (forall c, which s' c = which s c) /\
    (forall k, forallb (no_glet k) b = true -> get_let s' k = get_let s k) /\
    (forall k, forallb (no_gwrite k) b = true -> lookup s' k = lookup s k).
Proof. exact local_dies. Qed.
Print Assumptions C04_local_dies.

(* M4b: a global definition survives every history that does not define the name again (balanced or not), and is
   the meaning of the name whenever the stack is back at the global level; counters / \newif switches likewise *)
Theorem C04_global_survives :
  forall (h1 h2 : list op) (s : state) (k : name) (v : value),
    forallb (no_write k) h2 = true ->
    let s' := run (h1 ++ AddGlobal k v :: h2) s in
    find k (macros (bottom s')) = Some v /\ (ups s' = [] -> lookup s' k = Some v).
Proof. exact global_survives. Qed.

Theorem C04_cells_survive :
  forall (h1 h2 : list op) (s : state) (c : N) (z : Z),
    forallb (no_cell_write c) h2 = true -> find c (m_cells (run (h1 ++ SetCell c z :: h2) s)) = Some z.
Proof. exact cells_survive. Qed.

(* M4c: \let\d\src is a snapshot: whatever is defined afterwards at this level (including \src, locally or
   globally), \d keeps the meaning \src had *)
Theorem C04_let_snapshot :
  forall (s : state) (d src : name) (v : value) (h : list op),
    lookup s src = Some v ->
    forallb (fun o => simple o && negb (binds d o)) h = true ->
    lookup (run h (step (LetMacro d src) s)) d = Some v.
Proof. exact let_snapshot. Qed.

(* ---- non-vacuity and recorded behaviour ---- *)
Definition envB : objinfo := {| oid := 1; otype := 0; omode := 1; oname := [113]; oparent := None; odoc := false; olocals := [(5, VDef 9)] |}.
Definition envE : objinfo := {| oid := 2; otype := 0; omode := 2; oname := [113]; oparent := None; odoc := false; olocals := [] |}.
Definition docB : objinfo := {| oid := 3; otype := 1; omode := 1; oname := [100]; oparent := None; odoc := true; olocals := [] |}.
Definition body3 : list op :=
  [AddLocal 0 (VDef 1); Push (Some envB); Catcode 64 11; Push None; AddGlobal 1 (VDef 2); LetMacro 2 0; Pop (Some envE); Getitem 0].

(* a group nested three deep — { \def  \begin{q} \catcode { \gdef \let \end{q} (closing over the open {)  use } —
   meets the premises of M2, and the conclusions are not trivially true: inside, things did change *)
Example C04_nonvacuous :
  (exists e1, Sem InGroup body3 (enter None (abs init_state)) e1) /\
  (let s1 := run (Push None :: body3) init_state in
   depth s1 = 2%nat /\ lookup s1 0 = Some (VDef 1) /\ lookup s1 1 = Some (VDef 2)) /\
  (let s2 := run [Push None; AddLocal 0 (VDef 1); Push (Some envB); Catcode 64 11; Push None] init_state in
   depth s2 = 4%nat /\ which s2 64 = 11 /\ lookup s2 5 = Some (VDef 9)) /\
  (let s' := run (Push None :: body3 ++ [Pop None]) init_state in
   depth s' = 1%nat /\ which s' 64 = 12 /\ lookup s' 0 = None /\ lookup s' 2 = None /\ lookup s' 1 = Some (VDef 2)).
Proof.
  split; [|vm_compute; repeat split].
  eexists. unfold body3.
  eapply S_simple; [reflexivity|].
  eapply (S_obj InGroup envB envE [Catcode 64 11; Push None; AddGlobal 1 (VDef 2); LetMacro 2 0] [Getitem 0]); [reflexivity|reflexivity| |].
  - eapply S_simple; [reflexivity|]. eapply S_open_anon. eapply S_simple; [reflexivity|]. eapply S_simple; [reflexivity|]. apply S_nil.
  - eapply S_simple; [reflexivity|]. apply S_nil.
Qed.

(* recorded, not claimed as a violation: a \gdef does not override a definition local to an enclosing open group
   (TeX would make the new meaning visible at once); the global meaning appears when that group closes *)
Example C04_gdef_shadowed_by_enclosing_local :
  let h := [AddLocal 0 (VDef 1); Push None; AddLocal 0 (VDef 2); Push None; AddGlobal 0 (VDef 3); Pop None] in
  lookup (run h init_state) 0 = Some (VDef 2) /\ lookup (run (h ++ [Pop None]) init_state) 0 = Some (VDef 3).
Proof. vm_compute. split; reflexivity. Qed.

(* why balanced histories exclude document-level objects: Context.push discards every open frame for them, and the
   new frame inherits the category table of the discarded top frame *)
Example C04_document_push_discards_open_groups :
  depth (run [Push None; Push None; Push (Some docB)] init_state) = 2%nat /\
  which (run [Push None; Catcode 64 11; Push (Some docB)] init_state) 64 = 11.
Proof. vm_compute. split; reflexivity. Qed.

(* Historical remark (former known finding C04-number-lookahead, program level; repaired in /repo by c654904, 076499b, 9658874):
   the number reader used to pull the token after the digits through the expanding iterator, so in {\catcode`\@=11} the closing
   brace was executed before the assignment: the implementation ran the second history below instead of the first, and the change
   was made outside the group.  The statement is a fact about the Model's histories (it still holds of the Model); the implementation
   now runs the first history, and such inputs are ordinary members of the main program streams. *)
Example C04_lookahead_reorder_refuted :
  which (run [Push None; Catcode 64 11; Pop None] init_state) 64 = which init_state 64 /\
  which (run [Push None; Pop None; Catcode 64 11] init_state) 64 <> which init_state 64.
Proof. vm_compute. split; [reflexivity|discriminate]. Qed.

(* known finding C04-redefine-char-let (program level): once \ql is \let to a character the Tokenizer replaces the control
   sequence by that character, so a second \let\ql=y inside a group reaches Context.let with another destination; the
   history really run is the second one, and the innermost alias of \ql is not the one the program asked for *)
Example C04_charlet_redefinition_refuted :
  get_let (run [LetTok 7 120; Push None; LetTok 7 121] init_state) 7 = Some 121 /\
  get_let (run [LetTok 7 120; Push None; LetTok 99 121] init_state) 7 = Some 120.
Proof. vm_compute. split; reflexivity. Qed.

(* fixed by notes/C04/fix-1.diff: \global was a no-op, i.e. {\global\def\a{..}} ran the first history below, not the second *)
Example C04_global_prefix_was_ignored :
  lookup (run [Push None; AddLocal 0 (VDef 1); Pop None] init_state) 0 = None /\
  lookup (run [Push None; AddGlobal 0 (VDef 1); Pop None] init_state) 0 = Some (VDef 1) /\
  get_let (run [Push None; GLetTok 0 120; Pop None] init_state) 0 = Some 120.
Proof. vm_compute. repeat split. Qed.
