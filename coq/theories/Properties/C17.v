(* C17 -- A document's result does not depend on what was processed before it.
   This file contains only statements closed by [exact] and their assumptions.

   Partial by nature: the interpreter-wide state of plasTeX lives in Python class objects.  The Model (Model/Globals.v) carries the
   bookkeeping: cells, histories of writes, what creating a new document resets, and a token-by-token transcription of the code
   that moves the nesting trackers.  Which cells exist, and which of them the code re-creates per document, is regenerated from
   the source into Gen/GlobalCells.v on every run; that the real classes behave like the cells is checked by the correspondence
   (snapshots of the real class attributes around every document of generated sequences). *)
From Coq Require Import List ZArith Bool.
Import ListNotations.
From Verif Require Import Val GlobalCells Globals GlobalsProofs.
Local Open Scope Z_scope.

(* M1 (isolation_iff).  For every reset policy R, every initial state and every sequence of completed documents (any number, any
   histories): the result of EVERY later document B equals the result of B processed alone  <=>  every cell written by the sequence
   is re-created per document or has, over the sequence, a net effect that gives its initial value back. *)
Theorem C17_isolation_iff : forall (R : cell -> bool) (init : state) (hs : list (list ev)) (st : state),
  run_seq R init init hs = Some st ->
  (independent R init hs <->
   forall c, In c (written (concat hs)) -> R c = true \/ replay c (concat hs) (init c) = Some (init c)).
Proof. exact isolation_iff. Qed.
Print Assumptions C17_isolation_iff.

(* the two sentences of the property are equivalent: "B's result never depends on the past" <=> "no surviving cell differs from its
   initial value after the documents" *)
Theorem C17_independent_iff_restored : forall (R : cell -> bool) (init : state) (hs : list (list ev)) (st : state),
  run_seq R init init hs = Some st -> (independent R init hs <-> restored R init st).
Proof. exact independent_iff_restored. Qed.
Print Assumptions C17_independent_iff_restored.

(* processing the same input twice gives identical results *)
Theorem C17_twice_same : forall (R : cell -> bool) (init : state) (h : list ev) (st : state) (o : list cv),
  process R init init h = Some (st, o) -> restored R init st -> result_after R init [h] h = Some o.
Proof. exact twice_same. Qed.
Print Assumptions C17_twice_same.

(* "written only in balanced pairs" is sufficient, whatever the initial value: +d ... -d on counters, append ... pop on stacks *)
Theorem C17_balanced_isolated : forall (R : cell -> bool) (init : state) (hs : list (list ev)) (st : state),
  run_seq R init init hs = Some st ->
  (forall c, In c (written (concat hs)) ->
     R c = true \/ (exists z, init c = CI z /\ balanced_int c (concat hs)) \/ (exists l, init c = CS l /\ balanced_stack c (concat hs))) ->
  independent R init hs.
Proof. exact balanced_isolated. Qed.
Print Assumptions C17_balanced_isolated.

(* ... and for a counter that is only incremented and decremented it is also necessary: restored <=> the increments cancel *)
Theorem C17_counter_restored_iff : forall (c : cell) (h : list ev) (z : Z),
  only_adds c h = true -> (replay c h (CI z) = Some (CI z) <-> sum_adds c h = 0).
Proof. exact counter_restored_iff. Qed.
Print Assumptions C17_counter_restored_iff.

(* M2 (balanced_cells).  Every completed well-formed document -- lists, $..$, $$..$$, \mbox inside formulas with text and formulas
   inside, nested to any depth, macros reading arguments, parameter assignments, \ifthenelse -- is processed to completion by the
   transcription of List.invoke / MathShift.invoke / BoxCommand.parse / ParameterCommand.enable, disable, invoke / ifthenelse.invoke
   and leaves _enablelevel, enabled, List.depth, MathShift.inEnv and the two disableMath switches exactly as it found them. *)
Theorem C17_balanced_cells : forall (K : cells) (d : doc) (st : state) (l dp : Z) (env : list Z),
  cells_distinct K = true -> wf_doc K d = true -> okst K st l dp env -> text_top env ->
  exists st' h o, run_toks K st (pr_doc d) 0 false = Some (st', h, o) /\ okst K st' l dp env /\ exec st h = Some (st', o).
Proof. exact balanced_cells. Qed.
Print Assumptions C17_balanced_cells.

Theorem C17_balanced_cells_replay : forall (K : cells) (d : doc) (st : state) (l dp : Z) (env : list Z),
  cells_distinct K = true -> wf_doc K d = true -> okst K st l dp env -> text_top env ->
  exists st' h o, run_toks K st (pr_doc d) 0 false = Some (st', h, o) /\
    forall c, is_tracker K c = true -> replay c h (st c) = Some (st c).
Proof. exact balanced_cells_replay. Qed.
Print Assumptions C17_balanced_cells_replay.

(* The property for the code as fixed (Context.__init__ resets the trackers, registers live on per-document classes): when every
   tracker and every value cell the documents write starts afresh with each document, ANY documents -- ill-formed ones, ones that end
   inside lists, formulas or boxes -- leave the interpreter such that every later document is processed as if it were alone. *)
Theorem C17_reset_absorbs : forall (K : cells) (R : cell -> bool) (init : state) (ds : list (list tok)) (st : state),
  (forall c, is_tracker K c = true -> R c = true) ->
  (forall ts c, In ts ds -> In c (toks_cells ts) -> R c = true) ->
  run_docs K R init init ds = Some st ->
  restored R init st /\ forall B, toks_after K R init ds B = toks_alone K R init B.
Proof. exact reset_absorbs. Qed.
Print Assumptions C17_reset_absorbs.

(* The full-strength statement "for every reset policy, completed well-formed documents leave nothing behind" is FALSE (M3 below:
   register values and class patches survive).  Proved under the explicit exclusion: the value cells the documents assign are
   re-created per document. *)
Theorem C17_isolation_partial : forall (K : cells) (R : cell -> bool) (init : state) (l dp : Z) (env : list Z) (ds : list doc),
  cells_distinct K = true -> okst K init l dp env -> text_top env ->
  (forall d, In d ds -> wf_doc K d = true) ->
  (forall d c, In d ds -> In c (toks_cells (pr_doc d)) -> R c = true) ->
  exists st, run_docs K R init init (map pr_doc ds) = Some st /\ restored R init st /\
             forall B, toks_after K R init (map pr_doc ds) B = toks_alone K R init B.
Proof. exact isolation_partial. Qed.
Print Assumptions C17_isolation_partial.

(* M3 (leaks_refuted).  With nothing reset (the tree before the fixes), one completed document is enough to change the result of the
   next one: a register assignment, a class patched by a document class, a list left open, a formula left open. *)
Theorem C17_leaks_refuted :
  (toks_after K0 R0 init0 [[TParam parindent 5]] [TRead parindent] <> toks_alone K0 R0 init0 [TRead parindent]) /\
  (toks_after K0 R0 init0 [[TPatch theindex_level 1]] [TRead theindex_level] <> toks_alone K0 R0 init0 [TRead theindex_level]) /\
  (toks_after K0 R0 init0 [[TListBegin; TItem; TChar]] [TListBegin; TItem; TListEnd] <> toks_alone K0 R0 init0 [TListBegin; TItem; TListEnd]) /\
  (toks_after K0 R0 init0 [[TShift; TChar]] [TShift; TChar; TShift; TRead (k_inenv K0)]
     <> toks_alone K0 R0 init0 [TShift; TChar; TShift; TRead (k_inenv K0)]) /\
  (forall ts, In ts [[TParam parindent 5]; [TPatch theindex_level 1]; [TListBegin; TItem; TChar]; [TShift; TChar]] ->
     run_docs K0 R0 init0 init0 [ts] <> None).
Proof. exact leaks_refuted. Qed.
Print Assumptions C17_leaks_refuted.

(* Obligations re-proved against the table regenerated from the source on every run: every cell that some statement under plasTeX/
   writes is isolated by something the translator found in the source (reset in Context.__init__, class re-created per document,
   memo of the class definition, renderer phase, process environment) or is a recorded leak of notes/C17/known.json; and M1
   instantiated at the table: histories that write only cells that start afresh with every document are isolated. *)
Theorem C17_gen_table_accounted : gen_accounted = true /\ ids_increasing (-1) gen_cells = true.
Proof. exact gen_table_ok. Qed.
Print Assumptions C17_gen_table_accounted.

Theorem C17_gen_isolated : forall (init : state) (hs : list (list ev)) (st : state),
  run_seq gen_R init init hs = Some st ->
  (forall c, In c (written (concat hs)) -> gen_R c = true) ->
  independent gen_R init hs.
Proof. exact gen_isolated. Qed.
Print Assumptions C17_gen_isolated.

(* non-vacuity: a document of depth 3 (list in box in display formula in list, with a parameter assignment and an \ifthenelse) meets the
   premises of M2 and is processed to completion; the fixed policy absorbs the four leaking sequences of M3 *)
Example C17_nonvacuous :
  let d := DList (DDisplay (MSym (MBox (DList (DParam parindent 5 (DMath (MSym MEnd) (DIfthen DNil))) (DMacro 2 DNil)) MEnd)) DNil) (DChar DNil) in
  cells_distinct K0 = true /\ wf_doc K0 d = true /\ okst K0 init0 0 0 [] /\
  (exists r, run_toks K0 init0 (pr_doc d) 0 false = Some r) /\
  toks_after K0 R1 init0 [[TParam parindent 5]; [TListBegin; TItem; TChar]; [TShift; TChar]]
             [TShift; TChar; TShift; TListBegin; TItem; TListEnd; TRead parindent; TRead (k_inenv K0)]
  = toks_alone K0 R1 init0 [TShift; TChar; TShift; TListBegin; TItem; TListEnd; TRead parindent; TRead (k_inenv K0)].
Proof.
  cbv zeta. split; [vm_compute; reflexivity|]. split; [vm_compute; reflexivity|].
  split; [repeat split|]. split; [vm_compute; eexists; reflexivity | exact leaks_absorbed].
Qed.
