(* C08 -- Counters and automatic numbers follow LaTeX's numbering rules.
   This file contains only statements closed by [exact] and their assumptions. *)
From Coq Require Import List ZArith Bool.
Import ListNotations.
From Verif Require Import Val CounterSyntax FormatParse ClassCounters Counters NumberingSpec CountersProofs FormatParseProofs NumberingProofs ItemsProofs.
Local Open Scope Z_scope.

(* M1: stepping a counter resets every counter declared within it, transitively -- for every store (a dict: unique keys) whose
   reset graph is acyclic and every counter name, present or not: the recursion ends, the counter is one more, every counter
   below it (any number of "within" declarations away) is 0, every other counter keeps its value, nothing is added (but the
   counter itself), removed or re-parented. *)
Theorem C08_step_resets_transitively :
  forall st c, NoDup (keys st) -> acyclic st ->
  exists st', stepcounter c st = Some st' /\
    shape st' = shape (ensure c st) /\
    value_of c st' = value_of c st + 1 /\
    (forall n, desc (parent st) n c -> value_of n st' = 0) /\
    (forall n, n <> c -> ~ desc (parent st) n c -> value_of n st' = value_of n st) /\
    (forall n, n <> c -> value_of n st' = 0 \/ value_of n st' = value_of n st).
Proof. exact step_resets_transitively. Qed.
Print Assumptions C08_step_resets_transitively.

(* the reset graph of the three shipped classes (regenerated from newcounter(...) calls on every run) is acyclic, so stepping any
   counter ends *)
Theorem C08_class_counters_wellformed :
  forall cls, NoDup (keys (m_counters (init_state cls))) /\ acyclic (m_counters (init_state cls)).
Proof. exact class_counters_wellformed. Qed.
Print Assumptions C08_class_counters_wellformed.

(* ... and on a cyclic declaration (\newcounter{a}[a]) the recursion does not end: Python's RecursionError *)
Theorem C08_reset_cycle_refuted : exists st c, NoDup (keys st) /\ stepcounter c st = None.
Proof. exact reset_cycle_refuted. Qed.

(* \setcounter / \addtocounter assign from that point on and reset nothing *)
Theorem C08_setcounter :
  forall st c v, shape (setcounter c v st) = shape (ensure c st) /\ value_of c (setcounter c v st) = v /\
                 forall n, n <> c -> value_of n (setcounter c v st) = value_of n st.
Proof. exact setcounter_spec. Qed.
Theorem C08_addtocounter :
  forall st c v, shape (addtocounter c v st) = shape (ensure c st) /\ value_of c (addtocounter c v st) = value_of c st + v /\
                 forall n, n <> c -> value_of n (addtocounter c v st) = value_of n st.
Proof. exact addtocounter_spec. Qed.

(* M2: representations.  numToRoman returns, for every integer, the thousands as M's followed by the standard table entry of
   each decimal digit; read back by the subtractive rule this numeral is the number (every n >= 1, unbounded). *)
Theorem C08_roman_correct :
  forall n, 1 <= n -> exists s, num_to_roman n = Some s /\ roman_value s = Some n /\ s = spec_roman n.
Proof. exact roman_correct. Qed.
Print Assumptions C08_roman_correct.

Theorem C08_roman_lowercase :
  forall v, counter_repr RRoman v = Ok (spec_roman v) /\ counter_repr Rroman v = Ok (map lower_c (spec_roman v)).
Proof. exact counter_Roman_roman. Qed.

(* str(int) read back as a decimal numeral is the value, for every integer *)
Theorem C08_arabic_correct : forall z, dec_value (arabic z) = Some z.
Proof. exact arabic_correct. Qed.
Print Assumptions C08_arabic_correct.

(* Alph / alph: the v-th letter, 1..26 *)
Theorem C08_Alph_correct :
  forall v, 1 <= v <= 26 -> counter_repr RAlph v = Ok [64 + v] /\ counter_repr Ralph v = Ok [96 + v].
Proof. exact Alph_correct. Qed.

(* every representation the Spec defines is the one the Model computes *)
Theorem C08_counter_repr_spec : forall r v s, spec_repr r v = Some s -> counter_repr r v = Ok s.
Proof. exact counter_repr_spec. Qed.

(* M3 (proved part).  For both classes, every configured depth and EVERY event list (any length, order and nesting) on which the
   strict Spec -- LaTeX's numbering rules, Model/NumberingSpec.v -- is defined: plasTeX's numbering neither raises nor loops, the
   numbered objects carry, in document order, exactly the numbers LaTeX gives them, and every counter LaTeX has ends with
   LaTeX's value.  [numbering_correct] is spelled out in Model/NumberingSpec.v.  The strict Spec is the Spec restricted
   ([C08_spec_strict_sub]) to documents without the two recorded known findings. *)
Theorem C08_number_doc_spec_partial : forall cls depth es, numbering_correct true cls depth es.
Proof. exact number_doc_spec_partial. Qed.
Print Assumptions C08_number_doc_spec_partial.

Theorem C08_spec_strict_sub :
  forall cls depth es r, spec_doc true cls depth es = Some r -> spec_doc false cls depth es = Some r.
Proof. exact spec_strict_sub. Qed.

(* M3 at full strength  --  forall cls depth es, numbering_correct false cls depth es  --  is refuted by the faithful Model on the
   two known findings (both replayed on the real code by the harness):
   lists nested five deep (four itemize and an enumerate: valid LaTeX), and an equation between \appendix and the first
   appendix chapter in the book class. *)
Theorem C08_number_doc_spec_refuted_deep_lists : ~ numbering_correct false 0 2 deep_list_doc2.
Proof. exact number_doc_spec_refuted_deep_lists. Qed.
Theorem C08_number_doc_spec_refuted_appendix : ~ numbering_correct false 1 2 [EAppendix; EEquation].
Proof. exact number_doc_spec_refuted_appendix. Qed.

(* M4: a starred sectioning command and one deeper than the numbering depth print no number and leave the interpreter state
   untouched, so that everything after them is numbered as if they were not there (any continuation es, any state) *)
Theorem C08_starred_no_effect :
  forall cls depth macro level c es ms acc, lookup_name macro gen_sec_table = Some (level, c) ->
    run_events cls depth (ESec macro true :: es) ms acc = run_events cls depth es ms (acc ++ [(k_sec, None)]).
Proof. exact starred_no_effect. Qed.
Theorem C08_too_deep_no_effect :
  forall cls depth macro level c es ms acc, lookup_name macro gen_sec_table = Some (level, c) -> numbered depth level = false ->
    run_events cls depth (ESec macro false :: es) ms acc = run_events cls depth es ms (acc ++ [(k_sec, None)]).
Proof. exact too_deep_no_effect. Qed.
Theorem C08_run_events_acc :
  forall cls depth es ms acc,
    run_events cls depth es ms acc = match run_events cls depth es ms [] with Ok (ms', o) => Ok (ms', acc ++ o) | Crash k => Crash k | Fuel => Fuel end.
Proof. intros cls depth es ms acc. rewrite run_events_acc. destruct (run_events cls depth es ms []) as [[? ?]| |]; reflexivity. Qed.

(* M4: a row with \nonumber inside an eqnarray prints no number; state and the number pending for the next row are unchanged
   (every store with unique keys and acyclic reset graph in which the counters within equation are 0, as they are after the
   step done by \begin{eqnarray}) *)
Theorem C08_nonumber_row_no_effect :
  forall depth ms t b' rest acc,
    NoDup (keys (m_counters ms)) -> acyclic (m_counters ms) -> In gen_equation_counter (keys (m_counters ms)) ->
    (forall n, desc (parent (m_counters ms)) n gen_equation_counter -> value_of n (m_counters ms) = 0) ->
    the_of ms gen_equation_counter = Ok t ->
    eqn_rows depth (true :: b' :: rest) (Some t) ms acc = eqn_rows depth (b' :: rest) (Some t) ms (acc ++ [(k_row, None)]).
Proof. exact nonumber_row_no_effect. Qed.
Print Assumptions C08_nonumber_row_no_effect.

(* M5: for every well-nested sequence of \begin{enumerate} / \item / \end{enumerate} (any length; nesting up to four), in both
   classes and at every depth setting, the items are numbered 1, 2, 3, ... within their list, starting again from 1 in every
   nested list ([expected] keeps one running count per open list and opens a list at 0) *)
Theorem C08_enumerate_items_count :
  forall cls depth ls nums, (cls = 0 \/ cls = 1) -> dmin cls <= depth -> expected ls [] = Some nums ->
    exists ms, number_doc cls depth (map lev_event ls) = Ok (ms, item_outs nums).
Proof. exact enumerate_items_count. Qed.
Print Assumptions C08_enumerate_items_count.

(* M5, general form: in EVERY document of the strict domain -- all the constructs, in any order and nesting, itemize and
   enumerate mixed, sections, equations, theorems, \setcounter on other counters ... in between -- that does not operate on
   enumi..enumiv explicitly, the item numbers plasTeX prints are, in document order, what the list structure alone prescribes
   ([expected_items]: one running count per open list, a list opens at 0): the k-th item of every enumerate carries k, and
   every nested list starts again from 1.  (Items of other lists: no claim on their number.) *)
Theorem C08_enumerate_items_general :
  forall cls depth es ss souts, spec_doc true cls depth es = Some (ss, souts) -> forallb no_enum_op es = true ->
    exists ms mo, number_doc cls depth es = Ok (ms, mo) /\ Forall2 item_ok (expected_items es []) (item_refs mo).
Proof. exact enumerate_items_general. Qed.
Print Assumptions C08_enumerate_items_general.

Example C08_items_nonvacuous :
  let doc := [ESec n_section false; EBeginList true; EItem; EEquation; EItem; EBeginList false; EItem; EBeginList true; EItem;
              ESet n_section 7; EItem; EEndList; EEndList; EItem; EEndList; ECaption false; EBeginList true; EItem; EEndList] in
  (exists ss o, spec_doc true 0 2 doc = Some (ss, o)) /\ forallb no_enum_op doc = true /\
  expected_items doc [] = [Some 1; Some 2; None; Some 1; Some 2; Some 3; Some 1].
Proof. split; [vm_compute; eauto|]. split; vm_compute; reflexivity. Qed.

(* The format strings of \the<counter> macros.  TheCounter.invoke's two regular-expression passes are part of the Model
   (Model/FormatParse.v: $name -> ${name}; then ${ name }, ${name.attr} references, everything else literal text).
   Parsing is a left inverse of printing, for EVERY well-formed format of any length: literal pieces non-empty, without "$" and
   not adjacent, references with a non-empty \w+ name and one of the six Counter properties (or none). *)
Theorem C08_parse_print_roundtrip : forall f, wf_fmt f -> parse_format (print_fmt f) = f.
Proof. exact parse_print_roundtrip. Qed.
Print Assumptions C08_parse_print_roundtrip.

(* the short form: "$name" followed by a non-word character (or the end) is "${name}" *)
Theorem C08_dollar_short_form :
  forall w r, word_name w -> starts_word r = false -> parse_format (36 :: w ++ r) = parse_format (36 :: 123 :: w ++ 125 :: r).
Proof. exact dollar_short_form. Qed.

(* the strings built at run time: Context.newcounter's '${%s}' % name and \newtheorem's '${the%s}.${%s}' % (within, name)
   parse, for all \w+ names, to the own-counter reference and to \the<within> "." own counter *)
Theorem C08_default_format_parse : forall nm, word_name nm -> parse_format (default_format_string nm) = [PRef nm None].
Proof. exact default_format_parse. Qed.
Theorem C08_theorem_format_parse :
  forall w nm, word_name w -> word_name nm ->
    parse_format (theorem_format_string w nm) = [PRef ([116; 104; 101] ++ w) None; PLit [46]; PRef nm None].
Proof. exact theorem_format_parse. Qed.

(* every format string of article / report / book and of their \appendix, regenerated from the source on every run together
   with its parse by Python's re, is parsed to the same thing by the Model's scanner; and every \the<counter> of a freshly
   loaded class carries the parse of one of these strings *)
Theorem C08_class_formats_parse : forall s f, In (s, f) gen_format_strings -> parse_format s = f.
Proof. exact class_formats_parse. Qed.
Theorem C08_class_thes_from_source :
  forall cls k f t, (cls = 0 \/ cls = 1 \/ cls = 2) -> In (k, (f, t)) (m_thes (init_state cls)) ->
    exists s, In (s, f) gen_format_strings /\ parse_format s = f.
Proof. exact class_thes_from_source. Qed.

Example C08_format_nonvacuous :
  (* "${thesection}.${thm}-$x ${ eq.Roman }$" *)
  wf_fmt [PRef [116; 104; 101; 115] None; PLit [46]; PRef [116; 104; 109] None; PLit [45]; PRef [120] None; PLit [32];
          PRef [101; 113] (Some RRoman); PLit [33]] /\
  parse_format [36; 120; 46; 36; 123; 32; 121; 46; 97; 108; 112; 104; 32; 125; 36; 123; 122; 46; 125; 36] =
    [PRef [120] None; PLit [46]; PRef [121] (Some Ralph); PLit [36; 123; 122; 46; 125; 36]] /\
  word_name [116; 104; 109; 50] /\ gen_format_strings <> [].
Proof.
  split; [cbn; repeat split; try discriminate; try (intros [H|[]]; discriminate); exact I|].
  split; [vm_compute; reflexivity|]. split; [split; [discriminate | reflexivity] | discriminate].
Qed.

(* non-vacuity *)
Example C08_nonvacuous :
  num_to_roman 1994 = Some [77; 67; 77; 88; 67; 73; 86] /\ arabic (-45) = [45; 52; 53] /\
  (let st := m_counters (init_state 1) in
   desc (parent st) [115; 117; 98; 115; 101; 99; 116; 105; 111; 110] [99; 104; 97; 112; 116; 101; 114]) /\
  (* a book document inside the strict domain mixing sections, a theorem numbered within section, an eqnarray with \nonumber,
     \setcounter, nested lists and \appendix *)
  (let doc := [ESec n_chapter false; ENewTheorem [116; 104; 109] None (Some n_section) false; ESec n_section false;
               EThm [116; 104; 109]; EEqnarray [false; true; false]; ESet n_section 4; ESec n_section true; ESec n_section false;
               EBeginList true; EItem; EBeginList false; EItem; EEndList; EItem; EEndList; EAppendix; ESec n_chapter false; EEquation] in
   exists ss o, spec_doc true 1 2 doc = Some (ss, o) /\ length o = 13%nat) /\
  expected [LBegin; LItem; LItem; LBegin; LItem; LEnd; LItem; LEnd] [] = Some [1; 2; 1; 3].
Proof.
  split; [vm_compute; reflexivity|]. split; [vm_compute; reflexivity|]. split.
  - eapply desc_step; [vm_compute; reflexivity|]. apply desc_parent. vm_compute. reflexivity.
  - split; [vm_compute; eexists; eexists; split; reflexivity | vm_compute; reflexivity].
Qed.
