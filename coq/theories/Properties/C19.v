(* C19 — ifthen tests evaluate as the boolean expression they spell.
   This file contains only statements closed by [exact] and their assumptions. *)
From Coq Require Import List ZArith Bool.
Import ListNotations.
From Verif Require Import Val Ifthen IfthenProofs.

(* M1: for every expression tree (unbounded depth, every placement of \not, redundant parentheses,
   left-associated \and/\or), with blanks anywhere, the evaluator neither raises nor returns anything
   but the denotation of the tree. *)
Theorem C19_evaluate_denote :
  forall (e : expr) (ts : list tok), strip_spaces ts = pr_e e -> evaluate ts = Some (den_e e).
Proof. intros e ts. exact (evaluate_denote ts e). Qed.
Print Assumptions C19_evaluate_denote.

(* M2: exactly the then-branch when true, exactly the else-branch otherwise *)
Theorem C19_then_else :
  forall (A : Type) (e : expr) (ts : list tok) (thn els : A),
    strip_spaces ts = pr_e e -> ifthenelse ts thn els = Some (if den_e e then thn else els).
Proof. intros A e ts thn els. exact (then_else ts e thn els). Qed.
Print Assumptions C19_then_else.

(* M3: \whiledo appends its body exactly as many times as the test stays true *)
Theorem C19_whiledo_count :
  forall (S : Type) (test : S -> option bool) (body : S -> S) (n fuel : nat) (s : S),
    (forall j, (j < n)%nat -> test (iter body j s) = Some true) ->
    test (iter body n s) = Some false -> (n < fuel)%nat ->
    whiledo test body fuel 0 s = WDone n (iter body n s).
Proof. intros S test body. exact (whiledo_count test body). Qed.
Print Assumptions C19_whiledo_count.

Theorem C19_whiledo_sound :
  forall (S : Type) (test : S -> option bool) (body : S -> S) (fuel : nat) (s : S) (n : nat) (s' : S),
    whiledo test body fuel 0 s = WDone n s' ->
    exists m, n = m /\ s' = iter body m s /\ test (iter body m s) = Some false /\
              forall j, (j < m)%nat -> test (iter body j s) = Some true.
Proof. intros S test body fuel s n s' H. exact (whiledo_sound test body fuel 0 s n s' H). Qed.
Print Assumptions C19_whiledo_sound.

(* M4: atoms *)
Theorem C19_isodd : forall z, isodd_val z = Z.odd z.
Proof. exact isodd_val_spec. Qed.
Theorem C19_equal : forall a b, equal_val a b = true <-> a = b.
Proof. exact equal_val_spec. Qed.

(* non-vacuity: the premises are met by a non-trivial tree, and the evaluator can fail on ill-formed input *)
Example C19_nonvacuous :
  let e := EAnd (ETerm (TAtom (ACmp 1 Lt 2))) (TNeg (TAtom (AParen (EOr (ETerm (TNeg (TAtom (ACmp 3 Lt 2)))) (TAtom (ABool false)))))) in
  strip_spaces (TSpace :: pr_e e) = pr_e e /\ evaluate (pr_e e) = Some false /\ evaluate [TRp] = None.
Proof. vm_compute. repeat split. Qed.
