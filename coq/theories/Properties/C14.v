(* C14 -- Every internal link in the rendered output lands on an existing target.
   This file contains only statements closed by [exact] and their assumptions.
   Model: Model/Render.v -- Renderable.url, SectionUtils.links / allSections / documentSections / tableofcontents, and the rendering
   Model shared with C13.  Spec definitions (Proofs/RenderProofs.v):
     elems_ctx [] doc        every element node of the document with the list of its ancestors (parentNode chain), document order
     first_file ch           the file a node lies in, found from below: the name of the nearest ancestor that has a file
     body_nodes chp a cs     the nodes whose template output is part of the body of the file of unit (a, cs): found from above, not
                             entering units with their own file nor nodes whose template does not show their content
     own_notes               the footnotes that belong to a file (C13)
     producers / reached     the units whose files are written
   Template behaviour enters through hypotheses only: tmpl_own (what a node template prints by itself, [pre a], is in its output),
   tmpl_keeps (a template that shows its content keeps it), layout_keeps (the layout keeps the content and prints [lpre f] and the
   text of each footnote f of the file).  C14_std_templates shows the table of the shipped templates is an instance; that Jinja2 /
   simpleTAL behave like the table is tested by the correspondence on every run.
   The identifiers the layout templates print on their own (footnotes, doc_title, toc-toggle, index group letters) are not modelled;
   the output oracle of the correspondence checks uniqueness on every output file including those. *)
From Coq Require Import List ZArith NArith Bool.
Import ListNotations.
From Verif Require Import Val Filenames Render RenderProofs RenderProofs2.
Local Open Scope Z_scope.

(* Renderable.url in closed form, for every node of every document with distinct node identities: a node with a file -> base + its
   file name; any other node -> base + name of the nearest ancestor that has a file + '#' + its identifier. *)
Theorem C14_url_spec :
  forall fmap doc base ch a cs,
    NoDup (sers doc) -> In (ch, a, cs) (elems_ctx [] doc) ->
    url fmap doc base (a_ser a) =
      if has_file fmap a then Some (url_prefix base ++ fname fmap a)
      else match a_id a with Some i => Some (url_prefix base ++ first_file fmap ch ++ [35] ++ i) | None => None end.
Proof. exact url_spec. Qed.
Print Assumptions C14_url_spec.

(* M1: the file named by url n is the file n is rendered in.  For every unit (a, cs) with a file and every node a' rendered in the body
   of that file (body_nodes is computed from above, url walks the parentNode chain from below): url a' = base + file of the unit + '#' +
   id a', and everything the template of a' prints by itself -- in particular the element carrying id a' -- is in the content of that
   very file. *)
Theorem C14_url_target_exists :
  forall fmap tmpl layout shows pre lpre,
    tmpl_own tmpl pre -> tmpl_keeps tmpl shows -> layout_keeps layout lpre ->
    forall doc base fnotes chp a cs ch' a',
      NoDup (sers doc) -> names_nonempty fmap -> In (chp, a, cs) (elems_ctx [] doc) -> has_file fmap a = true ->
      In (ch', a') (body_nodes fmap shows chp a cs) ->
      url fmap doc base (a_ser a') =
        match a_id a' with Some i => Some (url_prefix base ++ fname fmap a ++ [35] ++ i) | None => None end /\
      (forall it, In it (pre a') -> In it (content fmap tmpl layout doc fnotes a cs)).
Proof. exact rendered_in_file. Qed.
Print Assumptions C14_url_target_exists.

(* ... the unit itself: its url is its own file, which holds what its template prints *)
Theorem C14_unit_in_own_file :
  forall fmap tmpl layout pre lpre,
    tmpl_own tmpl pre -> layout_keeps layout lpre ->
    forall doc base fnotes chp a cs,
      NoDup (sers doc) -> In (chp, a, cs) (elems_ctx [] doc) -> has_file fmap a = true ->
      url fmap doc base (a_ser a) = Some (url_prefix base ++ fname fmap a) /\
      (forall it, In it (pre a) -> In it (content fmap tmpl layout doc fnotes a cs)).
Proof. exact unit_in_file. Qed.
Print Assumptions C14_unit_in_own_file.

(* ... the footnotes: the element the layout prints for a footnote of the file (<li id=...>, the target of the footnote mark) and the
   footnote's text are in the file of the section-level unit that owns the footnote *)
Theorem C14_footnote_in_file :
  forall fmap tmpl layout is_note lpre,
    layout_keeps layout lpre ->
    forall doc fnotes chp a cs fa fcs it,
      NoDup (sers doc) -> notes_listed is_note doc fnotes -> In (chp, a, cs) (elems_ctx [] doc) -> is_owner fmap a = true ->
      In (fa, fcs) (flat_map (own_notes fmap is_note) cs) ->
      In it (lpre fa) \/ In it (str_kids fmap tmpl fa fcs) ->
      In it (content fmap tmpl layout doc fnotes a cs).
Proof. exact note_in_file. Qed.
Print Assumptions C14_footnote_in_file.

(* ... and that file exists: the file of every unit all of whose ancestors show their content is written, under the unit's name *)
Theorem C14_file_is_written :
  forall fmap tmpl layout shows ra rcs fnotes c ch a cs,
    In c rcs -> vis ra c = true -> In (ch, a, cs) (elems_ctx [ra] c) -> has_file fmap a = true ->
    (forall k q, nth_error ch k = Some q -> (k < length ch - 1)%nat -> shows q = true /\ a_isdoc q = false) ->
    In (fname fmap a, content fmap tmpl layout (E ra rcs) fnotes a cs) (render fmap tmpl layout shows (E ra rcs) fnotes).
Proof.
  intros fmap tmpl layout shows ra rcs fnotes c ch a cs Hc Hv Hin EF HS.
  apply (producer_written fmap tmpl layout shows ra rcs fnotes (a, cs)). apply in_flat_map. exists c. split; [exact Hc|]. rewrite Hv.
  assert (L : (length [ra] <= length ch)%nat).
  { clear - Hin. revert Hin. generalize [ra]. revert ch. induction c as [w|a1 cs1 IH] using node_ind2; intros ch ch0 H; [destruct H|].
    cbn [elems_ctx] in H. destruct H as [H|H]; [inversion H; subst; apply Nat.le_refl|]. apply in_flat_map in H. destruct H as [c1 [Hc1 H]].
    rewrite Forall_forall in IH. specialize (IH _ Hc1 _ _ H). cbn [length] in IH. apply Nat.le_trans with (S (length ch0)); [apply Nat.le_succ_diag_r|exact IH]. }
  exact (reached fmap shows c [ra] ch a cs Hin EF HS L).
Qed.
Print Assumptions C14_file_is_written.

(* M2: identifiers are unique within each file.  For every document whose nodes carry pairwise different identifiers (distinct labels,
   C09; fresh generated identifiers), every assignment of files and every unit (a, cs): no identifier occurs twice in the content of the
   unit's file -- for all templates that print, per node, at most the node's own identifier once (ids_tmpl, ids_layout, own_id_only),
   and whose footnote templates do not show the footnote text in place. *)
Theorem C14_ids_unique_per_file_partial :
  forall fmap tmpl layout shows is_note pre lpre,
    ids_tmpl tmpl shows pre -> ids_layout layout lpre -> own_id_only is_note pre lpre ->
    (forall a, is_note a = true -> shows a = false) ->
    forall doc fnotes ch a cs,
      NoDup (sers doc) -> notes_listed is_note doc fnotes -> In (ch, a, cs) (elems_ctx [] doc) ->
      (forall b, In b (elements (E a cs)) -> a_isdoc b = false) ->
      NoDup (flat_map (fun b => opt_list (a_id b)) (elements doc)) ->
      NoDup (ids (content fmap tmpl layout doc fnotes a cs)).
Proof. exact ids_unique_in_file. Qed.
Print Assumptions C14_ids_unique_per_file_partial.

(* the full statement -- without the hypothesis that the identifiers of the nodes are pairwise different -- is refuted on the faithful
   Model: Macro.id draws generated identifiers (a0000000001, ...) without looking at the labels of the document, so a label that reads
   like a generated identifier can meet the identifier generated for another node of the same file (known finding
   C14-label-equals-generated-id; reproduced on the real renderer by the stream "label-like-generated-id") *)
Theorem C14_ids_unique_per_file_refuted :
  let fm := the_fmap ex_files in
  let e := the_env ex_doc_clash ex_cfg ex_files false in
  NoDup (sers ex_doc_clash) /\ notes_listed std_note ex_doc_clash [3] /\
  In ([ex_docenv; ex_root], ex_sec1_clash, [T 2; E ex_fn [T 3]; T 4]) (elems_ctx [] ex_doc_clash) /\
  ~ NoDup (ids (content fm (std_tmpl e) std_layout ex_doc_clash [3] ex_sec1_clash [T 2; E ex_fn [T 3]; T 4])).
Proof. exact ids_unique_refuted. Qed.
Print Assumptions C14_ids_unique_per_file_refuted.

(* M3: SectionUtils.links chains the file-producing sections in document order: in the list secs of file-producing sections every
   element's "next" is its successor and every element's "prev" its predecessor ... *)
Theorem C14_nav_chain :
  forall fmap doc secs,
    NoDup (map a_ser secs) ->
    (forall s, In s secs -> exists ch cs, locate (a_ser s) [] doc = Some (ch, s, cs) /\
                                          filter (has_file fmap) (document_sections doc s ch) = secs) ->
    forall l1 s t l2, secs = l1 ++ s :: t :: l2 ->
      next_of fmap doc (a_ser s) = Some (a_ser t) /\ prev_of fmap doc (a_ser t) = Some (a_ser s).
Proof. exact nav_chain. Qed.
Print Assumptions C14_nav_chain.

(* ... so following next-links from the start page (the first of them, the document) reaches every one of them ... *)
Theorem C14_nav_reaches_all :
  forall fmap doc secs first rest,
    NoDup (map a_ser secs) ->
    (forall s, In s secs -> exists ch cs, locate (a_ser s) [] doc = Some (ch, s, cs) /\
                                          filter (has_file fmap) (document_sections doc s ch) = secs) ->
    secs = first :: rest ->
    forall t, In t secs -> exists k, iter_next fmap doc k (a_ser first) = Some (a_ser t).
Proof. exact nav_reaches_all. Qed.
Print Assumptions C14_nav_reaches_all.

(* ... and every file-producing unit below a node is among its sections when units are nested directly in one another *)
Theorem C14_files_are_sections :
  forall fmap n, (forall a, In a (elements n) -> a_isdoc a = false) -> direct fmap n ->
    forall a, In a (all_files fmap n) -> In a (all_sections n).
Proof. exact files_are_sections. Qed.
Print Assumptions C14_files_are_sections.

(* M4: with the shipped templates a resolved \ref prints exactly one link: href = url of its target, text = number of its target;
   and the node kinds that can be link targets print an element with their identifier *)
Theorem C14_ref_shows_number :
  forall e a t u,
    a_kind a = K_REF -> a_resolved a = true -> a_targets a = [t] -> e_url e t = Some u ->
    std_pre e a = [ILink u (match e_ref e t with Some r => r | None => [] end)].
Proof. exact std_ref_shows_number. Qed.
Print Assumptions C14_ref_shows_number.

Theorem C14_id_printed :
  forall e a i,
    a_id a = Some i ->
    a_kind a = K_SECTION \/ a_kind a = K_ANCHOR \/ a_kind a = K_BIBITEM \/ a_kind a = K_CAPTION \/ a_kind a = K_INDEXPAGE ->
    In (IId i) (std_pre e a).
Proof. exact std_id_printed. Qed.
Print Assumptions C14_id_printed.

(* the table of the shipped templates is an instance of the hypotheses (they are satisfiable) *)
Theorem C14_std_templates :
  forall e, tmpl_own (std_tmpl e) (std_pre e) /\ tmpl_keeps (std_tmpl e) std_shows /\ layout_keeps std_layout std_lpre /\
            ids_tmpl (std_tmpl e) std_shows (std_pre e) /\ ids_layout std_layout std_lpre /\
            (e_item_ids e = false -> own_id_only std_note (std_pre e) std_lpre).
Proof.
  intro e. exact (conj (std_own e) (conj (std_keeps e) (conj std_lay (conj (std_ids_tmpl e) (conj std_ids_layout (std_own_id_only e)))))).
Qed.
Print Assumptions C14_std_templates.

(* non-vacuity on the document of C13_nonvacuous: \section{t}\label{s1} is s1.html, its footnote is s1.html#f and is rendered in the body
   of s1.html; next-links run index.html -> s1.html -> sect0001.html; the hypotheses of C14_nav_chain / C14_url_target_exists hold *)
Example C14_nonvacuous :
  let fm := the_fmap ex_files in
  let secs := [ex_docenv; ex_sec1; ex_sec2] in
  url fm ex_doc [] 2 = Some ex_s1 /\ url fm ex_doc [] 3 = Some (ex_s1 ++ [35; 102]) /\
  next_of fm ex_doc 1 = Some 2 /\ next_of fm ex_doc 2 = Some 4 /\ next_of fm ex_doc 4 = None /\
  names_nonempty fm /\ NoDup (map a_ser secs) /\
  (forall s, In s secs -> exists ch cs, locate (a_ser s) [] ex_doc = Some (ch, s, cs) /\
                                        filter (has_file fm) (document_sections ex_doc s ch) = secs) /\
  In ([ex_sec1; ex_docenv; ex_root], ex_fn) (body_nodes fm std_shows [ex_docenv; ex_root] ex_sec1 [T 2; E ex_fn [T 3]; T 4]).
Proof. exact ex_links. Qed.

(* ---- added in the deepening round (the theorems above are unchanged) ---- *)

(* M3 for tables of contents.  Model of SectionUtils.tableofcontents / fulltableofcontents / the TableOfContents proxy: [tableofcontents].
   Link kind used: ONLY the top-level entries of the table of contents a page prints for itself (obj.tableofcontents on obj's page:
   the XHTML default layout on every page, the HTML5 default layout when localtoc-level admits the page) -- no next-links.
   For every document, every assignment of files, toc-non-files on or off and every toc-depth >= 1: from a unit (a, cs) every
   file-producing section below it is reached by following such entries, provided a subsection that contains a file-producing section
   has a file itself ([closed]: true when files are assigned by level, C13_assignment, because a section only contains deeper levels).
   For a layout that prints only the document's table on every page (HTML5 default) the entries reach the sections nested at most
   toc-depth deep; the remaining files are reached by next-links alone (C14_nav_reaches_all), which the HTML5 layout prints whenever
   links.next has a url.  The XHTML layout tests links/next itself, which is false for a next section without content; there the
   own-page tables of this theorem do the work. *)
Theorem C14_toc_reaches_all :
  forall fmap doc nonfiles depth,
    NoDup (sers doc) -> 1 <= depth ->
    forall n ch a cs, n = E a cs -> In (ch, a, cs) (elems_ctx [] doc) -> closed fmap n ->
      forall b, In b (secfiles fmap n) -> toc_reach fmap doc nonfiles depth (a_ser a) (a_ser b).
Proof. exact toc_reaches_all. Qed.
Print Assumptions C14_toc_reaches_all.

(* the step used above: with toc-depth >= 1 a node's table of contents lists every direct subsection that has a file *)
Theorem C14_toc_lists_children :
  forall fmap nonfiles depth cs c b bcs,
    1 <= depth -> In c cs -> c = E b bcs -> is_sub c = true -> has_file fmap b = true ->
    In (a_ser b) (map toc_ser (tableofcontents fmap nonfiles depth cs)).
Proof. exact toc_lists_children. Qed.
Print Assumptions C14_toc_lists_children.

(* toc targets exist: every entry of every table of contents, at every nesting level, for every toc-depth: it is a section-level node of
   the document; with toc-non-files off it has a file of its own and its url is base + that file's name (which is written:
   C14_file_is_written); with toc-non-files on its url is given by C14_url_spec / C14_url_target_exists like any other node's *)
Theorem C14_toc_targets_exist :
  forall fmap doc base nonfiles depth ch a cs s,
    NoDup (sers doc) -> In (ch, a, cs) (elems_ctx [] doc) ->
    In s (flat_map toc_all (tableofcontents fmap nonfiles depth cs)) ->
    exists ch' b bcs, In (ch', b, bcs) (elems_ctx [] doc) /\ a_ser b = s /\ a_level b < ENDSECTIONS_LEVEL /\
      (nonfiles = false -> has_file fmap b = true /\ url fmap doc base s = Some (url_prefix base ++ fname fmap b)).
Proof. exact toc_targets_exist. Qed.
Print Assumptions C14_toc_targets_exist.

Example C14_toc_nonvacuous :
  let fm := the_fmap ex_files in
  toc_of fm ex_doc false 3 1 = [TocEntry 2 []; TocEntry 4 []] /\
  closed fm (E ex_docenv [T 1; E ex_sec1 [T 2; E ex_fn [T 3]; T 4]; E ex_sec2 [T 5]]) /\
  map a_ser (secfiles fm (E ex_docenv [T 1; E ex_sec1 [T 2; E ex_fn [T 3]; T 4]; E ex_sec2 [T 5]])) = [1; 2; 4].
Proof. exact ex_toc. Qed.

(* ---- added in the second deepening round ---- *)

(* M3 in final form (the bookkeeping hypothesis of C14_nav_reaches_all is proved): in every document with distinct node identities, from
   the document-level unit d -- the start page -- the next-links of SectionUtils.links reach every file-producing section of the document.
   The only assumption on the document: d is the only node of level DOCUMENT_LEVEL at or below itself. *)
Theorem C14_nav_reaches_all_doc :
  forall fmap doc chd d dcs,
    NoDup (sers doc) -> In (chd, d, dcs) (elems_ctx [] doc) -> a_level d = DOCUMENT_LEVEL ->
    (forall b, In b (flat_map elements dcs) -> a_level b <> DOCUMENT_LEVEL) -> has_file fmap d = true ->
    forall t, In t (filter (has_file fmap) (all_sections (E d dcs))) -> exists k, iter_next fmap doc k (a_ser d) = Some (a_ser t).
Proof. exact nav_reaches_all_doc. Qed.
Print Assumptions C14_nav_reaches_all_doc.

(* C14_toc_reaches_all with its hypothesis [closed] proved for the assignment the Model computes: whenever the assignment succeeds, for every
   toc-depth >= 1 and every unit whose sections only contain deeper levels ([nested]: what SectionUtils.digest builds), own-page table-of-contents
   entries reach every file-producing section below the unit *)
Theorem C14_toc_reaches_all_assigned :
  forall c doc st files nonfiles depth ch a cs,
    assign c doc = Some (AOk st files) -> NoDup (sers doc) -> ext (r_fc c) <> [] -> 1 <= depth ->
    In (ch, a, cs) (elems_ctx [] doc) -> nested (E a cs) ->
    forall b, In b (secfiles (the_fmap files) (E a cs)) -> toc_reach (the_fmap files) doc nonfiles depth (a_ser a) (a_ser b).
Proof. exact toc_reaches_all_assigned. Qed.
Print Assumptions C14_toc_reaches_all_assigned.

(* the hypothesis names_nonempty of C14_url_target_exists holds for the assignment the Model computes (every name carries the extension) *)
Theorem C14_assigned_names_nonempty :
  forall c doc st files, assign c doc = Some (AOk st files) -> ext (r_fc c) <> [] -> names_nonempty (the_fmap files).
Proof. exact assigned_nonempty. Qed.
Print Assumptions C14_assigned_names_nonempty.

Example C14_assigned_nonvacuous :
  NoDup (sers ex_doc) /\ ext (r_fc ex_cfg) <> [] /\ DOCUMENT_LEVEL <= eff_level ex_cfg /\ eff_level ex_cfg < ENDSECTIONS_LEVEL /\ a_isdoc ex_root = true /\
  nested (E ex_docenv [T 1; E ex_sec1 [T 2; E ex_fn [T 3]; T 4]; E ex_sec2 [T 5]]) /\
  a_level ex_docenv = DOCUMENT_LEVEL /\
  (forall b, In b (flat_map elements [T 1; E ex_sec1 [T 2; E ex_fn [T 3]; T 4]; E ex_sec2 [T 5]]) -> a_level b <> DOCUMENT_LEVEL) /\
  In ([ex_sec1; ex_docenv; ex_root], 2)
     (flat_map (fun c => if vis ex_sec1 c then shown_leaves (the_fmap ex_files) std_shows [ex_sec1; ex_docenv; ex_root] c else []) [T 2; E ex_fn [T 3]; T 4]) /\
  has_file (the_fmap ex_files) ex_sec1 = (a_level ex_sec1 <=? eff_level ex_cfg).
Proof. exact ex_assigned. Qed.
