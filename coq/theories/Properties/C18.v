(* C18 -- The index lists every entry exactly once, under its key, in collation order.
   This file contains only statements closed by [exact] and their assumptions.
   Parameters of the statements (external behaviour, listed as trusted in harness/props/C18.py):
     ck : the collator;  keqb/kltb : == and < on its keys, a strict total order (HK; proved for the instance that is run: C18_lexZ_order);
     tx / src : .textContent / .source of the expanded key tokens;  src_inj : two keys with the same source are the same key;
     ud : unidecode(c).upper();  letters : encoding.stringletters(). *)
From Coq Require Import List ZArith Bool Arith Permutation Sorted.
Import ListNotations.
From Verif Require Import Val Index IndexProofs.
From Verif Require Tokenizer LexItems IndexSource.
From Verif Require Import IndexRelative.
Local Open Scope Z_scope.

(* M1: every entry of the makeindex syntax -- any number of levels main!sub!..., each optionally sort@display, every
   special character of a text quoted, an optional |format -- is read back by index.invoke exactly: the display keys,
   the sort keys (text of the sort part, or of the display part when there is none), the format tokens and the type. *)
Theorem C18_parse_entry_print :
  forall (tx : list tok -> str) (e : ientry),
    i_levels e <> [] -> fmt_ok (i_fmt e) ->
    parse_entry tx (print_entry e) =
      (map l_disp (i_levels e), map (fun l => tx (sort_part l)) (i_levels e),
       match i_fmt e with
       | None => (None, 0)
       | Some (name, args) => (Some ((0, name) :: args ++ [(0, s_ipn)]), fmt_type name)
       end).
Proof. exact parse_entry_print. Qed.
Print Assumptions C18_parse_entry_print.

(* whatever the argument of \index is, the stored entry has at least one key and a sort key for every key *)
Theorem C18_parse_entry_wf :
  forall (tx : list tok -> str) (ts : list tok),
    let '(k, s, _) := parse_entry tx ts in (1 <= length k <= length s)%nat.
Proof. exact parse_entry_wf. Qed.
Print Assumptions C18_parse_entry_wf.

(* M4: IndexEntry.__lt__ (after fix-1) is a strict weak order ... *)
Theorem C18_comparator_order :
  forall (K : Type) (ck : str -> K) (keqb kltb : K -> K -> bool), sto keqb kltb ->
  forall (tx src : list tok -> str),
    let lt := entry_lt ck keqb kltb tx src in
    (forall x, lt x x = false) /\
    (forall x y z, lt x y = true -> lt y z = true -> lt x z = true) /\
    (forall x y z, lt x y = false -> lt y z = false -> lt x z = false).
Proof.
  intros K ck keqb kltb HK tx src lt. destruct (entry_lt_swo ck keqb kltb HK tx src) as [A B C]. exact (conj A (conj B C)).
Qed.
Print Assumptions C18_comparator_order.

(* ... and two entries that it cannot separate name the same index line (same (sort key, key) pair at every level, same depth) *)
Theorem C18_comparator_separates_paths :
  forall (K : Type) (ck : str -> K) (keqb kltb : K -> K -> bool), sto keqb kltb ->
  forall (tx src : list tok -> str), (forall a b, src a = src b -> a = b) ->
  forall a b, entry_lt ck keqb kltb tx src a b = false -> entry_lt ck keqb kltb tx src b a = false ->
    labels a = labels b /\ length (e_key a) = length (e_key b).
Proof. intros K ck keqb kltb HK tx src Hs. exact (entry_incomparable_same_path ck keqb kltb HK tx src Hs). Qed.
Print Assumptions C18_comparator_separates_paths.

(* refuted for the comparator before fix-1 (fallback collator str.lower): b!p ~ B!q ~ b!q but b!p < b!q *)
Theorem C18_orig_comparator_order_refuted :
  exists a b c, lt_orig a b = false /\ lt_orig b a = false /\ lt_orig b c = false /\ lt_orig c b = false /\ lt_orig a c = true.
Proof. exact orig_comparator_not_swo. Qed.
Print Assumptions C18_orig_comparator_order_refuted.

(* sorted(): every rearrangement that is sorted and stable with respect to a strict weak order equals the insertion sort of the Model *)
Theorem C18_stable_sort_unique :
  forall (A : Type) (lt : A -> A -> bool), swo lt ->
  forall l l' : list A,
    Permutation l l' -> StronglySorted (fun x y => lt y x = false) l' ->
    (forall x, filter (equivb lt x) l' = filter (equivb lt x) l) ->
    l' = isort lt l.
Proof. intros A lt H. exact (stable_sort_unique lt H). Qed.
Print Assumptions C18_stable_sort_unique.

(* M2, first half, for ANY comparator: digest never raises on well-formed entries, lists every entry exactly once,
   under the path it names, and creates no line that no entry asks for *)
Theorem C18_digest_lists_every_entry :
  forall (lt : entry -> entry -> bool) (es : list entry), Forall wf es ->
    exists t, digest_with lt es = Some t /\
      Permutation (all_pages (nodes_f [] t)) (map pg es) /\
      (forall q, pages_of (nodes_f [] t) q = map pg (filter (fun e => path_eqb (labels e) q) (isort lt es))) /\
      (forall q, In q (map fst (nodes_f [] t)) -> q <> [] /\ exists e, In e es /\ is_prefix q (labels e)).
Proof. exact digest_lists_every_entry. Qed.
Print Assumptions C18_digest_lists_every_entry.

(* M2: with the comparator of the code, for every list of well-formed entries (in document order) the index tree has
   exactly one node per distinct key path; the page references of the tree are those of the entries, each once;
   the node of path q carries the references of exactly the entries that name q, in document order; nothing else *)
Theorem C18_merge_complete :
  forall (K : Type) (ck : str -> K) (keqb kltb : K -> K -> bool), sto keqb kltb ->
  forall (tx src : list tok -> str), (forall a b, src a = src b -> a = b) ->
  forall es : list entry, Forall wf es ->
    exists t, digest ck keqb kltb tx src es = Some t /\
      NoDup (map fst (nodes_f [] t)) /\
      Permutation (all_pages (nodes_f [] t)) (map pg es) /\
      (forall q, pages_of (nodes_f [] t) q = map pg (filter (fun e => path_eqb (labels e) q) es)) /\
      (forall q, In q (map fst (nodes_f [] t)) -> q <> [] /\ exists e, In e es /\ is_prefix q (labels e)).
Proof. intros K ck keqb kltb HK tx src Hs. exact (merge_complete ck keqb kltb HK tx src Hs). Qed.
Print Assumptions C18_merge_complete.

(* refuted for the comparator before fix-1: \index{b}\index{B}\index{b} lists the path b twice *)
Theorem C18_orig_merge_split_refuted :
  exists es t p q, Forall wf es /\
    digest_with (entry_lt_orig ck_lower zs_eqb zs_lt tx_c) es = Some t /\ map fst (nodes_f [] t) = [p; q; p].
Proof. exact orig_merge_split. Qed.
Print Assumptions C18_orig_merge_split_refuted.

(* M3: at every level of the tree the siblings are in collation order of their sort keys *)
Theorem C18_sorted_levels :
  forall (K : Type) (ck : str -> K) (keqb kltb : K -> K -> bool), sto keqb kltb ->
  forall (tx src : list tok -> str), (forall a b, src a = src b -> a = b) ->
  forall (es : list entry) t, Forall wf es -> digest ck keqb kltb tx src es = Some t ->
    forest_sortedb ck kltb t = true.
Proof. intros K ck keqb kltb HK tx src Hs. exact (sorted_levels ck keqb kltb HK tx src Hs). Qed.
Print Assumptions C18_sorted_levels.

(* M5: the column split of a group is an order-preserving partition into exactly index-columns columns (index-columns >= 1) *)
Theorem C18_columns_partition :
  forall (A : Type) (size : A -> Z) (items : list A) (cols : Z), 1 <= cols ->
    exists cs, split_columns size items cols = Some cs /\ concat cs = items /\ Z.of_nat (length cs) = cols.
Proof. exact @columns_partition. Qed.
Print Assumptions C18_columns_partition.

(* M5: the groups partition the top-level entries in order; every group is non-empty, has exactly index-columns columns,
   holds only entries whose heading is the group's title; adjacent groups have different titles *)
Theorem C18_groups_partition :
  forall (ud : Z -> str) (letters : str) (A : Type) (skey : A -> str) (size : A -> Z) (items : list A) (cols : Z), 1 <= cols ->
    exists gs, groups ud letters skey size items cols = Some gs /\
      concat (map (fun g => concat (snd g)) gs) = items /\
      Forall (fun g => Z.of_nat (length (snd g)) = cols /\ concat (snd g) <> [] /\
                       Forall (fun it => title_of ud letters (skey it) = fst g) (concat (snd g))) gs /\
      adj_diff (map fst gs).
Proof. intros ud letters A. exact (@groups_partition ud letters A). Qed.
Print Assumptions C18_groups_partition.

(* the heading of an entry: the single letter its initial transliterates to, else one of the two symbol headings (after fix-2) *)
Theorem C18_title_cases :
  forall (ud : Z -> str) (letters : str) (s : str),
    title_of ud letters s = s_symbols \/ title_of ud letters s = s_underscore \/
    exists c r x, s = c :: r /\ ud c = [x] /\ In x letters /\ title_of ud letters s = [x].
Proof. exact title_of_cases. Qed.
Print Assumptions C18_title_cases.

(* the hypotheses are satisfiable: the order run_case uses is a strict total order, an injective src exists *)
Theorem C18_lexZ_order : sto zs_eqb zs_lt.
Proof. exact lexZ_sto. Qed.
Theorem C18_src_inj_satisfiable : forall a b, src_enc a = src_enc b -> a = b.
Proof. exact src_enc_inj. Qed.

(* non-vacuity: a document whose entries collide under the collator, with the fixed comparator *)
Example C18_nonvacuous :
  Forall wf [ent 0 [L 98]; ent 1 [L 66]; ent 2 [L 98]] /\
  digest ck_lower zs_eqb zs_lt tx_c src_c [ent 0 [L 98]; ent 1 [L 66]; ent 2 [L 98]] =
    Some [Node [L 66] [66] [(0, 1)] []; Node [L 98] [98] [(0, 0); (0, 2)] []] /\
  split_columns (fun x : Z => x) [1; 1; 3; 1] 2 = Some [[1; 1; 3]; [1]].
Proof. exact nonvacuous_example. Qed.

(* ---------------------------------------------------------------------------------------------------------------- *)
(* Deepening round: the property's first two sentences end to end, the link to the proved tokenizer, column balance.  *)

(* For every document, given as the list of index entries it SPELLS (each with >= 1 level and a well-formed format):
   parsing every \index argument with index.invoke and building the tree with IndexUtils.digest gives a tree in which
   no key path occurs twice; the line of path q carries exactly the references of the commands that spell q -- the
   path being, per level, (text of the sort part or else of the display part, display part) -- numbered in document
   order and typed see/seealso/normal as spelled; every line is a non-empty prefix of a spelled path; and at every level
   the lines are in collation order of their sort keys. *)
Theorem C18_index_of_document :
  forall (K : Type) (ck : str -> K) (keqb kltb : K -> K -> bool), sto keqb kltb ->
  forall (tx src : list tok -> str), (forall a b, src a = src b -> a = b) ->
  forall doc : list ientry, Forall ispec_ok doc ->
    exists t, digest ck keqb kltb tx src (entries_of tx doc) = Some t /\
      NoDup (map fst (nodes_f [] t)) /\
      (forall q, pages_of (nodes_f [] t) q =
                 map (fun p => (spelled_type (snd p), Z.of_nat (fst p)))
                     (filter (fun p => path_eqb (spelled_path tx (snd p)) q) (numbered doc))) /\
      (forall q, In q (map fst (nodes_f [] t)) -> q <> [] /\ exists e, In e doc /\ is_prefix q (spelled_path tx e)) /\
      forest_sortedb ck kltb t = true.
Proof. intros K ck keqb kltb HK tx src Hs. exact (index_of_document ck keqb kltb HK tx src Hs). Qed.
Print Assumptions C18_index_of_document.
Example C18_document_nonvacuous :
  Forall ispec_ok doc_example /\
  digest ck_lower zs_eqb zs_lt tx_c src_c (entries_of tx_c doc_example) =
    Some [Node [L 66] [66] [(1, 1)] [];
          Node [(0, [116;101;120;116;98;102]); (1, [123]); L 98; (2, [125])] [98] [] [Node [L 121] [121] [(0, 2)] []];
          Node [L 98] [98] [(0, 0)] []].
Proof. exact doc_example_ok. Qed.

(* C18 x C01.  Under plasTeX's default category table (regenerated from the source, Gen/Catcodes.v) the characters
   double-quote ! @ | are of category other, the blank is a space, the braces delimit: the categories index.invoke tests for. *)
Theorem C18_default_categories :
  let code := Tokenizer.which_code Tokenizer.default_table in
  code 34%N = 12%N /\ code 33%N = 12%N /\ code 64%N = 12%N /\ code 124%N = 12%N /\ code 32%N = 10%N /\
  code 123%N = 1%N /\ code 125%N = 2%N /\ code 92%N = 0%N.
Proof. exact IndexSource.default_categories. Qed.
Print Assumptions C18_default_categories.

(* If the argument of an \index command is WRITTEN with the tokens ts -- each character token carrying the category of
   its character, blanks only where TeX does not skip them (lex_ok), the written text well formed in the sense of C01's
   lexical items (items_ok: e.g. a control word is not followed by a letter) -- then the proved tokenizer of C01 turns
   the characters  \index{...}  into the tokens \index { ts } : the token model of C18 is the one of C01. *)
Theorem C18_index_source_tokens :
  forall (ts : list tok) (its : list LexItems.item),
    IndexSource.items_of ts = Some its -> IndexSource.lex_ok Tokenizer.SM ts = true ->
    LexItems.items_ok Tokenizer.default_table (IndexSource.index_cmd its) = true ->
    Tokenizer.tokenize Tokenizer.default_table (LexItems.print_items (IndexSource.index_cmd its))
      = Tokenizer.RToks (IndexSource.index_tokens (map IndexSource.conv ts)) /\
    map IndexSource.unconv (map IndexSource.conv ts) = ts.
Proof. exact IndexSource.index_source_tokens. Qed.
Print Assumptions C18_index_source_tokens.

(* ... hence, with M1: for every entry e of the makeindex syntax whose printed form is so written, tokenizing the
   CHARACTERS of \index{<e>} and running index.invoke on the tokens between the braces stores exactly what e spells. *)
Theorem C18_index_source_entry :
  forall (tx : list tok -> str) (e : ientry) (its : list LexItems.item),
    i_levels e <> [] -> fmt_ok (i_fmt e) ->
    IndexSource.items_of (print_entry e) = Some its -> IndexSource.lex_ok Tokenizer.SM (print_entry e) = true ->
    LexItems.items_ok Tokenizer.default_table (IndexSource.index_cmd its) = true ->
    exists toks,
      Tokenizer.tokenize Tokenizer.default_table (LexItems.print_items (IndexSource.index_cmd its))
        = Tokenizer.RToks (IndexSource.index_tokens toks) /\
      parse_entry tx (map IndexSource.unconv toks) =
        (map l_disp (i_levels e), map (fun l => tx (sort_part l)) (i_levels e),
         match i_fmt e with
         | None => (None, 0)
         | Some (name, args) => (Some ((0, name) :: args ++ [(0, s_ipn)]), fmt_type name)
         end).
Proof. exact IndexSource.index_source_entry. Qed.
Print Assumptions C18_index_source_entry.
Example C18_source_nonvacuous :   (* \index{Zeta!b@\textbf{B}|see{x y}} *)
  exists its, IndexSource.items_of (print_entry IndexSource.ex_entry) = Some its /\
              IndexSource.lex_ok Tokenizer.SM (print_entry IndexSource.ex_entry) = true /\
              LexItems.items_ok Tokenizer.default_table (IndexSource.index_cmd its) = true /\
              LexItems.print_items (IndexSource.index_cmd its) =
                [92;105;110;100;101;120;123; 90;101;116;97; 33; 98; 64; 92;116;101;120;116;98;102;123;66;125; 124;115;101;101;123;120;32;121;125; 125]%N.
Proof. exact IndexSource.index_source_example. Qed.

(* M5, balance: every column but the first (which takes what remains) weighs at most floor(total / index-columns) unless
   it is a single entry; empty columns come last; the weight of an entry is the number of index lines it shows. *)
Theorem C18_columns_balance :
  forall (A : Type) (size : A -> Z) (items : list A) (cols : Z) (cs : list (list A)),
    1 <= cols -> split_columns size items cols = Some cs ->
    Forall (fun col => weight size col <= Z.quot (fold_left (fun a it => a + size it) items 0) cols \/ (length col <= 1)%nat) (tl cs).
Proof. exact @columns_balance. Qed.
Print Assumptions C18_columns_balance.
Theorem C18_columns_empty_last :
  forall (A : Type) (size : A -> Z) (items : list A) (cols : Z) (cs : list (list A)),
    split_columns size items cols = Some cs ->
    exists full n, cs = full ++ repeat [] n /\ Forall (fun col => col <> []) full.
Proof. exact @columns_empty_last. Qed.
Print Assumptions C18_columns_empty_last.
Theorem C18_totallen_counts_lines : forall (n : node) (pre : path), totallen n = Z.of_nat (length (nodes_at pre n)).
Proof. exact totallen_counts_lines. Qed.
Print Assumptions C18_totallen_counts_lines.
Example C18_balance_nonvacuous :
  split_columns (fun x : Z => x) [1; 1; 3; 1; 2; 2] 3 = Some [[1; 1; 3]; [1; 2]; [2]] /\
  Z.quot (fold_left (fun a it => a + it) [1; 1; 3; 1; 2; 2] 0) 3 = 3.
Proof. exact balance_example. Qed.

(* The hypothesis on .source, relative to the document.  "Two keys with the same .source are the same key" cannot hold for
   ALL token lists of real LaTeX (\textbf x and \textbf{x} have one source; the concrete rule of the harness is not injective
   either: C18_src_c_not_injective).  M2, M3 and the document theorem hold as soon as it holds among the keys that occur
   in the document at hand (inj_on ... (keys_of es) / (displays doc)). *)
Theorem C18_merge_complete_rel :
  forall (K : Type) (ck : str -> K) (keqb kltb : K -> K -> bool), sto keqb kltb ->
  forall (tx src : list tok -> str) (es : list entry),
    (forall a b, In a (keys_of es) -> In b (keys_of es) -> src a = src b -> a = b) -> Forall wf es ->
    exists t, digest ck keqb kltb tx src es = Some t /\
      NoDup (map fst (nodes_f [] t)) /\
      Permutation (all_pages (nodes_f [] t)) (map pg es) /\
      (forall q, pages_of (nodes_f [] t) q = map pg (filter (fun e => path_eqb (labels e) q) es)) /\
      (forall q, In q (map fst (nodes_f [] t)) -> q <> [] /\ exists e, In e es /\ is_prefix q (labels e)).
Proof. intros K ck keqb kltb HK tx src. exact (merge_complete_rel ck keqb kltb HK tx src). Qed.
Print Assumptions C18_merge_complete_rel.

Theorem C18_sorted_levels_rel :
  forall (K : Type) (ck : str -> K) (keqb kltb : K -> K -> bool), sto keqb kltb ->
  forall (tx src : list tok -> str) (es : list entry) t,
    (forall a b, In a (keys_of es) -> In b (keys_of es) -> src a = src b -> a = b) -> Forall wf es ->
    digest ck keqb kltb tx src es = Some t -> forest_sortedb ck kltb t = true.
Proof. intros K ck keqb kltb HK tx src. exact (sorted_levels_rel ck keqb kltb HK tx src). Qed.
Print Assumptions C18_sorted_levels_rel.

Theorem C18_index_of_document_rel :
  forall (K : Type) (ck : str -> K) (keqb kltb : K -> K -> bool), sto keqb kltb ->
  forall (tx src : list tok -> str) (doc : list ientry),
    (forall a b, In a (displays doc) -> In b (displays doc) -> src a = src b -> a = b) -> Forall ispec_ok doc ->
    exists t, digest ck keqb kltb tx src (entries_of tx doc) = Some t /\
      NoDup (map fst (nodes_f [] t)) /\
      (forall q, pages_of (nodes_f [] t) q =
                 map (fun p => (spelled_type (snd p), Z.of_nat (fst p)))
                     (filter (fun p => path_eqb (spelled_path tx (snd p)) q) (numbered doc))) /\
      (forall q, In q (map fst (nodes_f [] t)) -> q <> [] /\ exists e, In e doc /\ is_prefix q (spelled_path tx e)) /\
      forest_sortedb ck kltb t = true.
Proof. intros K ck keqb kltb HK tx src. exact (index_of_document_rel ck keqb kltb HK tx src). Qed.
Print Assumptions C18_index_of_document_rel.
Example C18_rel_nonvacuous :
  (forall a b, In a (displays doc_example) -> In b (displays doc_example) -> src_c a = src_c b -> a = b) /\
  (exists a b, src_c a = src_c b /\ a <> b).
Proof. exact (conj doc_example_inj_on src_c_not_injective). Qed.
