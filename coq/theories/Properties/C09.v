(* C09 -- Every reference resolves to the object its label names, wherever the label is.
   This file contains only statements closed by [exact] and their assumptions.

   Vocabulary (Model/Refs.v, Model/RefsSpec.v).  A history is a list of events
     ECurrent o | ENumber o n | ELabel l node | ERef r k l | EOpen | EClose
   (an object becomes the current labelable object / is given its printed number / Context.label / Context.ref /
   a TeX group begins / ends).  [run es] is the Model's final state (Context.labels, Context.refs, every node's
   idref dictionary, @id and .ref attributes).  Spec side: [attachments es] lists (name, object) for every label
   that names an object, [target es l] the object a name is attached to, [last_ref es r k] the name holder r
   asks for under key k, [eff_labels es] the names in use.  "Distinct labels" is [NoDup (eff_labels es)]. *)
From Coq Require Import List ZArith Bool.
Import ListNotations.
From Verif Require Import Refs RefsSpec RefsProofs RefsDoc RefsDocProofs.
From Verif Require Counters.
Local Open Scope Z_scope.

(* M1: for every history with pairwise distinct labels, after the run every reference whose label exists anywhere in
   the history -- before or after the reference -- points to exactly the labelled object; every other reference
   points to a placeholder (a node that is no document object) carrying the missing name. *)
Theorem C09_resolve_all :
  forall es, NoDup (eff_labels es) ->
  forall r k l, last_ref es r k = Some l ->
    match target es l with
    | Some o => dget hk_eqb (r, k) (idrefs (run es)) = Some (TObj o)
    | None => exists p, dget hk_eqb (r, k) (idrefs (run es)) = Some (TPlace p l)
    end.
Proof. exact resolve_all. Qed.
Print Assumptions C09_resolve_all.

(* M1 as an equation: the final idref tables, read as "object o / no object", are the resolution map of the Spec,
   for every holder and key (including those that never asked for anything). *)
Theorem C09_resolve_map :
  forall es, NoDup (eff_labels es) ->
  forall r k, option_map res_of (dget hk_eqb (r, k) (idrefs (run es))) = resolution (attachments es) es r k.
Proof. exact resolve_map. Qed.
Print Assumptions C09_resolve_map.

(* M2: the outcome does not depend on where the references stand relative to the labels: two histories with the
   same non-reference events and the same request per holder/key resolve identically ... *)
Theorem C09_order_independent :
  forall es es',
    skeleton es = skeleton es' ->
    (forall r k, last_ref es r k = last_ref es' r k) ->
    NoDup (eff_labels es) ->
    forall r k, option_map res_of (dget hk_eqb (r, k) (idrefs (run es))) = option_map res_of (dget hk_eqb (r, k) (idrefs (run es'))).
Proof. exact order_independent. Qed.
Print Assumptions C09_order_independent.

(* ... in particular when one reference is moved across any stretch of the document (over labels, numbered objects,
   other references). *)
Theorem C09_move_reference :
  forall a b c r k l,
    (forall l', ~ In ((r, k), l') (requests b)) ->
    NoDup (eff_labels (a ++ ERef r k l :: b ++ c)) ->
    forall r0 k0,
      option_map res_of (dget hk_eqb (r0, k0) (idrefs (run (a ++ ERef r k l :: b ++ c)))) =
      option_map res_of (dget hk_eqb (r0, k0) (idrefs (run (a ++ b ++ ERef r k l :: c)))).
Proof. exact move_reference. Qed.
Print Assumptions C09_move_reference.

(* M3: the label becomes the identifier of the object it is attached to (for every history: the identifier is the
   last label attached); distinct objects never share an identifier when labels are distinct. *)
Theorem C09_id_is_last_label : forall es o, dget Z.eqb o (ids (run es)) = id_spec es o.
Proof. exact ids_spec. Qed.
Theorem C09_label_is_id :
  forall es l o, In (l, o) (attachments es) -> (forall l', In (l', o) (attachments es) -> l' = l) ->
                 dget Z.eqb o (ids (run es)) = Some l.
Proof. exact label_is_id. Qed.
Theorem C09_ids_distinct :
  forall es, NoDup (eff_labels es) ->
  forall o1 o2 i1 i2, o1 <> o2 -> dget Z.eqb o1 (ids (run es)) = Some i1 -> dget Z.eqb o2 (ids (run es)) = Some i2 -> i1 <> i2.
Proof. exact ids_distinct. Qed.
Print Assumptions C09_ids_distinct.

(* M4: once a label has been seen nothing stays pending under its name -- neither in Context.refs nor as a
   placeholder in any idref table; and an unresolved reference is always on the pending list of its name. *)
Theorem C09_pending_drained : forall es l, target es l <> None -> dget str_eqb l (refs (run es)) = None.
Proof. exact pending_drained. Qed.
Theorem C09_no_placeholder_for_labelled :
  forall es, NoDup (eff_labels es) ->
  forall r k p l, dget hk_eqb (r, k) (idrefs (run es)) = Some (TPlace p l) -> target es l = None.
Proof. exact no_placeholder_for_labelled. Qed.
Theorem C09_unresolved_is_pending :
  forall es, NoDup (eff_labels es) ->
  forall r k l, last_ref es r k = Some l -> target es l = None -> exists hs, dget str_eqb l (refs (run es)) = Some hs /\ In r hs.
Proof. exact unresolved_is_pending. Qed.
Print Assumptions C09_unresolved_is_pending.

(* M5: the printed number of a resolved reference is the number of its target. *)
Theorem C09_ref_number :
  forall es, NoDup (eff_labels es) ->
  forall r k l o, last_ref es r k = Some l -> target es l = Some o -> printed (run es) r k = number_spec es o.
Proof. exact ref_number. Qed.
Print Assumptions C09_ref_number.

(* faithfulness side condition of the Model: the comparison value.id != label in Context.label never meets an object
   without @id (the id-generator branch of Macro.id, which the Model does not reproduce, is unreachable) *)
Theorem C09_stored_objects_have_ids :
  forall es,
    (forall l o, dget str_eqb l (labels (run es)) = Some o -> dget Z.eqb o (ids (run es)) <> None) /\
    (forall hk o, dget hk_eqb hk (idrefs (run es)) = Some (TObj o) -> dget Z.eqb o (ids (run es)) <> None).
Proof. exact stored_objects_have_ids. Qed.

(* "A \label written in a numbered object attaches to that object", with LaTeX's rule (the current object is local
   to the TeX group) as the reference.  Full statement:

     forall es, NoDup (map fst (attachments_tex es)) -> forall r k l, last_ref es r k = Some l ->
       match target_tex es l with Some o => idref = TObj o | None => exists p, idref = TPlace p l end

   It is FALSE for the code as it is (Context.currentlabel is not restored at the end of a group): refuted below, the
   witness is the history of  \section{A}\begin{equation}x\end{equation}\label{l}\ref{l} .  It is proved for the
   histories in which every label is written where the most recently numbered object is also LaTeX's current one. *)
Theorem C09_resolve_all_tex_partial :
  forall es, well_placed es = true -> NoDup (map fst (attachments_tex es)) ->
  forall r k l, last_ref es r k = Some l ->
    match target_tex es l with
    | Some o => dget hk_eqb (r, k) (idrefs (run es)) = Some (TObj o)
    | None => exists p, dget hk_eqb (r, k) (idrefs (run es)) = Some (TPlace p l)
    end.
Proof. exact resolve_all_tex_partial. Qed.
Print Assumptions C09_resolve_all_tex_partial.

Theorem C09_resolve_all_tex_refuted :
  exists es,
    NoDup (map fst (attachments_tex es)) /\
    exists r k l o, last_ref es r k = Some l /\ target_tex es l = Some o /\ dget hk_eqb (r, k) (idrefs (run es)) <> Some (TObj o).
Proof. exact resolve_all_tex_refuted. Qed.

(* ---- documents: the numbering machine of C08 (Model/Counters.v) and the labels / references in one history -------------
   A document is a list of  JNum e inner  (a numbering event e of Model/Counters.v -- \section, \begin{equation}, an
   eqnarray with its rows, \caption, \begin{thm}, \item ... -- with, for every object it makes, the labels and references
   written in that object's arguments)  and  JInl i  (a label, a reference, a group boundary between the objects).
   [translate_c08 cls depth d] runs Counters.run_event over the numbering events and produces the history of Model/Refs.v in the
   order of Macro.parse (current label, arguments, \the<counter>); objects are identified by their position among the objects
   Counters.number_doc prints. *)

(* D1: "its printed number is the object's number", the number being the one C08's Model computes: for every document with
   distinct labels, every resolved reference holds the i-th object of the document and prints exactly what
   Counters.number_doc prints for that object (C08_number_doc_spec_partial says that this is LaTeX's number). *)
Theorem C09_ref_number_is_c08_number :
  forall cls depth d es os,
    translate_c08 cls depth d = Some (es, os) -> NoDup (eff_labels es) ->
    exists ms outs,
      Counters.number_doc cls depth (numbering_part d) = Counters.Ok (ms, outs) /\
      forall r k l o, last_ref es r k = Some l -> target es l = Some o ->
        exists i, o = Z.of_nat i /\
                  dget hk_eqb (r, k) (idrefs (run es)) = Some (TObj o) /\
                  Some (printed (run es) r k) = option_map snd (nth_error (c08_objects outs) i).
Proof. exact ref_number_c08. Qed.
Print Assumptions C09_ref_number_is_c08_number.

(* D2: the same for any numbering machine: the number recorded for the i-th object is the one the machine gave it, and a
   resolved reference holds an object that has a counter attribute and prints that number. *)
Theorem C09_number_of_object :
  forall (CE CS : Type) (cstep : CE -> CS -> option (CS * list oinfo)) d cs es os,
    translate cstep d cs 0 = Some (es, os) ->
    forall i, number_spec es (Z.of_nat i) = match nth_error os i with Some o => o_number o | None => None end.
Proof. intros CE CS cstep. exact (number_of_object cstep). Qed.
Theorem C09_ref_number_joint :
  forall (CE CS : Type) (cstep : CE -> CS -> option (CS * list oinfo)) d cs es os,
    translate cstep d cs 0 = Some (es, os) -> NoDup (eff_labels es) ->
    forall r k l o, last_ref es r k = Some l -> target es l = Some o ->
      exists i oi, o = Z.of_nat i /\ nth_error os i = Some oi /\ o_current oi = true /\
                   dget hk_eqb (r, k) (idrefs (run es)) = Some (TObj o) /\ printed (run es) r k = o_number oi.
Proof. intros CE CS cstep. exact (ref_number_joint cstep). Qed.
Print Assumptions C09_ref_number_joint.

(* D3: "a \label written in a numbered object attaches to that object": whatever stands before and after, a label written in
   the arguments (title, caption, optional argument of \item or of a theorem, eqnarray row) of the j-th object a numbering
   event makes names exactly that object -- the (m+j)-th of the document -- provided the object has a counter attribute
   (starred or not, numbered or deeper than sec-num-depth). *)
Theorem C09_label_in_object :
  forall cls depth d es os e inner,
    translate_c08 cls depth d = Some (es, os) -> In (JNum e inner) d ->
    exists m os_e ms1 ms2,
      c08_step cls depth e ms1 = Some (ms2, os_e) /\
      (forall j oj, nth_error os_e j = Some oj -> nth_error os (m + j) = Some oj) /\
      forall j oj ins l k,
        nth_error os_e j = Some oj -> o_current oj = true -> nth_error inner j = Some ins ->
        In (NLabel l) ins -> name_of l = Some k ->
        In (k, Z.of_nat (m + j)) (attachments es).
Proof. intros cls depth d es os e inner. exact (label_in_object (c08_step cls depth) d (Counters.init_state cls) es os e inner). Qed.
Print Assumptions C09_label_in_object.

(* D4: "... or directly after a sectioning command": once an object is the current label, a label written before the next
   object becomes current names it, whatever references, groups or commands without a counter (they produce no event: starred or unstarred
   vspace, hspace, line breaks) stand in between. *)
Theorem C09_label_directly_after :
  forall pre o ins post l k,
    In (NLabel l) ins -> name_of l = Some k ->
    In (k, o) (attachments (pre ++ ECurrent o :: map inl_event ins ++ post)).
Proof. exact label_directly_after. Qed.

(* the numbering machine run on its own makes the same objects: the translation adds nothing to C08's numbering *)
Theorem C09_translate_numbering :
  forall (CE CS : Type) (cstep : CE -> CS -> option (CS * list oinfo)) d cs n es os,
    translate cstep d cs n = Some (es, os) -> run_numbering cstep (numbering_part d) cs = Some os.
Proof. intros CE CS cstep. exact (translate_run_numbering cstep). Qed.

(* non-vacuity of D1-D4: article, sec-num-depth 2: a forward reference to a label directly after an (unnumbered)
   \subsubsection, a label inside a section title, inside \item[...], inside the optional argument of a theorem, on eqnarray
   rows (the middle row \nonumber), a dangling reference *)
Definition ex_section : str := [115;101;99;116;105;111;110].
Definition ex_sub3 : str := [115;117;98;115;117;98;115;101;99;116;105;111;110].
Definition ex_thm : str := [116;104;109].
Definition ex_doc : list (@jevent Counters.event) :=
 [ JNum (Counters.ENewTheorem ex_thm None None false) [];
   JInl (NRef 10 0 [98]);
   JNum (Counters.ESec ex_section false) [[NLabel [97]]];
   JNum (Counters.ESec ex_sub3 false) [[]]; JInl (NLabel [98]);
   JInl NOpen; JNum (Counters.EBeginList true) []; JNum Counters.EItem [[NLabel [99]]]; JNum Counters.EEndList []; JInl NClose;
   JInl NOpen; JNum (Counters.EThm ex_thm) [[NLabel [116]]]; JInl NClose;
   JInl NOpen; JNum (Counters.EEqnarray [false; true; false]) [[NLabel [114;49]]; []; [NLabel [114;51]]]; JInl NClose;
   JInl (NRef 11 0 [97]); JInl (NRef 12 0 [114;51]); JInl (NRef 13 0 [122;122]); JInl (NRef 14 0 [99]); JInl (NRef 15 0 [116]) ].
Example C09_doc_nonvacuous :
  match translate_c08 0 2 ex_doc with
  | Some (es, os) =>
      nodup_b (eff_labels es) = true /\ well_placed es = true /\
      map o_number os = [Some [49]; None; Some [49]; Some [49]; Some [49]; None; Some [50]] /\
      map (fun r => (dget hk_eqb (r, 0) (idrefs (run es)), printed (run es) r 0)) [10; 11; 12; 13; 14; 15] =
      [(Some (TObj 1), None); (Some (TObj 0), Some [49]); (Some (TObj 6), Some [50]); (Some (TPlace 1 [122; 122]), None);
       (Some (TObj 2), Some [49]); (Some (TObj 3), Some [49])]
  | None => False
  end.
Proof. vm_compute. repeat split. Qed.

(* non-vacuity: a history with a forward reference, a backward one, one inside the object, a dangling one, groups,
   two pending holders under one name; the hypotheses hold and the conclusions are the interesting ones *)
Example C09_nonvacuous :
  let es := [ERef 10 0 [97]; ERef 11 0 [98]; ERef 12 0 [97]; ECurrent 1; ENumber 1 (Some [49]); ELabel [32; 97; 32] None;
             EOpen; ECurrent 2; ERef 13 0 [98]; ELabel [98] None; ENumber 2 (Some [50]); EClose; ERef 14 0 [97]; ERef 15 0 [122]] in
  nodup_b (eff_labels es) = true /\ well_placed es = true /\
  target es [97] = Some 1 /\ target es [98] = Some 2 /\ target es [122] = None /\
  last_ref es 10 0 = Some [97] /\ last_ref es 15 0 = Some [122] /\
  dget hk_eqb (10, 0) (idrefs (run es)) = Some (TObj 1) /\ dget hk_eqb (11, 0) (idrefs (run es)) = Some (TObj 2) /\
  dget hk_eqb (12, 0) (idrefs (run es)) = Some (TObj 1) /\ dget hk_eqb (13, 0) (idrefs (run es)) = Some (TObj 2) /\
  dget hk_eqb (15, 0) (idrefs (run es)) = Some (TPlace 4 [122]) /\
  printed (run es) 11 0 = Some [50] /\ dget Z.eqb 1 (ids (run es)) = Some [97] /\
  map fst (refs (run es)) = [[122]].
Proof. vm_compute. repeat split. Qed.
