(* C13 -- Rendering splits the document into files without losing or repeating content.
   This file contains only statements closed by [exact] and their assumptions.
   Model: Model/Render.v (Renderer.render / cacheFilenames / Renderable.filename / Renderable.__str__ / SectionUtils.footnotes of
   plasTeX, on top of the C15 Model of Filenames.py).  Spec definitions used below are in Proofs/RenderProofs.v:
     askers lvl doc      the element nodes with level <= lvl, document (DFS pre-) order
     own_words n         the body text a node contributes to the file it is in (document order; stops at units with a file of their
                         own and at nodes whose template does not show their content, i.e. footnotes)
     own_notes n         the footnotes below n that belong to the file n is in (stops at section-level units with a file)
     fwords (a, cs)      what the file of unit (a, cs) must hold: own body text in document order ++ text of its footnotes in order
     producers n         the file-producing units reached by the renderer, in the order their files are written
     leaves n            every text leaf of the rendered (sub)document, document order
     sound n             the document is one the linear templates can render without loss (see there)
   The template engines are not modelled: the theorems hold for EVERY node-template function tmpl, layout function and shows
   predicate that are linear in the body text (tmpl_linear, layout_linear); C13_std_templates_linear shows that the table of the
   shipped templates used by the extracted Model is an instance.  That Jinja2 / simpleTAL evaluate the shipped templates that way is
   what the correspondence check tests on every run. *)
From Coq Require Import List ZArith NArith Bool Permutation.
Import ListNotations.
From Verif Require Import Val Filenames FilenamesProofs Render RenderProofs RenderProofs2.
Local Open Scope Z_scope.

(* M2 + M4 + "each unit at or above the split level has its own file": whenever the assignment succeeds, for every document, every
   split level and every filename template: it is one run of the filename generator over the bindings of exactly the nodes with
   level <= effective split level, in document order (M4: the i-th such node gets the i-th name issued, so $num grows along the
   document); every one of them gets a name, no other node does; the names are pairwise distinct (M2).  [assign] is a function of
   (configuration, document) only, so the names are the same on every run. *)
Theorem C13_assignment :
  forall (c : rcfg) (doc : node) (st : Filenames.st) (files : fileslist),
    assign c doc = Some (AOk st files) ->
    exists tfiles out,
      parse_filenames (r_template c) = Some tfiles /\
      run (r_fc c) (gen_init c tfiles) (map bindings (askers (eff_level c) doc)) = (out, st) /\
      map fst files = map a_ser (askers (eff_level c) doc) /\
      map snd files = map Some (names_of out) /\
      NoDup (file_names files).
Proof. exact assign_spec. Qed.
Print Assumptions C13_assignment.

(* M3: a template without a blank and without '[' names a single file: the split level is -10 whatever split-level says, so by
   C13_assignment only nodes with level <= -10 (the document environment, level -sys.maxsize) ask for a name; a (sub)tree whose
   levels are all above -10 gets no file at all, i.e. is rendered inside its ancestor's file. *)
Theorem C13_single_file :
  forall c, single_template (r_template c) = true ->
    eff_level c = -10 /\
    forall n, (forall a, In a (elements n) -> -10 < a_level a) -> askers (eff_level c) n = [].
Proof.
  intros c H. split; [exact (single_file_level c H)|]. intros n Hn. rewrite (single_file_level c H). exact (askers_none (-10) n Hn).
Qed.
Print Assumptions C13_single_file.

(* M1, per file: for every document with distinct node identities whose footnote list is the list of its footnote nodes, every
   assignment of files to nodes (fmap), and every unit (a, cs) of the document: the words of the file content computed by the Model of
   Renderable.__str__ + the layout are exactly the unit's own body text in document order -- not entering nested units that have
   their own file -- followed by the text of the footnotes that belong to it (found by SectionUtils.footnotes' global scan with
   parentNode walks; proved equal to the structural own_notes), in the order of the footnote list. *)
Theorem C13_file_words :
  forall fmap tmpl layout shows is_note,
    tmpl_linear tmpl shows -> layout_linear layout ->
    forall doc fnotes ch a cs,
      NoDup (sers doc) -> notes_listed is_note doc fnotes -> In (ch, a, cs) (elems_ctx [] doc) ->
      words (content fmap tmpl layout doc fnotes a cs) = fwords fmap shows is_note (a, cs).
Proof. exact file_words. Qed.
Print Assumptions C13_file_words.

(* M1: for every document (root of type DOCUMENT_NODE or not), every assignment of files, every split: the files written are exactly
   those of the file-producing units reached, one each, in order; each holds the words the Spec gives it; and all files together hold
   every text leaf of the rendered document exactly once (as a multiset: Permutation). *)
Theorem C13_split_partition :
  forall fmap tmpl layout shows is_note,
    tmpl_linear tmpl shows -> layout_linear layout ->
    forall ra rcs fnotes,
      let doc := E ra rcs in
      NoDup (sers doc) -> notes_listed is_note doc fnotes ->
      (forall c, In c rcs -> vis ra c = true -> sound fmap shows is_note c /\ top_unit fmap shows is_note c) ->
      render fmap tmpl layout shows doc fnotes =
        map (fun p => (fname fmap (fst p), content fmap tmpl layout doc fnotes (fst p) (snd p)))
            (flat_map (fun c => if vis ra c then producers fmap shows c else []) rcs) /\
      (forall p, In p (flat_map (fun c => if vis ra c then producers fmap shows c else []) rcs) ->
                 words (content fmap tmpl layout doc fnotes (fst p) (snd p)) = fwords fmap shows is_note p) /\
      Permutation (flat_map (fun f => words (snd f)) (render fmap tmpl layout shows doc fnotes)) (leaves doc).
Proof. exact split_partition. Qed.
Print Assumptions C13_split_partition.

(* ... hence, when the text leaves are pairwise different (the marker words of the correspondence), every leaf is in exactly one file,
   at exactly one place, and nothing else is *)
Theorem C13_each_word_once :
  forall fmap tmpl layout shows is_note,
    tmpl_linear tmpl shows -> layout_linear layout ->
    forall ra rcs fnotes,
      let doc := E ra rcs in
      NoDup (sers doc) -> notes_listed is_note doc fnotes ->
      (forall c, In c rcs -> vis ra c = true -> sound fmap shows is_note c /\ top_unit fmap shows is_note c) ->
      NoDup (leaves doc) ->
      let allw := flat_map (fun f => words (snd f)) (render fmap tmpl layout shows doc fnotes) in
      NoDup allw /\ (forall w, In w allw <-> In w (leaves doc)).
Proof. exact each_word_once. Qed.
Print Assumptions C13_each_word_once.

(* the footnotes of a file: the global scan of userdata['footnotes'] with currentSection walks selects exactly the footnotes below the
   unit that are not below a nested section-level unit with a file -- and none when the unit is not section-level *)
Theorem C13_footnotes_of_file :
  forall fmap tmpl is_note doc fnotes ch a cs,
    NoDup (sers doc) -> notes_listed is_note doc fnotes -> In (ch, a, cs) (elems_ctx [] doc) ->
    footnotes_of fmap tmpl doc fnotes a =
      if is_owner fmap a then note_strs fmap tmpl (flat_map (own_notes fmap is_note) cs) else [].
Proof. exact footnotes_struct. Qed.
Print Assumptions C13_footnotes_of_file.

(* the table of the shipped templates that the extracted Model runs with is linear (the hypotheses above are satisfiable) *)
Theorem C13_std_templates_linear :
  (forall e, tmpl_linear (std_tmpl e) std_shows) /\ layout_linear std_layout /\ (forall a, std_note a = true -> std_shows a = false).
Proof. exact (conj std_tmpl_linear (conj std_layout_linear std_note_hidden)). Qed.
Print Assumptions C13_std_templates_linear.

(* non-vacuity: \begin{document} w1 \section{t}\label{s1} w2 \footnote{w3} w4 \section{u} w5 \end{document}, split level 2, default
   template: three files; the footnote text w3 comes after w2 w4 in s1.html; the hypotheses of C13_split_partition hold *)
Example C13_nonvacuous :
  match assign ex_cfg ex_doc with
  | Some (AOk _ files) =>
      files = [(1, Some ex_index); (2, Some ex_s1); (4, Some ex_sect1)] /\
      map (fun f => (fst f, words (snd f)))
          (render (the_fmap files) (std_tmpl (the_env ex_doc ex_cfg files false)) std_layout std_shows ex_doc [3]) =
        [(ex_s1, [2; 4; 3]); (ex_sect1, [5]); (ex_index, [1])] /\
      NoDup (sers ex_doc) /\ notes_listed std_note ex_doc [3] /\
      (forall c, In c ex_kids -> vis ex_root c = true ->
                 sound (the_fmap files) std_shows std_note c /\ top_unit (the_fmap files) std_shows std_note c)
  | _ => False
  end.
Proof. exact ex_nonvacuous. Qed.

(* ---- added in the deepening round (the theorems above are unchanged) ---- *)

(* names_clean: composing C13_assignment with C15's candidate-text and character-substitution theorems (expand_spec, charsub_clean).
   For every configuration whose Filenames.py has the repairs (legacy switches off), every forbidden-character set bad and substitute
   sub free of forbidden characters, every template whose names are of the documented grammar (pr_int of a well-formed name in which
   every variable occurs once): every file name issued to a node is  add_extension (literals of ONE alternative of the template ++
   values of its variables), and every VARIABLE PART -- the value substituted for a variable other than $num ($id, $title, $ref,
   $name, $jobname; not the literal text of the template, whose characters are the user's own choice, and not the digits of $num) --
   contains none of the forbidden characters.  _partial: for a word-limited variable $x(n) this needs the blank not to be forbidden. *)
Theorem C13_names_clean_partial :
  forall c doc st files bad sub tfiles static wild,
    assign c doc = Some (AOk st files) ->
    legacy_reset (r_fc c) = false -> legacy_words (r_fc c) = false ->
    cs (r_fc c) = Some (bad, sub) -> clean bad sub ->
    parse_filenames (r_template c) = Some tfiles -> split_files tfiles [] = (static, wild) ->
    (forall item, In item (static ++ wild) -> exists nt, item = pr_int nt /\ wf_name nt /\ NoDup (map fst (keys_of nt))) ->
    forall x f, In (x, Some f) files ->
      exists nt v n1 r,
        In (pr_int nt) (static ++ wild) /\ spec_expand (r_fc c) n1 v nt = Some r /\ f = add_extension (ext (r_fc c)) r /\
        forall y w val, In (SVar y w) nt -> str_eqb y k_num = false -> var_value (r_fc c) n1 v y w = Some val ->
                        (w = None \/ ~ In 32 bad) -> clean bad val.
Proof. exact names_clean. Qed.
Print Assumptions C13_names_clean_partial.

(* the full clause is refuted on the faithful Model: the words of $title(2) are split and joined by blanks AFTER the forbidden
   characters were replaced, so with the blank forbidden a value holding other white space (a no-break space, from ~) gets a blank
   back: title "A<nbsp>B C", bad-chars " ", substitute "-"  ->  "A B-C".  Reproduced on the real Filenames ('A B-C.html'); finding
   C13-word-limit-reintroduces-blank (notes/C13/known.json). *)
Theorem C13_names_clean_refuted :
  let c := mk_fcfg [32] [45] [46;104;116;109;108] 0 0 0 in
  let v := [(k_title, [65; 160; 66; 32; 67])] in
  let nt := [SVar k_title (Some [50])] in
  wf_name nt /\ spec_expand c 1 v nt = Some [65; 32; 66; 45; 67] /\ In 32 [65; 32; 66; 45; 67] /\ cs c = Some ([32], [45]).
Proof. exact names_clean_refuted. Qed.
Print Assumptions C13_names_clean_refuted.

(* run-to-run determinism, stated explicitly: the same configuration, document and footnote list give the same assignment, hence the same
   set of files, and the same contents (assign and render are functions; nothing else -- clock, hash order, earlier runs -- enters).
   The correspondence renders every case twice in two pristine processes and compares the files byte for byte (tag "rendered-twice"). *)
Theorem C13_deterministic :
  forall c1 c2 d1 d2 fn1 fn2 tmpl layout shows,
    c1 = c2 -> d1 = d2 -> fn1 = fn2 ->
    assign c1 d1 = assign c2 d2 /\
    forall st1 st2 files1 files2, assign c1 d1 = Some (AOk st1 files1) -> assign c2 d2 = Some (AOk st2 files2) ->
      files1 = files2 /\
      render (the_fmap files1) tmpl layout shows d1 fn1 = render (the_fmap files2) tmpl layout shows d2 fn2.
Proof. exact render_deterministic. Qed.
Print Assumptions C13_deterministic.

(* ---- added in the second deepening round: the assignment computed by the Model discharges the hypotheses about fmap ---- *)

(* "each sectioning unit at or above the split level is written to its own file, units below it [are not]": for every configuration and
   every document with distinct node identities, if the assignment succeeds then a node of the document has a file exactly when its level
   is <= the effective split level, and none exactly when it is above *)
Theorem C13_units_by_level :
  forall c doc st files, assign c doc = Some (AOk st files) -> NoDup (sers doc) ->
    forall a, In a (elements doc) ->
      ((exists f, the_fmap files (a_ser a) = Some f) <-> a_level a <= eff_level c) /\
      (the_fmap files (a_ser a) = None <-> eff_level c < a_level a).
Proof. exact assigned_iff_level. Qed.
Print Assumptions C13_units_by_level.

(* the names issued are never empty when the renderer has a file extension (so "has a filename" in __str__ / url / footnotes, a truth test,
   and "filename is not None" agree), and for split levels below ENDSECTIONS_LEVEL every node with a file is a section-level unit, the owner
   of the footnotes below it *)
Theorem C13_assigned_names_and_owners :
  forall c doc st files, assign c doc = Some (AOk st files) -> NoDup (sers doc) -> ext (r_fc c) <> [] ->
    names_nonempty (the_fmap files) /\
    (forall a, In a (elements doc) -> has_file (the_fmap files) a = (a_level a <=? eff_level c)) /\
    (eff_level c < ENDSECTIONS_LEVEL -> forall a, In a (elements doc) -> is_owner (the_fmap files) a = has_file (the_fmap files) a).
Proof.
  intros c doc st files HA ND He. split; [exact (assigned_nonempty c doc st files HA He)|]. split; [exact (assigned_has_file c doc st files HA ND He)|].
  intros L. exact (assigned_owner c doc st files HA ND He L).
Qed.
Print Assumptions C13_assigned_names_and_owners.

(* END TO END (configuration + document |- files): for every configuration with a split level in [DOCUMENT_LEVEL, ENDSECTIONS_LEVEL) and a
   non-empty extension, every document whose root is the DOCUMENT_NODE, all linear templates: if the assignment succeeds then
   (1) a node has a file iff level <= split level; names pairwise distinct and not empty; (2) exactly one file is written per reached unit,
   holding the unit's own text in document order followed by its footnotes; (3) all files together hold every text leaf exactly once.
   The hypotheses about fmap of C13_split_partition (top_unit: the document unit has a file and owns footnotes) are discharged here. *)
Theorem C13_split_by_level :
  forall c ra rcs fnotes st files tmpl layout shows is_note,
    let doc := E ra rcs in
    let fm := the_fmap files in
    assign c doc = Some (AOk st files) -> NoDup (sers doc) -> ext (r_fc c) <> [] ->
    DOCUMENT_LEVEL <= eff_level c -> eff_level c < ENDSECTIONS_LEVEL ->
    tmpl_linear tmpl shows -> layout_linear layout -> notes_listed is_note doc fnotes ->
    a_isdoc ra = true ->
    (forall c0, In c0 rcs -> vis ra c0 = true ->
       match c0 with E da _ => is_note da = false /\ shows da = true | T _ => False end /\ sound fm shows is_note c0) ->
    (forall a, In a (elements doc) -> has_file fm a = (a_level a <=? eff_level c)) /\
    NoDup (file_names files) /\ names_nonempty fm /\
    render fm tmpl layout shows doc fnotes =
      map (fun p => (fname fm (fst p), content fm tmpl layout doc fnotes (fst p) (snd p)))
          (flat_map (fun c0 => if vis ra c0 then producers fm shows c0 else []) rcs) /\
    (forall p, In p (flat_map (fun c0 => if vis ra c0 then producers fm shows c0 else []) rcs) ->
               words (content fm tmpl layout doc fnotes (fst p) (snd p)) = fwords fm shows is_note p) /\
    Permutation (flat_map (fun f => words (snd f)) (render fm tmpl layout shows doc fnotes)) (leaves doc).
Proof. exact split_by_level. Qed.
Print Assumptions C13_split_by_level.

(* "units below it are written inside their nearest file-producing ancestor", read from the text leaf: every leaf in the body of the file of
   unit a has a as its NEAREST ancestor with a file along the parentNode chain -- every node between has none and shows its content -- and is
   among the words of that file's body (with C13_units_by_level: a is the nearest ancestor whose level is <= the split level) *)
Theorem C13_leaf_nearest_unit :
  forall fmap shows chp a cs ch' w,
    names_nonempty fmap -> has_file fmap a = true ->
    In (ch', w) (flat_map (fun c => if vis a c then shown_leaves fmap shows (a :: chp) c else []) cs) ->
    find (filep fmap) ch' = Some a /\
    (exists mid, ch' = mid ++ a :: chp /\ Forall (fun p => shows p = true /\ fmap (a_ser p) = None) mid) /\
    In w (kids_words fmap shows a cs).
Proof. exact leaf_nearest_unit. Qed.
Print Assumptions C13_leaf_nearest_unit.

(* "in document order within that file": the body text of a file is an order-preserving sub-sequence of the text leaves of its unit
   (and the footnote text comes after it: C13_file_words) *)
Theorem C13_body_in_document_order :
  forall fmap shows a cs, subseq (kids_words fmap shows a cs) (leaves (E a cs)).
Proof. exact kids_words_subseq. Qed.
Print Assumptions C13_body_in_document_order.

Example C13_assigned_nonvacuous :
  NoDup (sers ex_doc) /\ ext (r_fc ex_cfg) <> [] /\ DOCUMENT_LEVEL <= eff_level ex_cfg /\ eff_level ex_cfg < ENDSECTIONS_LEVEL /\ a_isdoc ex_root = true /\
  nested (E ex_docenv [T 1; E ex_sec1 [T 2; E ex_fn [T 3]; T 4]; E ex_sec2 [T 5]]) /\
  a_level ex_docenv = DOCUMENT_LEVEL /\
  (forall b, In b (flat_map elements [T 1; E ex_sec1 [T 2; E ex_fn [T 3]; T 4]; E ex_sec2 [T 5]]) -> a_level b <> DOCUMENT_LEVEL) /\
  In ([ex_sec1; ex_docenv; ex_root], 2)
     (flat_map (fun c => if vis ex_sec1 c then shown_leaves (the_fmap ex_files) std_shows [ex_sec1; ex_docenv; ex_root] c else []) [T 2; E ex_fn [T 3]; T 4]) /\
  has_file (the_fmap ex_files) ex_sec1 = (a_level ex_sec1 <=? eff_level ex_cfg).
Proof. exact ex_assigned. Qed.

(* the premises of the end-to-end theorem are decidable ([hyps_b]: root of type DOCUMENT_NODE, distinct node identities, extension, legal split
   level, footnote list = footnote nodes, every rendered child a document-level unit that the linear templates render without loss) and the
   extracted Model evaluates them on every case of the correspondence.  Whenever the answer is true and the assignment succeeds, what the
   extracted Model computes with the table of the shipped templates has: files by level, distinct names, every text leaf exactly once, and
   every file holds exactly the Spec's words of one unit. *)
Theorem C13_checked_case :
  forall c doc fnotes st files e,
    assign c doc = Some (AOk st files) -> hyps_b c doc fnotes files = true ->
    let fm := the_fmap files in
    (forall a, In a (elements doc) -> has_file fm a = (a_level a <=? eff_level c)) /\
    NoDup (file_names files) /\
    Permutation (flat_map (fun f => words (snd f)) (render fm (std_tmpl e) std_layout std_shows doc fnotes)) (leaves doc) /\
    (forall f, In f (render fm (std_tmpl e) std_layout std_shows doc fnotes) ->
       exists p, fst f = fname fm (fst p) /\ words (snd f) = fwords fm std_shows std_note p).
Proof. exact checked_case. Qed.
Print Assumptions C13_checked_case.

Example C13_checked_nonvacuous :
  match assign ex_cfg ex_doc with Some (AOk _ files) => hyps_b ex_cfg ex_doc [3] files = true | _ => False end.
Proof. exact ex_checked. Qed.
