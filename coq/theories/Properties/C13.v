(* C13 -- Rendering splits the document into files without losing or repeating content.
   This file contains only statements closed by [exact] and their assumptions.
   Model: Model/Render.v (Renderer.render / cacheFilenames / Renderable.filename / Renderable.__str__ / SectionUtils.footnotes of
   plasTeX, on top of the C15 Model of Filenames.py).  Spec definitions used below are in Proofs/RenderProofs.v:
     askers lvl doc      the element nodes with level <= lvl, document (DFS pre-) order
     own_words n         the body text a node contributes to the file it is in (document order; stops at units with a file of their
                         own and at nodes whose template does not show their content, i.e. footnotes)
     own_notes n         the footnotes below n that belong to the file n is in (stops at section-level units with a file)
     fwords (a, cs)      what the file of unit (a, cs) must hold: own body text in document order ++ text of its footnotes in order
     producers n         the file-producing units reached by the renderer, in the order their files are written
     leaves n            every text leaf of the rendered (sub)document, document order
     sound n             the document is one the linear templates can render without loss (see there)
   The template engines are not modelled: the theorems hold for EVERY node-template function tmpl, layout function and shows
   predicate that are linear in the body text (tmpl_linear, layout_linear); C13_std_templates_linear shows that the table of the
   shipped templates used by the extracted Model is an instance.  That Jinja2 / simpleTAL evaluate the shipped templates that way is
   what the correspondence check tests on every run. *)
From Coq Require Import List ZArith NArith Bool Permutation.
Import ListNotations.
From Verif Require Import Val Filenames FilenamesProofs Render RenderProofs.
Local Open Scope Z_scope.

(* M2 + M4 + "each unit at or above the split level has its own file": whenever the assignment succeeds, for every document, every
   split level and every filename template: it is one run of the filename generator over the bindings of exactly the nodes with
   level <= effective split level, in document order (M4: the i-th such node gets the i-th name issued, so $num grows along the
   document); every one of them gets a name, no other node does; the names are pairwise distinct (M2).  [assign] is a function of
   (configuration, document) only, so the names are the same on every run. *)
Theorem C13_assignment :
  forall (c : rcfg) (doc : node) (st : Filenames.st) (files : fileslist),
    assign c doc = Some (AOk st files) ->
    exists tfiles out,
      parse_filenames (r_template c) = Some tfiles /\
      run (r_fc c) (gen_init c tfiles) (map bindings (askers (eff_level c) doc)) = (out, st) /\
      map fst files = map a_ser (askers (eff_level c) doc) /\
      map snd files = map Some (names_of out) /\
      NoDup (file_names files).
Proof. exact assign_spec. Qed.
Print Assumptions C13_assignment.

(* M3: a template without a blank and without '[' names a single file: the split level is -10 whatever split-level says, so by
   C13_assignment only nodes with level <= -10 (the document environment, level -sys.maxsize) ask for a name; a (sub)tree whose
   levels are all above -10 gets no file at all, i.e. is rendered inside its ancestor's file. *)
Theorem C13_single_file :
  forall c, single_template (r_template c) = true ->
    eff_level c = -10 /\
    forall n, (forall a, In a (elements n) -> -10 < a_level a) -> askers (eff_level c) n = [].
Proof.
  intros c H. split; [exact (single_file_level c H)|]. intros n Hn. rewrite (single_file_level c H). exact (askers_none (-10) n Hn).
Qed.
Print Assumptions C13_single_file.

(* M1, per file: for every document with distinct node identities whose footnote list is the list of its footnote nodes, every
   assignment of files to nodes (fmap), and every unit (a, cs) of the document: the words of the file content computed by the Model of
   Renderable.__str__ + the layout are exactly the unit's own body text in document order -- not entering nested units that have
   their own file -- followed by the text of the footnotes that belong to it (found by SectionUtils.footnotes' global scan with
   parentNode walks; proved equal to the structural own_notes), in the order of the footnote list. *)
Theorem C13_file_words :
  forall fmap tmpl layout shows is_note,
    tmpl_linear tmpl shows -> layout_linear layout ->
    forall doc fnotes ch a cs,
      NoDup (sers doc) -> notes_listed is_note doc fnotes -> In (ch, a, cs) (elems_ctx [] doc) ->
      words (content fmap tmpl layout doc fnotes a cs) = fwords fmap shows is_note (a, cs).
Proof. exact file_words. Qed.
Print Assumptions C13_file_words.

(* M1: for every document (root of type DOCUMENT_NODE or not), every assignment of files, every split: the files written are exactly
   those of the file-producing units reached, one each, in order; each holds the words the Spec gives it; and all files together hold
   every text leaf of the rendered document exactly once (as a multiset: Permutation). *)
Theorem C13_split_partition :
  forall fmap tmpl layout shows is_note,
    tmpl_linear tmpl shows -> layout_linear layout ->
    forall ra rcs fnotes,
      let doc := E ra rcs in
      NoDup (sers doc) -> notes_listed is_note doc fnotes ->
      (forall c, In c rcs -> vis ra c = true -> sound fmap shows is_note c /\ top_unit fmap shows is_note c) ->
      render fmap tmpl layout shows doc fnotes =
        map (fun p => (fname fmap (fst p), content fmap tmpl layout doc fnotes (fst p) (snd p)))
            (flat_map (fun c => if vis ra c then producers fmap shows c else []) rcs) /\
      (forall p, In p (flat_map (fun c => if vis ra c then producers fmap shows c else []) rcs) ->
                 words (content fmap tmpl layout doc fnotes (fst p) (snd p)) = fwords fmap shows is_note p) /\
      Permutation (flat_map (fun f => words (snd f)) (render fmap tmpl layout shows doc fnotes)) (leaves doc).
Proof. exact split_partition. Qed.
Print Assumptions C13_split_partition.

(* ... hence, when the text leaves are pairwise different (the marker words of the correspondence), every leaf is in exactly one file,
   at exactly one place, and nothing else is *)
Theorem C13_each_word_once :
  forall fmap tmpl layout shows is_note,
    tmpl_linear tmpl shows -> layout_linear layout ->
    forall ra rcs fnotes,
      let doc := E ra rcs in
      NoDup (sers doc) -> notes_listed is_note doc fnotes ->
      (forall c, In c rcs -> vis ra c = true -> sound fmap shows is_note c /\ top_unit fmap shows is_note c) ->
      NoDup (leaves doc) ->
      let allw := flat_map (fun f => words (snd f)) (render fmap tmpl layout shows doc fnotes) in
      NoDup allw /\ (forall w, In w allw <-> In w (leaves doc)).
Proof. exact each_word_once. Qed.
Print Assumptions C13_each_word_once.

(* the footnotes of a file: the global scan of userdata['footnotes'] with currentSection walks selects exactly the footnotes below the
   unit that are not below a nested section-level unit with a file -- and none when the unit is not section-level *)
Theorem C13_footnotes_of_file :
  forall fmap tmpl is_note doc fnotes ch a cs,
    NoDup (sers doc) -> notes_listed is_note doc fnotes -> In (ch, a, cs) (elems_ctx [] doc) ->
    footnotes_of fmap tmpl doc fnotes a =
      if is_owner fmap a then note_strs fmap tmpl (flat_map (own_notes fmap is_note) cs) else [].
Proof. exact footnotes_struct. Qed.
Print Assumptions C13_footnotes_of_file.

(* the table of the shipped templates that the extracted Model runs with is linear (the hypotheses above are satisfiable) *)
Theorem C13_std_templates_linear :
  (forall e, tmpl_linear (std_tmpl e) std_shows) /\ layout_linear std_layout /\ (forall a, std_note a = true -> std_shows a = false).
Proof. exact (conj std_tmpl_linear (conj std_layout_linear std_note_hidden)). Qed.
Print Assumptions C13_std_templates_linear.

(* non-vacuity: \begin{document} w1 \section{t}\label{s1} w2 \footnote{w3} w4 \section{u} w5 \end{document}, split level 2, default
   template: three files; the footnote text w3 comes after w2 w4 in s1.html; the hypotheses of C13_split_partition hold *)
Example C13_nonvacuous :
  match assign ex_cfg ex_doc with
  | Some (AOk _ files) =>
      files = [(1, Some ex_index); (2, Some ex_s1); (4, Some ex_sect1)] /\
      map (fun f => (fst f, words (snd f)))
          (render (the_fmap files) (std_tmpl (the_env ex_doc ex_cfg files false)) std_layout std_shows ex_doc [3]) =
        [(ex_s1, [2; 4; 3]); (ex_sect1, [5]); (ex_index, [1])] /\
      NoDup (sers ex_doc) /\ notes_listed std_note ex_doc [3] /\
      (forall c, In c ex_kids -> vis ex_root c = true ->
                 sound (the_fmap files) std_shows std_note c /\ top_unit (the_fmap files) std_shows std_note c)
  | _ => False
  end.
Proof. exact ex_nonvacuous. Qed.
