(* C12 -- Rendered HTML never turns document text into markup.
   Only statements closed by [exact] and their assumptions.  Model: Model/HtmlEsc.v (textDefault, processFileContent,
   setImageData, Renderable.__str__ over abstract templates); Spec: Spec/HtmlSpec.v (WHATWG tokenizer: data state, tags,
   comments, character references).  [ents] is any well-formed table of named references that knows amp; lt; gt;. *)
From Coq Require Import List NArith Bool.
Import ListNotations.
From Verif Require Import Val HtmlSpec HtmlEsc HtmlEscProofs HtmlTagsProofs Templates.
Local Open Scope N_scope.

(* ---- M1: textDefault --------------------------------------------------------------------------------------------- *)

(* For every string s: escape s holds no "<" and no ">", every "&" in it starts &amp; &lt; or &gt;, an HTML parser reads it
   back as exactly the characters of s, and as nothing but characters. *)
Theorem C12_escape_inert :
  forall ents, ents_ok ents -> forall s : str,
    ~ In 60 (escape s) /\ ~ In 62 (escape s) /\
    (forall pre post, escape s = pre ++ 38 :: post ->
       prefixb s_amp_semi post || prefixb s_lt_semi post || prefixb s_gt_semi post = true) /\
    html_text ents (escape s) = s /\ markup_free ents (escape s).
Proof. exact escape_inert_full. Qed.

(* ... in any context: whatever follows, the parser yields the characters of s and is in the data state again *)
Theorem C12_escape_inert_ctx :
  forall ents, ents_ok ents -> forall s rest : str,
    tok ents (Data 0) (escape s ++ rest) = map Chr s ++ tok ents (Data 0) rest.
Proof. exact escape_inert_ctx. Qed.

(* text marked isMarkup is passed through unchanged (the author's own markup) *)
Theorem C12_markup_passthrough : forall s : str, text_default true s = s.
Proof. exact text_default_markup. Qed.

(* ---- M2: high characters --------------------------------------------------------------------------------------------- *)

(* For every text of code points that are ASCII or that a numeric reference denotes exactly (all scalar values except the C1
   controls): with the option on the output is pure ASCII, reads back as s and holds no markup; with the option off it reads
   back as the same text. *)
Theorem C12_highchars :
  forall ents, ents_ok ents -> forall s : str, text_ok s ->
    (forall x, In x (post_high true (escape s)) -> x <= 127) /\
    html_text ents (post_high true (escape s)) = s /\
    markup_free ents (post_high true (escape s)) /\
    html_text ents (post_high false (escape s)) = html_text ents (post_high true (escape s)).
Proof. exact highchars. Qed.

Theorem C12_highchars_ctx :
  forall ents, ents_ok ents -> forall s rest : str, text_ok s ->
    tok ents (Data 0) (post_high true (escape s) ++ rest) = map Chr s ++ tok ents (Data 0) rest.
Proof. exact highchars_ctx. Qed.

(* which code points: everything above 127 that is a scalar value outside U+0080..U+009F *)
Theorem C12_ref_exact :
  forall c, 127 < c -> (c < 128 \/ 159 < c) -> c <= 1114111 -> (c < 55296 \/ 57343 < c) -> fix_code c = c.
Proof. exact ref_exact_intro. Qed.

(* a C1 control is changed by the option (HTML remaps &#133; to U+2026): known finding C12-highchar-c1 *)
Theorem C12_highchars_c1_refuted :
  exists s, html_text core_ents (post_high true (escape s)) <> s /\ html_text core_ents (post_high false (escape s)) = s.
Proof. exact highchars_c1_refuted. Qed.

(* ---- M4: image placeholders --------------------------------------------------------------------------------------------- *)

(* After fix-1: processFileContent leaves every file alone in which the placeholder pattern finds no name of an existing image;
   so document text survives it unless it spells the placeholder of an image that exists. *)
Theorem C12_placeholder_fixed_id :
  forall (imgs : imgtable) (x : str),
    (forall f, In f (candidates 0 x) -> assoc_str f imgs = None) -> sub_placeholder true imgs 0 x = Some x.
Proof. exact placeholder_fixed_id. Qed.

Theorem C12_placeholder_safe :
  forall ents, ents_ok ents -> forall (imgs : imgtable) (hi : bool) (s : str), text_ok s ->
    (forall f, In f (candidates 0 (escape s)) -> assoc_str f imgs = None) ->
    exists out, post true imgs hi (escape s) = Some out /\ html_text ents out = s /\ markup_free ents out.
Proof. exact placeholder_safe. Qed.

Theorem C12_placeholder_no_images : forall x : str, sub_placeholder true [] 0 x = Some x.
Proof. exact placeholder_no_images. Qed.

(* The code before fix-1 meets this only for text without a look-alike (no -width; -height; -depth; in it) ... *)
Theorem C12_placeholder_safe_partial :
  forall ents, ents_ok ents -> forall (imgs : imgtable) (hi : bool) (s : str), text_ok s -> suffix_free (escape s) ->
    exists out, post false imgs hi (escape s) = Some out /\ html_text ents out = s /\ markup_free ents out.
Proof. exact placeholder_safe_partial. Qed.

(* ... and fails otherwise:  &lt-width;  is displayed as  <-width;   and   &x-height;&pt;  as  &x-height;  *)
Theorem C12_placeholder_refuted :
  (exists out, post false [] false (escape w_lt_width) = Some out /\ html_text core_ents out = [60; 45; 119; 105; 100; 116; 104; 59]) /\
  (exists out, post false [] false (escape w_x_height_pt) = Some out /\ html_text core_ents out = [38; 120; 45; 104; 101; 105; 103; 104; 116; 59]).
Proof. exact placeholder_refuted. Qed.

(* What remains after fix-1 (known finding C12-placeholder-forged-image-name): text spelling the placeholder of an existing image *)
Theorem C12_placeholder_forged_refuted :
  exists out, post true w_img false (escape w_forged) = Some out /\ html_text core_ents out <> w_forged.
Proof. exact placeholder_forged_refuted. Qed.

(* ---- the tag clean-ups of HTML5 / XHTML.processFileContent (after fix-3: ASCII classes) ------------------------------------ *)

(* They only ever start at a "<": a string without one - in particular all escaped document text, with or without high-character
   escaping - is returned unchanged (what they do between the templates' own tags is tied by correspondence only). *)
Theorem C12_post_tags_text : forall x : str, ~ In 60 x -> post_html5 x = x /\ post_xhtml x = x.
Proof. exact post_tags_text. Qed.

Theorem C12_post_tags_escape :
  forall (hi : bool) (s : str),
    post_html5 (post_high hi (escape s)) = post_high hi (escape s) /\ post_xhtml (post_high hi (escape s)) = post_high hi (escape s).
Proof. exact post_tags_escape. Qed.

(* On a whole file: see the file as a list of items - text characters (anything but "<") and tags ("<" body ">" with neither "<"
   nor ">" in the body).  For EVERY such file the regular-expression scans are exactly item-level rewrites:
   r1 (empty paragraphs) removes groups  <p> blank* </p>  and nothing else; r2 (empty cells) replaces the blanks of groups
   <td..> blank* </td>  (same for th) by &nbsp; and nothing else. *)
Theorem C12_r1_items : forall l : list item, structured l -> exists l', r1_rel l l' /\ r1 (flat l) = flat l'.
Proof. exact r1_items. Qed.

Theorem C12_r2_items : forall l : list item, structured l -> exists l', r2_rel l l' /\ r2 (flat l) = flat l'.
Proof. exact r2_items. Qed.

(* hence: every text character that is not an ASCII blank survives r1 in order, and so does every tag other than <p> / </p>;
   r2 keeps every tag and only adds "&nbsp;" to the visible text *)
Theorem C12_r1_keeps : forall l l' : list item, r1_rel l l' -> vis l' = vis l /\ other_tags l' = other_tags l.
Proof. exact r1_keeps. Qed.

Theorem C12_r2_keeps : forall l l' : list item, r2_rel l l' -> tags_of l' = tags_of l /\ adds_nbsp (vis l) (vis l').
Proof. exact r2_keeps. Qed.

(* HTML5.processFileContent's clean-up as a whole (r2 after r1) *)
Theorem C12_post_html5_items :
  forall l : list item, structured l ->
    exists l1 l2, r1_rel l l1 /\ r2_rel l1 l2 /\ post_html5 (flat l) = flat l2 /\
                  other_tags l2 = other_tags l /\ adds_nbsp (vis l) (vis l2).
Proof. exact post_html5_items. Qed.

(* XHTML: r0 rewrites each tag on its own (a tag named hr, br, img, link, meta or col gets its end replaced by " />", every other
   item is returned as it is), the result is again a structured file; then as for HTML5 *)
Theorem C12_r0_items :
  forall l : list item, structured l -> r0 (flat l) = flat (map r0_item l) /\ structured (map r0_item l).
Proof. exact r0_items. Qed.

Theorem C12_post_xhtml_items :
  forall l : list item, structured l ->
    exists l1 l2, r1_rel (map r0_item l) l1 /\ r2_rel l1 l2 /\ post_xhtml (flat l) = flat l2 /\ adds_nbsp (vis l) (vis l2).
Proof. exact post_xhtml_items. Qed.

Example C12_xhtml_clean_up_nonvacuous :
  structured [G [60; 98; 114; 62]; T 97; G [60; 105; 109; 103; 32; 97; 61; 98; 32; 62]; G [60; 98; 62]] /\
  post_xhtml (flat [G [60; 98; 114; 62]; T 97; G [60; 105; 109; 103; 32; 97; 61; 98; 32; 62]; G [60; 98; 62]]) =
  flat [G [60; 98; 114; 32; 47; 62]; T 97; G [60; 105; 109; 103; 32; 97; 61; 98; 32; 47; 62]; G [60; 98; 62]].
Proof. exact ex_r0. Qed.

(* non-vacuity: <p> blanks </p> <td x> blank </td> <p> a U+00A0 </p>  is structured; the empty paragraph goes, the cell is filled,
   the paragraph holding a no-break space stays *)
Example C12_clean_up_nonvacuous :
  structured ex_items /\
  post_html5 (flat ex_items) = flat [G [60; 116; 100; 32; 120; 62]; T 38; T 110; T 98; T 115; T 112; T 59; G [60; 47; 116; 100; 62];
                                    G [60; 112; 62]; T 97; T 160; G [60; 47; 112; 62]].
Proof. exact ex_items_ok. Qed.

(* ---- M5: attribute context --------------------------------------------------------------------------------------------- *)

(* Jinja2's "e" filter (fix-2 in the layout templates): the attribute value read back is s, and reading resumes right after
   the template's closing quote; the tokenizer stays inside the same tag over the escaped text. *)
Theorem C12_attr_context_e :
  forall ents, ents_ok ents -> forall s rest : str, attr_dq ents 0 (escape_e s ++ 34 :: rest) = Some (s, rest).
Proof. exact attr_context_e. Qed.

Theorem C12_attr_stays_in_tag :
  forall ents (s acc rest : str),
    tok ents (Tag QD acc) (escape_e s ++ rest) = tok ents (Tag QD (rev (escape_e s) ++ acc)) rest.
Proof. exact attr_stays_in_tag. Qed.

(* simpleTAL's attribute escaper html.escape(quote=1) (XHTML renderer), for tables that know quot; *)
Theorem C12_attr_context_html :
  forall ents, ents_ok ents -> has ents s_quot_semi /\ knows ents s_quot_semi [34] ->
    forall s rest : str, attr_dq ents 0 (escape_html true s ++ 34 :: rest) = Some (s, rest).
Proof. exact attr_context_html. Qed.

(* textDefault's escaping alone does not protect an attribute value *)
Theorem C12_attr_context_refuted :
  exists s rest, attr_dq core_ents 0 (escape s ++ 34 :: rest) <> Some (s, rest).
Proof. exact attr_context_refuted. Qed.

(* ---- M3: rendering ----------------------------------------------------------------------------------------------------- *)

(* For every table of templates whose pieces are literals that leave the parser in the data state, rendered children, rendered
   attributes, or escaped text between a literal that opens a double-quoted attribute value and one that closes it, and for every
   document tree (any depth, any .str shortcuts, isMarkup text that is itself closed): parsing the rendered string yields
   exactly the templates' own tokens, the characters of the text leaves in order, and one tag per attribute-embedded text. *)
Theorem C12_render_text :
  forall ents (td : bool -> str -> str) (te tr : str -> str) (tpl : N -> list piece) (good : str -> Prop),
    td_inert ents td good -> te_quote_free te -> (forall nm, tpl_ok ents (tpl nm)) ->
    forall root, tree_ok ents td good root ->
      tokenize ents (node_str td te tr tpl root) = etoks_str ents td te tr tpl root.
Proof. exact render_text. Qed.

(* the shipped text functions, escape-high-chars off *)
Theorem C12_render_text_plain :
  forall ents, ents_ok ents -> forall (tpl : N -> list piece) root,
    (forall nm, tpl_ok ents (tpl nm)) -> tree_ok ents text_default any_text root ->
    tokenize ents (node_str text_default escape_e id_str tpl root) = etoks_str ents text_default escape_e id_str tpl root.
Proof. exact render_text_plain. Qed.

(* escape-high-chars on: pure ASCII, and the same characters for every text leaf (the expected tokens are those of the templates
   after the same pass) *)
Theorem C12_render_text_high :
  forall ents, ents_ok ents -> forall (tpl : N -> list piece) root,
    (forall nm, tpl_ok ents (tpl_hi tpl nm)) -> tree_ok ents td_hi text_ok root ->
    (forall x, In x (post_high true (node_str text_default escape_e id_str tpl root)) -> x <= 127) /\
    tokenize ents (post_high true (node_str text_default escape_e id_str tpl root)) =
    etoks_str ents td_hi te_hi tr_hi (tpl_hi tpl) root.
Proof. exact render_text_high. Qed.

(* processFileContent as a whole on a rendered file *)
Theorem C12_render_text_post :
  forall (tpl : N -> list piece) (imgs : imgtable) root,
    let file := node_str text_default escape_e id_str tpl root in
    (forall f, In f (candidates 0 file) -> assoc_str f imgs = None) ->
    post true imgs false file = Some file /\ post true imgs true file = Some (post_high true file).
Proof. exact render_text_post. Qed.

(* a template that writes a title's DOM text into an attribute unescaped (the layouts before fix-2) lets a title add an element *)
Theorem C12_render_raw_refuted :
  In (Markup [60; 115; 62]) (tokenize core_ents (node_str text_default escape_e id_str w_tpl w_doc)).
Proof. exact render_raw_refuted. Qed.

(* ---- the shipped templates (regenerated table Gen/Templates.v) -------------------------------------------------------------- *)

(* Every output expression of the HTML5 (Jinja2) and XHTML (simpleTAL) templates, classified by HTML context and by the kind of
   value: none writes the DOM text of a node unescaped, none puts a rendered node or unescaped text inside an attribute value,
   a tag, a script/style element or a comment (reviewed exceptions outside the property's positions are listed in the file). *)
Theorem C12_templates_ok : forallb emitter_ok emitters = true.
Proof. exact templates_ok. Qed.

(* ---- non-vacuity ------------------------------------------------------------------------------------------------------- *)

Theorem C12_core_ents_ok : ents_ok core_ents /\ (has core_ents s_quot_semi /\ knows core_ents s_quot_semi [34]).
Proof. exact (conj core_ents_ok core_ents_quot). Qed.

(* a template table with a paragraph template and a link template with an escaped title attribute, a document with the text
   a<&"e-acute> in a paragraph, a .str shortcut and an attribute: the hypotheses of M3 hold and the parser sees
   <p> a < & " e-acute > & </p> then one <a ...> tag, the rendered attribute, </a>  -- with and without high-character escaping *)
Example C12_nonvacuous :
  (forall nm, tpl_ok core_ents (ex_tpl nm)) /\ tree_ok core_ents text_default text_ok ex_doc /\ text_ok ex_text /\
  chars_of (tokenize core_ents (node_str text_default escape_e id_str ex_tpl ex_doc)) = ex_text ++ [38] ++ ex_text /\
  chars_of (tokenize core_ents (post_high true (node_str text_default escape_e id_str ex_tpl ex_doc))) = ex_text ++ [38] ++ ex_text /\
  length (filter (fun t => negb (is_chr t)) (tokenize core_ents (node_str text_default escape_e id_str ex_tpl ex_doc))) = 4%nat /\
  html_text core_ents (escape ex_text) = ex_text /\
  (exists f, In f (candidates 0 (escape w_lt_width))).
Proof. exact nonvacuous_example. Qed.
