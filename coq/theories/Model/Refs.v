(* C09 -- Model of label registration / reference resolution.
   Follows, line by line,
     plasTeX/Context.py   Context.label (L555-590), Context.ref (L592-622), Context.__init__ (labels, refs, currentlabel)
     plasTeX/TeX.py       castLabel (L1031) = context.label(str) ; castRef (L1051) = context.ref(parentNode, name, str)
     plasTeX/__init__.py  Macro.refstepcounter (L555): context.currentlabel = self (also for starred objects, counter = '')
                          Macro.postParse: self.ref = \the<counter> ; Macro.id getter/setter (@id) ; Macro.idref (@idref dict)
     plasTeX/Base/LaTeX/Math.py  eqnarray.EndRow.invoke: res[1].ref = self.ref ; context.currentlabel = res[1]
   No proofs here.

   State.  Python objects are represented by their identity (an integer): [obj] for the objects that can be
   labelled (sections, equations, items, captions, theorem environments, eqnarray rows; any Macro in the
   API histories), [holder] for the nodes that carry an @idref dictionary (\ref, \pageref, \cite ... nodes).
   Dictionaries are insertion-ordered association lists with Python's update-in-place / append-at-end
   semantics.  The per-node dictionaries node.idref are kept as one partial map on (holder, key) pairs (the
   entries of one holder in the insertion order of that holder's dictionary); the per-node attributes @id
   and .ref as partial maps on obj. *)
From Coq Require Import List ZArith Bool.
Import ListNotations.
Local Open Scope Z_scope.

Definition str := list Z.      (* code points *)
Definition obj := Z.
Definition holder := Z.
Definition key := Z.

(* ---- Python dict as association list ---------------------------------------------------------- *)
Section Dict.
  Context {K V : Type} (eqb : K -> K -> bool).
  Fixpoint dget (k : K) (m : list (K * V)) : option V :=
    match m with
    | [] => None
    | (k', v) :: t => if eqb k k' then Some v else dget k t
    end.
  Definition dmem (k : K) (m : list (K * V)) : bool := match dget k m with Some _ => true | None => false end.
  (* d[k] = v : an existing key keeps its position, a new key goes to the end *)
  Fixpoint dset (k : K) (v : V) (m : list (K * V)) : list (K * V) :=
    match m with
    | [] => [(k, v)]
    | (k', v') :: t => if eqb k k' then (k', v) :: t else (k', v') :: dset k v t
    end.
  (* del d[k] *)
  Fixpoint ddel (k : K) (m : list (K * V)) : list (K * V) :=
    match m with
    | [] => []
    | (k', v') :: t => if eqb k k' then t else (k', v') :: ddel k t
    end.
End Dict.

Fixpoint str_eqb (a b : str) : bool :=
  match a, b with
  | [], [] => true
  | x :: a', y :: b' => Z.eqb x y && str_eqb a' b'
  | _, _ => false
  end.
Definition hk_eqb (a b : holder * key) : bool := Z.eqb (fst a) (fst b) && Z.eqb (snd a) (snd b).

(* ---- str.strip() ------------------------------------------------------------------------------ *)
(* the code points for which Python's str.isspace() holds *)
Definition is_ws (c : Z) : bool :=
  ((9 <=? c) && (c <=? 13)) || ((28 <=? c) && (c <=? 32)) || (c =? 133) || (c =? 160) || (c =? 5760) ||
  ((8192 <=? c) && (c <=? 8202)) || (c =? 8232) || (c =? 8233) || (c =? 8239) || (c =? 8287) || (c =? 12288).
Fixpoint lstrip (s : str) : str :=
  match s with
  | c :: t => if is_ws c then lstrip t else s
  | [] => []
  end.
Definition strip (s : str) : str := rev (lstrip (rev (lstrip s))).
Definition is_empty (s : str) : bool := match s with [] => true | _ => false end.

(* ---- values stored in an idref dictionary ----------------------------------------------------- *)
Inductive tgt :=
| TObj (o : obj)                 (* a document object *)
| TPlace (p : nat) (id : str).   (* the p-th "fake node": a fresh Macro() that is in no document, @id = id *)

(* ---- events ----------------------------------------------------------------------------------- *)
Inductive event :=
| ECurrent (o : obj)                    (* context.currentlabel = o      (refstepcounter, eqnarray.EndRow) *)
| ENumber (o : obj) (n : option str)    (* o.ref = n                     (postParse; EndRow; \nonumber: None) *)
| ELabel (l : str) (node : option obj)  (* context.label(l, node)        (castLabel: node = None) *)
| ERef (r : holder) (k : key) (l : str) (* context.ref(r, k, l)          (castRef: r = parentNode, k = argument name) *)
| EOpen                                 (* context.push(...)  -- a TeX group / environment begins *)
| EClose.                               (* context.pop(...)   -- ... ends.  currentlabel is an attribute of Context,
                                           not of the stack frames: neither touches it. *)

Record state := mkst {
  labels : list (str * obj);             (* Context.labels *)
  refs : list (str * list holder);       (* Context.refs : unresolved references *)
  idrefs : list ((holder * key) * tgt);  (* holder.idref[key] *)
  ids : list (obj * str);                (* obj.@id *)
  nums : list (obj * option str);        (* obj.ref *)
  current : option obj;                  (* Context.currentlabel *)
  nextp : nat                            (* number of fake nodes created so far *)
}.

Definition init : state := mkst [] [] [] [] [] None 0.

(* value.id : the @id attribute.  For an object without @id the getter would generate 'a%.10d' from a global
   counter; that branch is unreachable here (every object stored in an idref dictionary came out of
   Context.labels, and label() sets @id in the same statement) -- Proofs: idref_targets_have_ids. *)
Definition id_of (idm : list (obj * str)) (v : tgt) : option str :=
  match v with
  | TPlace _ i => Some i
  | TObj o => dget Z.eqb o idm
  end.

(* for key, value in list(obj.idref.items()):
       if value.id != label: continue
       obj.idref[key] = self.labels[label]          -- for one obj = r *)
Definition patch (idm : list (obj * str)) (l : str) (o : obj) (m : list ((holder * key) * tgt)) (r : holder)
  : list ((holder * key) * tgt) :=
  map (fun e : (holder * key) * tgt =>
         let '(hk, v) := e in
         if Z.eqb (fst hk) r
         then match id_of idm v with
              | Some i => if str_eqb i l then (hk, TObj o) else e
              | None => e
              end
         else e) m.

Definition do_label (st : state) (l0 : str) (node0 : option obj) : state :=
  let l := strip l0 in                                             (* label = label.strip() *)
  if is_empty l then st else                                       (* if not label: return *)
  let node := match node0 with Some n => Some n | None => current st end in   (* if node is None: node = self.currentlabel *)
  let st1 := match node with                                       (* if node is not None: *)
             | Some n => mkst (dset str_eqb l n (labels st)) (refs st) (idrefs st)   (* self.labels[label] = node *)
                              (dset Z.eqb n l (ids st)) (nums st) (current st) (nextp st) (* node.id = label *)
             | None => st
             end in
  (* if label in list(self.refs.keys()) and label in self.labels.keys(): *)
  if dmem str_eqb l (refs st1) && dmem str_eqb l (labels st1) then
    match dget str_eqb l (refs st1), dget str_eqb l (labels st1) with
    | Some hs, Some o =>
        mkst (labels st1) (ddel str_eqb l (refs st1))              (* del self.refs[label] *)
             (fold_left (patch (ids st1) l o) hs (idrefs st1))     (* for obj in self.refs[label]: ... *)
             (ids st1) (nums st1) (current st1) (nextp st1)
    | _, _ => st1
    end
  else st1.

Definition do_ref (st : state) (r : holder) (k : key) (l0 : str) : state :=
  let l := strip l0 in                                             (* label = label.strip() *)
  if is_empty l then st else                                       (* if not label: return *)
  match dget str_eqb l (labels st) with
  | Some o =>                                                      (* if label in self.labels: obj.idref[name] = self.labels[label]; return *)
      mkst (labels st) (refs st) (dset hk_eqb (r, k) (TObj o) (idrefs st)) (ids st) (nums st) (current st) (nextp st)
  | None =>
      let hs := match dget str_eqb l (refs st) with Some hs => hs | None => [] end in   (* if label not in refs: refs[label] = [] *)
      mkst (labels st) (dset str_eqb l (hs ++ [r]) (refs st))      (* self.refs[label].append(obj) *)
           (dset hk_eqb (r, k) (TPlace (nextp st) l) (idrefs st))  (* node = Macro(); node.id = label; obj.idref[name] = node *)
           (ids st) (nums st) (current st) (S (nextp st))
  end.

Definition step (st : state) (e : event) : state :=
  match e with
  | ECurrent o => mkst (labels st) (refs st) (idrefs st) (ids st) (nums st) (Some o) (nextp st)
  | ENumber o n => mkst (labels st) (refs st) (idrefs st) (ids st) (dset Z.eqb o n (nums st)) (current st) (nextp st)
  | ELabel l node => do_label st l node
  | ERef r k l => do_ref st r k l
  | EOpen => st
  | EClose => st
  end.

Definition run_from (st : state) (es : list event) : state := fold_left step es st.
Definition run (es : list event) : state := run_from init es.

(* what a renderer prints for a reference: ref_node.idref[key].ref *)
Definition printed (st : state) (r : holder) (k : key) : option str :=
  match dget hk_eqb (r, k) (idrefs st) with
  | Some (TObj o) => match dget Z.eqb o (nums st) with Some n => n | None => None end
  | _ => None
  end.
