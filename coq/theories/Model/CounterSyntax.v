(* C08 -- types shared by the regenerated table Gen/ClassCounters.v, the Model (Model/Counters.v) and the
   Spec (Model/NumberingSpec.v).  Characters are code points in Z; a name / string is a list of them. *)
From Coq Require Import List ZArith Bool.
Import ListNotations.
Local Open Scope Z_scope.

Definition str := list Z.
Definition name := list Z.

Fixpoint str_eqb (a b : str) : bool :=
  match a, b with
  | [], [] => true
  | x :: a', y :: b' => Z.eqb x y && str_eqb a' b'
  | _, _ => false
  end.
Definition name_eqb : name -> name -> bool := str_eqb.

(* the attribute selected by ${counter.attr}; Python: getattr(counter, attr) *)
Inductive repr := RArabic | RRoman | Rroman | RAlph | Ralph | RFnsymbol | RUnknown.

(* a format string after the two regular-expression passes of TheCounter.invoke:
   literal text and ${name} / ${name.attr} references *)
Inductive piece :=
| PLit (s : str)
| PRef (nm : name) (r : option repr).
Definition fmt := list piece.

(* one statement of a class's ProcessOptions *)
Inductive cop :=
| OpNew (nm : name) (resetby : option name) (f : fmt) (trim : bool)   (* context.newcounter(nm, resetby=, format=, trimLeft=) *)
| OpSetFormat (nm : name) (f : fmt).                                   (* document.context['the'+nm].format = ... *)

(* \appendix of a class: counters set to 0 (in order), and the \the<key> macro replaced by a new class with this format *)
Record appendix_def := mkapp { app_zero : list name; app_key : name; app_fmt : fmt; app_trim : bool }.
