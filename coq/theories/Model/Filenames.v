(* Model of plasTeX/Filenames.py : Filenames.parseFilenames, Filenames._newFilename (a Python generator,
   modelled as an explicit state machine over its suspension points), Filenames.addExtension, Filenames.__next__.

   Faithful to the Python, line by line:
   - the six normalising re.sub passes, keysre.findall, the format-stripping re.sub and string.Template.substitute
     are modelled as left-to-right scanners ("match at this position, replace, skip the matched characters"), which is
     the semantics of re.sub / re.findall for these patterns (their character classes are pairwise disjoint at every
     choice point, so greedy matching never backtracks successfully);
   - character classes: \s, str.strip, str.split = Python's Unicode white space (the full list); \w, \d and the
     identifiers of string.Template are modelled on ASCII only (templates are assumed ASCII, values may be anything);
   - uncaught Python exceptions are the outcome [RRaise k] and kill the generator; afterwards __next__ returns None;
   - self.variables is an association list in dict insertion order, self.invalid the list of its keys in insertion order.

   The [legacy] switches reproduce the code before the three proposed repairs (notes/C15/fix-1.diff, fix-2.diff, fix-3.diff):
   legacy_reset  = the namespace is reset to g also when a candidate is skipped as already taken;
   legacy_words  = the word limit pops from an empty list (IndexError) when the value has no words;
   legacy_passes = the pass counter of the give-up bound is never reset (it also counts the successful requests).
   The extracted Model runs with the switches off unless the case asks otherwise.  No proofs in this file. *)
From Coq Require Import List ZArith NArith Bool.
Import ListNotations.
From Verif Require Import Val.
Local Open Scope Z_scope.

Definition str := list Z.

Fixpoint str_eqb (a b : str) : bool :=
  match a, b with
  | [], [] => true
  | x :: a', y :: b' => (x =? y) && str_eqb a' b'
  | _, _ => false
  end.

Definition mem (s : str) (l : list str) : bool := existsb (str_eqb s) l.

(* ---- characters ---- *)
Definition c_dollar := 36.  Definition c_lbrace := 123.  Definition c_rbrace := 125.
Definition c_lparen := 40.  Definition c_rparen := 41.   Definition c_lbrack := 91.  Definition c_rbrack := 93.
Definition c_comma := 44.   Definition c_dot := 46.      Definition c_slash := 47.   Definition c_space := 32.
Definition c_zero := 48.

Definition between (a c b : Z) : bool := (a <=? c) && (c <=? b).
(* str.isspace / \s / str.split() / str.strip() *)
Definition is_space (c : Z) : bool :=
  between 9 c 13 || between 28 c 32 || (c =? 133) || (c =? 160) || (c =? 5760) || between 8192 c 8202 ||
  (c =? 8232) || (c =? 8233) || (c =? 8239) || (c =? 8287) || (c =? 12288).
Definition is_digit (c : Z) : bool := between 48 c 57.
Definition is_alpha (c : Z) : bool := between 65 c 90 || between 97 c 122.
Definition is_word (c : Z) : bool := is_digit c || is_alpha c || (c =? 95).          (* \w, ASCII *)
Definition is_idstart (c : Z) : bool := is_alpha c || (c =? 95).                      (* [_a-z] with re.IGNORECASE, ASCII *)

Fixpoint span (p : Z -> bool) (s : str) : str * str :=
  match s with
  | c :: r => if p c then let '(a, b) := span p r in (c :: a, b) else ([], s)
  | [] => ([], [])
  end.

Definition dropspace (s : str) : str := snd (span is_space s).
Definition strip (s : str) : str := rev (dropspace (rev (dropspace s))).

(* ---- re.sub / re.findall as scanners ---- *)
(* [m s] = the pattern matched at the head of s: Some (payload, number of characters consumed (>= 1)) *)
Fixpoint resub (m : str -> option (str * nat)) (skip : nat) (s : str) : str :=
  match s with
  | [] => []
  | c :: r =>
      match skip with
      | S k => resub m k r
      | O => match m s with
             | Some (rep, S n) => rep ++ resub m n r
             | _ => c :: resub m 0 r
             end
      end
  end.

Fixpoint refind {A} (m : str -> option (A * nat)) (skip : nat) (s : str) : list A :=
  match s with
  | [] => []
  | c :: r =>
      match skip with
      | S k => refind m k r
      | O => match m s with
             | Some (x, S n) => x :: refind m n r
             | _ => refind m 0 r
             end
      end
  end.

(* \$(\w+)  ->  ${\1} *)
Definition m_dollar (s : str) : option (str * nat) :=
  match s with
  | 36 :: r => match fst (span is_word r) with
               | [] => None
               | w => Some (c_dollar :: c_lbrace :: w ++ [c_rbrace], S (length w))
               end
  | _ => None
  end.

(* \${\s*(\w+)\s*}  ->  ${\1} *)
Definition m_braced (s : str) : option (str * nat) :=
  match s with
  | 36 :: 123 :: r =>
      let '(ws1, r1) := span is_space r in
      let '(w, r2) := span is_word r1 in
      let '(ws2, r3) := span is_space r2 in
      match w, r3 with
      | _ :: _, 125 :: _ => Some (c_dollar :: c_lbrace :: w ++ [c_rbrace], (3 + length ws1 + length w + length ws2)%nat)
      | _, _ => None
      end
  | _ => None
  end.

(* \}\(\s*(\d+)\s*\)  ->  .\1} *)
Definition m_fmt (s : str) : option (str * nat) :=
  match s with
  | 125 :: 40 :: r =>
      let '(ws1, r1) := span is_space r in
      let '(d, r2) := span is_digit r1 in
      let '(ws2, r3) := span is_space r2 in
      match d, r3 with
      | _ :: _, 41 :: _ => Some (c_dot :: d ++ [c_rbrace], (3 + length ws1 + length d + length ws2)%nat)
      | _, _ => None
      end
  | _ => None
  end.

(* \[\s*  ->  [ *)
Definition m_lbrack (s : str) : option (str * nat) :=
  match s with
  | 91 :: r => Some ([c_lbrack], S (length (fst (span is_space r))))
  | _ => None
  end.

(* \s*\]  ->  ] *)
Definition m_rbrack (s : str) : option (str * nat) :=
  let '(ws, r) := span is_space s in
  match r with
  | 93 :: _ => Some ([c_rbrack], S (length ws))
  | _ => None
  end.

(* \s*,\s*  ->  , *)
Definition m_comma (s : str) : option (str * nat) :=
  let '(ws, r) := span is_space s in
  match r with
  | 44 :: r' => Some ([c_comma], (S (length ws) + length (fst (span is_space r')))%nat)
  | _ => None
  end.

Definition normalise (spec : str) : str :=
  resub m_comma 0 (resub m_rbrack 0 (resub m_lbrack 0 (resub m_fmt 0 (resub m_braced 0 (resub m_dollar 0 (strip spec)))))).

(* ---- parseFilenames: the character loop ---- *)
Inductive fileent := FStr (s : str) | FList (l : list str).

Definition nonempty (s : str) : bool := match s with [] => false | _ => true end.
Definition nonempty_list (l : list str) : bool := match l with [] => false | _ => true end.
Definition ent_nonempty (e : fileent) : bool := match e with FStr s => nonempty s | FList l => nonempty_list l end.

(* files[-1] += char   (to every alternative when files[-1] is a list) *)
Definition ent_add (e : fileent) (c : Z) : fileent :=
  match e with FStr s => FStr (s ++ [c]) | FList l => FList (map (fun x => x ++ [c]) l) end.

(* POuter: in the outer for loop.  PInner opts base: in the inner for loop after '[';
   opts = options reversed (head = options[-1]), base = files[-1] (the prefix typed before '[') *)
Inductive pmode := POuter | PInner (opts : list str) (base : str).

Definition close_options (opts : list str) : fileent := FList (filter nonempty (rev opts)).

(* cur = files[-1], done = files[:-1] reversed.  None = the second '[' inside one name: Python then builds a list
   inside a list (options = [files[-1]] with files[-1] a list), which this Model does not follow ("unmodelled") *)
Fixpoint parse_loop (m : pmode) (cur : fileent) (done : list fileent) (s : str) : option (list fileent) :=
  match s with
  | [] => match m with
          | POuter => Some (rev (cur :: done))
          | PInner opts _ => Some (rev (close_options opts :: done))
          end
  | c :: r =>
      match m with
      | POuter =>
          if is_space c then parse_loop POuter (FStr []) (cur :: done) r
          else if c =? c_lbrack then
            match cur with
            | FStr p => parse_loop (PInner [p] p) cur done r
            | FList _ => None
            end
          else parse_loop POuter (ent_add cur c) done r
      | PInner opts base =>
          if c =? c_comma then parse_loop (PInner (base :: opts) base) cur done r
          else if c =? c_rbrack then parse_loop POuter (close_options opts) done r
          else match opts with
               | o :: os => parse_loop (PInner ((o ++ [c]) :: os) base) cur done r
               | [] => None (* unreachable: options is never empty *)
               end
      end
  end.

Definition parse_filenames (spec : str) : option (list fileent) :=
  match parse_loop POuter (FStr []) [] (normalise spec) with
  | Some files => Some (filter ent_nonempty files)
  | None => None
  end.

(* ---- namespaces (dict in insertion order) ---- *)
Definition ns := list (str * str).

Fixpoint lookup (k : str) (n : ns) : option str :=
  match n with [] => None | (k', v) :: r => if str_eqb k k' then Some v else lookup k r end.
Fixpoint set (k v : str) (n : ns) : ns :=
  match n with
  | [] => [(k, v)]
  | (k', v') :: r => if str_eqb k k' then (k', v) :: r else (k', v') :: set k v r
  end.
Fixpoint remove (k : str) (n : ns) : ns :=
  match n with [] => [] | (k', v) :: r => if str_eqb k k' then r else (k', v) :: remove k r end.
Definition has (k : str) (n : ns) : bool := match lookup k n with Some _ => true | None => false end.
Definition update (n : ns) (b : list (str * str)) : ns := fold_left (fun n kv => set (fst kv) (snd kv) n) b n.

Definition k_num : str := [110; 117; 109].

(* ---- values: character substitution, word limit, numbers ---- *)
(* value.replace(char, sub) *)
Definition replace_char (c : Z) (sub : str) (v : str) : str := flat_map (fun x => if x =? c then sub else [x]) v.
(* for char in self.charsub[0]: value = value.replace(char, self.charsub[1]) *)
Definition charsub_val (cs : option (str * str)) (v : str) : str :=
  match cs with
  | None => v
  | Some (bad, sub) => fold_left (fun v c => replace_char c sub v) bad v
  end.

(* value.split() *)
Fixpoint split_words (cur : str) (s : str) : list str :=
  match s with
  | [] => match cur with [] => [] | _ => [rev cur] end
  | c :: r => if is_space c
              then match cur with [] => split_words [] r | _ => rev cur :: split_words [] r end
              else split_words (c :: cur) r
  end.
Fixpoint join_sp (l : list str) : str :=
  match l with [] => [] | [w] => w | w :: r => w ++ c_space :: join_sp r end.

(* int(format) for a run of ASCII digits; '' does not occur where int() is called *)
Definition int_of (d : str) : N := fold_left (fun a c => (a * 10 + Z.to_N (c - 48))%N) d 0%N.

(* '%d' % num, most significant digit first; the fuel (num + 1 divisions by ten) always suffices, see int_of_dec *)
Fixpoint dec_fuel (fuel : nat) (n : N) : str :=
  match fuel with
  | O => []
  | S f => if (n <? 10)%N then [48 + Z.of_N n] else dec_fuel f (n / 10)%N ++ [48 + Z.of_N (n mod 10)%N]
  end.
Definition dec (n : N) : str := dec_fuel (S (N.to_nat n)) n.
(* ('%%.%sd' % format) % num : at least int(format) digits, zero padded; '%.d' = no padding *)
Definition fmt_num (format : str) (n : N) : str :=
  let d := dec n in repeat c_zero (N.to_nat (int_of format) - length d) ++ d.

(* the word-limit loop.  None = IndexError (pop from empty list), only with legacy_words *)
Definition limit_words (legacy_words : bool) (format : str) (v : str) : option str :=
  let words := split_words [] v in
  let n := N.to_nat (int_of format) in
  if legacy_words && negb (Nat.eqb n 0) && negb (nonempty_list words) then None
  else Some (join_sp (firstn n words)).

(* ---- keysre.findall, the format-stripping sub, string.Template ---- *)
(* \$\{(\w+)(?:\.(\d+))?} *)
Definition m_key (s : str) : option ((str * str) * nat) :=
  match s with
  | 36 :: 123 :: r =>
      let '(w, r1) := span is_word r in
      match w with
      | [] => None
      | _ => match r1 with
             | 125 :: _ => Some ((w, []), (3 + length w)%nat)
             | 46 :: r2 => let '(d, r3) := span is_digit r2 in
                           match d, r3 with
                           | _ :: _, 125 :: _ => Some ((w, d), (4 + length w + length d)%nat)
                           | _, _ => None
                           end
             | _ => None
             end
      end
  | _ => None
  end.
Definition find_keys (item : str) : list (str * str) := refind m_key 0 item.

(* (\$\{\w+)\.\d+(\})  ->  \1\2 *)
Definition m_stripfmt (s : str) : option (str * nat) :=
  match m_key s with
  | Some ((w, _ :: _), n) => Some (c_dollar :: c_lbrace :: w ++ [c_rbrace], n)
  | _ => None
  end.
Definition strip_formats (item : str) : str := resub m_stripfmt 0 item.

(* string.Template.pattern at a '$' (r = the text after it) *)
Inductive tmatch := TEsc | TVar (name : str) (consumed : nat) | TInvalid.
Definition tmpl_at (r : str) : tmatch :=
  match r with
  | 36 :: _ => TEsc
  | 123 :: r' =>
      let '(id, r2) := span is_word r' in
      match id, r2 with
      | c :: _, 125 :: _ => if is_idstart c then TVar id (2 + length id)%nat else TInvalid
      | _, _ => TInvalid
      end
  | c :: _ => if is_idstart c then let id := fst (span is_word r) in TVar id (length id) else TInvalid
  | [] => TInvalid
  end.

Inductive sres := SOk (s : str) | SKeyError | SValueError.
Definition sres_app (a : str) (r : sres) : sres := match r with SOk s => SOk (a ++ s) | e => e end.

(* string.Template(item).substitute(ns): the leftmost failing placeholder decides the exception *)
Fixpoint subst (n : ns) (skip : nat) (s : str) : sres :=
  match s with
  | [] => SOk []
  | c :: r =>
      match skip with
      | S k => subst n k r
      | O => if c =? c_dollar then
               match tmpl_at r with
               | TEsc => sres_app [c_dollar] (subst n 1 r)
               | TVar name k => match lookup name n with
                                | Some v => sres_app v (subst n k r)
                                | None => SKeyError
                                end
               | TInvalid => SValueError
               end
             else sres_app [c] (subst n 0 r)
      end
  end.

(* ---- addExtension (os.path.splitext on POSIX) ---- *)
(* p.rfind(c): index of the last occurrence, -1 when absent *)
Fixpoint rfind_from (c : Z) (s : str) (i acc : Z) : Z :=
  match s with [] => acc | x :: r => rfind_from c r (i + 1) (if x =? c then i else acc) end.
Definition rfind (c : Z) (s : str) : Z := rfind_from c s 0 (-1).
Definition slice (s : str) (a b : Z) : str := firstn (Z.to_nat (b - a)) (skipn (Z.to_nat a) s).

(* genericpath._splitext: a dot after the last separator, with a non-dot character of the same component before it *)
Definition has_ext (p : str) : bool :=
  let sep := rfind c_slash p in
  let dot := rfind c_dot p in
  (sep <? dot) && existsb (fun x => negb (x =? c_dot)) (slice p (sep + 1) dot).
Definition add_extension (ext : str) (filename : str) : str :=
  if has_ext filename then filename else filename ++ ext.

(* ---- one candidate: the body of the two for loops up to string.Template.substitute ---- *)
Record cfg := { cs : option (str * str); ext : str; legacy_reset : bool; legacy_words : bool; legacy_passes : bool }.

(* K_Bail = ValueError('Filename could not be created.'), K_Placeholder = ValueError from string.Template,
   K_Index = IndexError from the word-limit loop *)
Definition K_Bail := 1.  Definition K_Placeholder := 2.  Definition K_Index := 3.

(* for key, format in keysre.findall(item): ...   on currentns; None = IndexError *)
Definition apply_key (c : cfg) (num : N) (cur : option ns) (kf : str * str) : option ns :=
  match cur with
  | None => None
  | Some cur =>
      let '(key, format) := kf in
      if str_eqb key k_num then Some (set k_num (fmt_num format num) cur)
      else if nonempty format then
             match lookup key cur with
             | Some v => match limit_words (legacy_words c) format v with
                         | Some v' => Some (set key v' cur)
                         | None => None
                         end
             | None => Some cur
             end
           else Some cur
  end.

Inductive eres := EOk (name : str) (numbered : bool) | EKeyError | ECrash (k : Z).

Definition expand (c : cfg) (vars : ns) (num : N) (item : str) : eres :=
  let currentns := map (fun kv => (fst kv, charsub_val (cs c) (snd kv))) vars in
  match fold_left (apply_key c num) (find_keys item) (Some currentns) with
  | None => ECrash K_Index
  | Some currentns =>
      match subst currentns 0 (strip_formats item) with
      | SOk result => EOk result (has k_num currentns)
      | SKeyError => EKeyError
      | SValueError => ECrash K_Placeholder
      end
  end.

(* ---- the generator ---- *)
Inductive phase :=
| PFresh (files : list fileent)                                   (* not started *)
| PStatic (rest wild : list str) (g : ns) (num : N)               (* suspended at the yield of the static loop *)
| PWild (wild : list str) (g : ns) (num : N) (passes : N)         (* suspended at the yield of the wildcard loop *)
| PDead.                                                          (* finished by an exception *)

Record st := { ph : phase; vars : ns; inval : list str }.

Inductive res := RName (s : str) | RNone | RRaise (k : Z) | RFuel.

(* the shared body: substitute, advance num, (reset), add the extension, test and record the name *)
Inductive tres :=
| TYield (name : str) (num : N) (vars : ns) (inval : list str)
| TSkip (num : N) (vars : ns)
| TKey (vars : ns)
| TCrash (k : Z).

Definition try_item (c : cfg) (wildphase : bool) (g : ns) (num : N) (vars : ns) (inval : list str) (item : str) : tres :=
  match expand c vars num item with
  | ECrash k => TCrash k
  | EKeyError => TKey (if wildphase then remove k_num vars else vars)     (* if 'num' in self.variables: del ... *)
  | EOk r numbered =>
      let num' := if numbered then (num + 1)%N else num in
      let r' := add_extension (ext c) r in
      if mem r' inval then TSkip num' (if legacy_reset c then g else vars)
      else TYield r' num' g (inval ++ [r'])
  end.

Definition dead (vars : ns) (inval : list str) : st := {| ph := PDead; vars := vars; inval := inval |}.

(* for item in wildcard: ... else:   one pass over the alternatives *)
Inductive fres := FYield (name : str) (num : N) (vars : ns) (inval : list str) | FExhausted (num : N) (vars : ns) | FCrash (k : Z) (vars : ns).

Fixpoint wild_for (c : cfg) (g : ns) (num : N) (vars : ns) (inval : list str) (alts : list str) : fres :=
  match alts with
  | [] => FExhausted num vars
  | item :: alts' =>
      match try_item c true g num vars inval item with
      | TYield name num' vars' inval' => FYield name num' vars' inval'
      | TSkip num' vars' => wild_for c g num' vars' inval alts'
      | TKey vars' => wild_for c g num vars' inval alts'
      | TCrash k => FCrash k vars
      end
  end.

(* while 1: passes += 1; for ...: ... else: if passes > 100: break     then raise ValueError *)
Fixpoint wild_loop (fuel : nat) (c : cfg) (wild : list str) (g : ns) (num : N) (vars : ns) (inval : list str) (passes : N) : res * st :=
  match fuel with
  | O => (RFuel, dead vars inval)
  | S f =>
      let passes := (passes + 1)%N in
      match wild_for c g num vars inval wild with
      | FYield name num' vars' inval' =>
          (* yield result; passes = 0   -- the give-up bound counts the passes of one request (fix-3); before the repair the
             counter ran over the whole life of the generator *)
          (RName name, {| ph := PWild wild g num' (if legacy_passes c then passes else 0%N); vars := vars'; inval := inval' |})
      | FExhausted num' vars' =>
          if (100 <? passes)%N then (RRaise K_Bail, dead vars' inval)
          else wild_loop f c wild g num' vars' inval passes
      | FCrash k vars' => (RRaise k, dead vars' inval)
      end
  end.

Definition pass_fuel : nat := 101.

(* for item in static: ...   then the wildcard stage with passes = 0 *)
Fixpoint static_loop (c : cfg) (wild : list str) (g : ns) (num : N) (vars : ns) (inval : list str) (rest : list str) : res * st :=
  match rest with
  | [] => wild_loop pass_fuel c wild g num vars inval 0
  | item :: rest' =>
      match try_item c false g num vars inval item with
      | TYield name num' vars' inval' => (RName name, {| ph := PStatic rest' wild g num'; vars := vars'; inval := inval' |})
      | TSkip num' vars' => static_loop c wild g num' vars' inval rest'
      | TKey vars' => static_loop c wild g num vars' inval rest'
      | TCrash k => (RRaise k, dead vars inval)
      end
  end.

(* Split filenames into static and wildcard groups *)
Fixpoint split_files (files : list fileent) (static : list str) : list str * list str :=
  match files with
  | FStr s :: r => split_files r (static ++ [s])
  | FList l :: _ => (static, l)
  | [] => match rev static with                     (* if not wildcard and static: wildcard = [static.pop()] *)
          | last :: init => (rev init, [last])
          | [] => ([], [])
          end
  end.

(* one request: the caller puts its bindings into self.variables, then calls the object.
   __next__: "for name in self.newFilename: return name" -- None once the generator is finished *)
Definition request (c : cfg) (s : st) (b : list (str * str)) : res * st :=
  let vars := update (vars s) b in
  match ph s with
  | PDead => (RNone, {| ph := PDead; vars := vars; inval := inval s |})
  | PFresh files =>
      let g := vars in
      let '(static, wild) := split_files files [] in
      static_loop c wild g 1 vars (inval s) static
  | PStatic rest wild g num => static_loop c wild g num vars (inval s) rest
  | PWild wild g num passes => wild_loop pass_fuel c wild g num vars (inval s) passes
  end.

(* a history of requests; the observation after each request is (result, self.variables) *)
Fixpoint run (c : cfg) (s : st) (reqs : list (list (str * str))) : list (res * ns) * st :=
  match reqs with
  | [] => ([], s)
  | b :: reqs' =>
      let '(r, s') := request c s b in
      let '(out, s'') := run c s' reqs' in
      ((r, vars s') :: out, s'')
  end.

(* ---- wire format ---- *)
Definition get_str (v : val) : option str := getZs v.
Definition get_pair (v : val) : option (str * str) :=
  match v with VL [k; x] => match get_str k, get_str x with Some k, Some x => Some (k, x) | _, _ => None end | _ => None end.
Definition get_ns (v : val) : option ns := match v with VL l => mapM get_pair l | _ => None end.
Definition get_charsub (v : val) : option (option (str * str)) :=
  match v with
  | VL [] => Some None
  | VL [b; s] => match get_str b, get_str s with Some b, Some s => Some (Some (b, s)) | _, _ => None end
  | _ => None
  end.

Definition of_str (s : str) : val := VL (map VI s).
Definition of_ns (n : ns) : val := VL (map (fun kv => VL [of_str (fst kv); of_str (snd kv)]) n).
Definition of_res (r : res) : val :=
  match r with
  | RName s => VL [VI 0; of_str s]
  | RNone => VL [VI 1]
  | RRaise k => v_crash k
  | RFuel => v_outoffuel
  end.
Definition of_ent (e : fileent) : val :=
  match e with FStr s => VL [VI 0; of_str s] | FList l => VL [VI 1; VL (map of_str l)] end.
Definition v_unmodelled : val := VL [VI (-4)].

(* case: (spec charsub variables extension invalid requests legacy_reset legacy_words legacy_passes)
   observation: (files ((result variables) ...) invalid)  *)
Definition run_case (v : val) : val :=
  match v with
  | VL [spec; csv; vars0; extv; inv; VL reqs; VI lr; VI lw; VI lp] =>
      match get_str spec, get_charsub csv, get_ns vars0, get_str extv, getL inv, mapM get_ns reqs with
      | Some spec, Some csub, Some vars0, Some e, Some inv, Some reqs =>
          match mapM get_str inv with
          | None => v_bad_input
          | Some inv =>
              match parse_filenames spec with
              | None => v_unmodelled
              | Some files =>
                  let c := {| cs := csub; ext := e; legacy_reset := negb (lr =? 0); legacy_words := negb (lw =? 0);
                              legacy_passes := negb (lp =? 0) |} in
                  let '(out, s) := run c {| ph := PFresh files; vars := vars0; inval := inv |} reqs in
                  VL [VL (map of_ent files);
                      VL (map (fun rv => VL [of_res (fst rv); of_ns (snd rv)]) out);
                      VL (map of_str (inval s))]
              end
          end
      | _, _, _, _, _, _ => v_bad_input
      end
  | _ => v_bad_input
  end.
