(* Model of plasTeX/DOM/__init__.py : class Node and friends (child-list editing, parent/owner assignment,
   normalize, deep cloneNode, attribute map re-parenting, derived views).

   The object graph is a heap: node identity (Python [is]) = position in the heap.  Every function follows
   the Python method of the same name statement by statement; Python list-index semantics are kept
   ([list.insert] clamps, [list.pop] wraps negatives and raises out of range); where Python raises the
   outcome is [RCrash kind] *with the heap as mutated so far*; where the Python loop provably never ends
   (a fragment inserted into itself) the outcome is [RHang]; recursion (fragments in fragments, normalize,
   cloneNode, textContent, getElementsByTagName) runs on fuel and reports [RFuel] when it is exhausted
   (the Python then ends in RecursionError or never returns).

   This file mirrors the code *after* the proposed repairs notes/C06/fix-1.diff ([Node.__setitem__] resolves its
   index like list item assignment before touching the child list), fix-2.diff ([Node.insert] resolves a negative
   position once before inserting the items of a fragment) and fix-3.diff ([_compareDocumentPosition] decides the
   order where the two ancestor chains part, not at their first common node).
   No proofs here. *)
From Coq Require Import List ZArith Bool Arith.
Import ListNotations.

(* ---------------------------------------------------------------------------------------------- *)
(* the heap *)

Inductive kind :=
| KElem (name : Z)        (* Element; nodeName *)
| KText (s : list Z)      (* Text (a str subclass: immutable content) *)
| KFrag                   (* DocumentFragment *)
| KDoc.                   (* Document *)

Record node := mkNode {
  nkind : kind;
  nchildren : list nat;          (* _dom_childNodes *)
  nparent : option nat;          (* parentNode *)
  nowner : option nat;           (* ownerDocument *)
  nattrs : list (Z * nat);       (* Element.attributes (NamedNodeMap), insertion order; values are nodes *)
  ncreator : nat                 (* ghost: the document whose create* method (or whose node's clone/normalize) made it *)
}.

Definition heap := list node.

Definition get (h : heap) (n : nat) : option node := nth_error h n.

Fixpoint set_nth {A} (l : list A) (n : nat) (x : A) : list A :=
  match l, n with
  | [], _ => []
  | _ :: r, O => x :: r
  | y :: r, S n' => y :: set_nth r n' x
  end.

Definition upd (h : heap) (n : nat) (f : node -> node) : heap :=
  match get h n with Some nd => set_nth h n (f nd) | None => h end.

Definition kind_of (h : heap) (n : nat) : option kind := match get h n with Some nd => Some (nkind nd) | None => None end.
Definition children (h : heap) (n : nat) : list nat := match get h n with Some nd => nchildren nd | None => [] end.
Definition parent (h : heap) (n : nat) : option nat := match get h n with Some nd => nparent nd | None => None end.
Definition owner (h : heap) (n : nat) : option nat := match get h n with Some nd => nowner nd | None => None end.
Definition attrs (h : heap) (n : nat) : list (Z * nat) := match get h n with Some nd => nattrs nd | None => [] end.
Definition creator (h : heap) (n : nat) : nat := match get h n with Some nd => ncreator nd | None => 0 end.

Definition is_frag (h : heap) (n : nat) : bool := match kind_of h n with Some KFrag => true | _ => false end.
Definition is_doc (h : heap) (n : nat) : bool := match kind_of h n with Some KDoc => true | _ => false end.
Definition is_text (h : heap) (n : nat) : bool := match kind_of h n with Some (KText _) => true | _ => false end.
Definition is_elem (h : heap) (n : nat) : bool := match kind_of h n with Some (KElem _) => true | _ => false end.
(* nodes that keep a child list of their own and whose children point back at them *)
Definition is_tree (h : heap) (n : nat) : bool := match kind_of h n with Some (KElem _) | Some KDoc => true | _ => false end.

Definition with_children (l : list nat) (nd : node) : node :=
  mkNode (nkind nd) l (nparent nd) (nowner nd) (nattrs nd) (ncreator nd).
Definition with_parent (p : option nat) (nd : node) : node :=
  mkNode (nkind nd) (nchildren nd) p (nowner nd) (nattrs nd) (ncreator nd).
Definition with_owner (o : option nat) (nd : node) : node :=
  mkNode (nkind nd) (nchildren nd) (nparent nd) o (nattrs nd) (ncreator nd).
Definition with_attrs (a : list (Z * nat)) (nd : node) : node :=
  mkNode (nkind nd) (nchildren nd) (nparent nd) (nowner nd) a (ncreator nd).

Definition set_children (h : heap) (n : nat) (l : list nat) : heap := upd h n (with_children l).
Definition set_parent (h : heap) (n : nat) (p : option nat) : heap := upd h n (with_parent p).
Definition set_owner (h : heap) (n : nat) (o : option nat) : heap := upd h n (with_owner o).
Definition set_attrs (h : heap) (n : nat) (a : list (Z * nat)) : heap := upd h n (with_attrs a).

(* a new object: its identity is the next free position *)
Definition alloc (h : heap) (nd : node) : heap * nat := (h ++ [nd], length h).

(* ---------------------------------------------------------------------------------------------- *)
(* Python list semantics *)

(* list.insert(i, x): negative positions count from the end, everything is clamped into [0, len] *)
Definition py_insert_pos (i : Z) (n : nat) : nat :=
  if (i <? 0)%Z then Z.to_nat (Z.max (i + Z.of_nat n) 0) else Nat.min (Z.to_nat i) n.

Definition insert_at (k : nat) (x : nat) (l : list nat) : list nat := firstn k l ++ x :: skipn k l.
Definition py_insert (i : Z) (x : nat) (l : list nat) : list nat := insert_at (py_insert_pos i (length l)) x l.

(* list.pop(i) / l[i]: negative positions count from the end, out of range raises IndexError *)
Definition py_index (i : Z) (n : nat) : option nat :=
  let j := if (i <? 0)%Z then (i + Z.of_nat n)%Z else i in
  if ((0 <=? j) && (j <? Z.of_nat n))%Z then Some (Z.to_nat j) else None.

Definition remove_at (k : nat) (l : list nat) : list nat := firstn k l ++ skipn (S k) l.

(* for i, item in enumerate(self): if item is x: ... -- position of the first occurrence *)
Fixpoint index_of (x : nat) (l : list nat) : option nat :=
  match l with
  | [] => None
  | y :: r => if Nat.eqb y x then Some O else match index_of x r with Some k => Some (S k) | None => None end
  end.

Definition mem (x : nat) (l : list nat) : bool := existsb (Nat.eqb x) l.

(* ---------------------------------------------------------------------------------------------- *)
(* outcomes *)

Inductive outcome :=
| ROk (ret : option nat)  (* returned normally; the returned node when the method returns one *)
| RCrash (k : Z)          (* raises: 1 NotFoundErr, 2 IndexError, 3 AttributeError/TypeError *)
| RHang                   (* the Python loop never terminates *)
| RFuel                   (* the Model's recursion fuel ran out (Python: RecursionError / no return) *)
| RBad.                   (* not a call the Model covers (dangling id, a Text node as the receiver) *)

Definition E_NOTFOUND : Z := 1%Z.
Definition E_INDEX : Z := 2%Z.
Definition E_ATTR : Z := 3%Z.

Definition bind (r : heap * outcome) (k : heap -> option nat -> heap * outcome) : heap * outcome :=
  match r with (h, ROk v) => k h v | bad => bad end.

(* ---------------------------------------------------------------------------------------------- *)
(* Document.createElement / createTextNode / createDocumentFragment, Document() *)

Definition create (h : heap) (d : nat) (k : kind) : heap * outcome :=
  if is_doc h d then let (h1, n) := alloc h (mkNode k [] None (Some d) [] d) in (h1, ROk (Some n)) else (h, RBad).

Definition create_doc (h : heap) : heap * outcome :=
  let n := length h in
  (* Document.parentNode is the constant None and Document.ownerDocument is the document itself (properties) *)
  (h ++ [mkNode KDoc [] None (Some n) [] n], ROk (Some n)).

(* ---------------------------------------------------------------------------------------------- *)
(* the tail shared by append and insert:
       if setParent:
           if self.nodeType == self.DOCUMENT_FRAGMENT_NODE: newChild.parentNode = self.parentNode
           else: newChild.parentNode = self
       newChild.ownerDocument = self.ownerDocument
   (Document.parentNode / ownerDocument have no setter: AttributeError) *)
Definition set_position (h : heap) (self c : nat) : heap * outcome :=
  if is_doc h c then (h, RCrash E_ATTR)
  else
    let par := if is_frag h self then parent h self else Some self in
    let h1 := set_parent h c par in
    (set_owner h1 c (owner h1 self), ROk (Some c)).

(* a [for item in items: body(item)] loop whose body may raise *)
Fixpoint for_each (body : heap -> nat -> heap * outcome) (h : heap) (items : list nat) : heap * outcome :=
  match items with
  | [] => (h, ROk None)
  | x :: r => bind (body h x) (fun h1 _ => for_each body h1 r)
  end.

(* the same with a running position: [for item in items: body(i, item); i += 1] *)
Fixpoint for_each_pos (body : heap -> Z -> nat -> heap * outcome) (h : heap) (i : Z) (items : list nat) : heap * outcome :=
  match items with
  | [] => (h, ROk None)
  | x :: r => bind (body h i x) (fun h1 _ => for_each_pos body h1 (i + 1)%Z r)
  end.

Definition nonempty (l : list nat) : bool := match l with [] => false | _ => true end.

(* [for item in self: <put item into self>]: the walk over self's own growing list never reaches the end -- unless one
   of the items it meets raises (a Document among them: its parentNode cannot be set), which ends the loop with that
   exception.  [r] is the loop run over the items the walk meets before it starts to meet its own copies. *)
Definition self_loop (r : heap * outcome) : heap * outcome :=
  match r with (h1, ROk _) => (h1, RHang) | bad => bad end.

(* Node.append(newChild):
       if newChild.nodeType == Node.DOCUMENT_FRAGMENT_NODE:
           for item in newChild: self.append(item, setParent=setParent)
       else: self.childNodes.append(newChild)
       <set_position>; return newChild
   [for item in newChild] walks newChild's own list while self's list grows: when newChild is self and the list
   is not empty the walk never reaches the end. *)
Fixpoint append_f (fuel : nat) (h : heap) (self c : nat) : heap * outcome :=
  match fuel with
  | O => (h, RFuel)
  | S f =>
      if is_frag h c then
        if Nat.eqb c self && nonempty (children h c)
        then self_loop (for_each (fun h1 x => append_f f h1 self x) h (children h c))
        else bind (for_each (fun h1 x => append_f f h1 self x) h (children h c)) (fun h1 _ => set_position h1 self c)
      else set_position (set_children h self (children h self ++ [c])) self c
  end.

(* Node.insert(i, newChild)   [fix-1: a negative i is resolved once before a fragment's items go in]
       if newChild.nodeType == Node.DOCUMENT_FRAGMENT_NODE:
           if i < 0: i = max(i + len(self), 0)
           for item in newChild: self.insert(i, item, setParent=setParent); i += 1
       else: self.childNodes.insert(i, newChild)
       <set_position>; return newChild *)
Fixpoint insert_f (fuel : nat) (h : heap) (self : nat) (i : Z) (c : nat) : heap * outcome :=
  match fuel with
  | O => (h, RFuel)
  | S f =>
      if is_frag h c then
        let i0 := if (i <? 0)%Z then Z.max (i + Z.of_nat (length (children h self))) 0 else i in
        if Nat.eqb c self && nonempty (children h c)
        then (* inserting at i0, i0+1, ... into the list that is being walked: the walk meets the first max(i0,1) items
                and then only copies of them *)
             self_loop (for_each_pos (fun h1 j x => insert_f f h1 self j x) h i0
                          (firstn (Nat.max 1 (Nat.min (Z.to_nat i0) (length (children h c)))) (children h c)))
        else bind (for_each_pos (fun h1 j x => insert_f f h1 self j x) h i0 (children h c)) (fun h1 _ => set_position h1 self c)
      else set_position (set_children h self (py_insert i c (children h self))) self c
  end.

(* Node.pop(index):   try: return self.childNodes.pop(index)   except: raise IndexError *)
Definition pop_op (h : heap) (self : nat) (i : Z) : heap * outcome :=
  let l := children h self in
  match py_index i (length l) with
  | Some k => match nth_error l k with
              | Some x => (set_children h self (remove_at k l), ROk (Some x))
              | None => (h, RCrash E_INDEX)
              end
  | None => (h, RCrash E_INDEX)
  end.

(* Node.removeChild(oldChild):  for i, item in enumerate(self): if item is oldChild: return self.pop(i)
                                raise NotFoundErr *)
Definition remove_child (h : heap) (self old : nat) : heap * outcome :=
  match index_of old (children h self) with
  | Some k => pop_op h self (Z.of_nat k)
  | None => (h, RCrash E_NOTFOUND)
  end.

(* try: self.removeChild(newChild)   except NotFoundErr: pass *)
Definition try_remove (h : heap) (self c : nat) : heap * outcome :=
  match remove_child h self c with
  | (h1, ROk _) => (h1, ROk None)
  | (h1, RCrash 1%Z) => (h1, ROk None)
  | bad => bad
  end.

Definition fuel0 : nat := 8.   (* nesting of fragments inside fragments followed by append/insert *)

(* Node.insertBefore(newChild, refChild) / insertAfter:
       try: self.removeChild(newChild) ...
       for i, item in enumerate(self):
           if item is refChild: self.insert(i [+1], newChild); return newChild
       raise NotFoundErr *)
Definition insert_rel (after : bool) (h : heap) (self c ref : nat) : heap * outcome :=
  bind (try_remove h self c) (fun h1 _ =>
    match index_of ref (children h1 self) with
    | Some k => bind (insert_f fuel0 h1 self (Z.of_nat (if after then S k else k)) c) (fun h2 _ => (h2, ROk (Some c)))
    | None => (h1, RCrash E_NOTFOUND)
    end).

(* Node.replaceChild(newChild, oldChild):
       try: self.removeChild(newChild) ...
       for i, item in enumerate(self):
           if item is oldChild: self.pop(i); self.insert(i, newChild); return oldChild
       raise NotFoundErr *)
Definition replace_child (h : heap) (self c old : nat) : heap * outcome :=
  bind (try_remove h self c) (fun h1 _ =>
    match index_of old (children h1 self) with
    | Some k => bind (pop_op h1 self (Z.of_nat k)) (fun h2 _ =>
                bind (insert_f fuel0 h2 self (Z.of_nat k) c) (fun h3 _ => (h3, ROk (Some old))))
    | None => (h1, RCrash E_NOTFOUND)
    end).

(* Node.__setitem__(i, node)      [fix-1: the index is resolved first, like list item assignment]
       if i < 0: i += len(self)
       if i < 0 or i >= len(self): raise IndexError
       if node.nodeType == Node.DOCUMENT_FRAGMENT_NODE:
           for item in node: self.insert(i, item); i += 1
           self.pop(i)
       else: self.insert(i, node); self.pop(i+1) *)
Definition set_item (h : heap) (self : nat) (i : Z) (c : nat) : heap * outcome :=
  match py_index i (length (children h self)) with
  | None => (h, RCrash E_INDEX)
  | Some k =>
      if is_frag h c then
        if Nat.eqb c self && nonempty (children h c)
        then self_loop (for_each_pos (fun h1 j x => insert_f fuel0 h1 self j x) h (Z.of_nat k) (firstn (Nat.max 1 k) (children h c)))
        else
          let items := children h c in
          bind (for_each_pos (fun h1 j x => insert_f fuel0 h1 self j x) h (Z.of_nat k) items) (fun h1 _ =>
          bind (pop_op h1 self (Z.of_nat (k + length items))) (fun h2 _ => (h2, ROk None)))
      else
        bind (insert_f fuel0 h self (Z.of_nat k) c) (fun h1 _ =>
        bind (pop_op h1 self (Z.of_nat (S k))) (fun h2 _ => (h2, ROk None)))
  end.

(* Node.extend(other):  for item in other: self.append(item)   return self
   [other] is a node (its child list is walked; never ends when other is self and not empty) ... *)
Definition extend_node (h : heap) (self other : nat) : heap * outcome :=
  if Nat.eqb other self && nonempty (children h other)
  then self_loop (for_each (fun h1 x => append_f fuel0 h1 self x) h (children h other))
  else bind (for_each (fun h1 x => append_f fuel0 h1 self x) h (children h other)) (fun h1 _ => (h1, ROk (Some self))).
(* ... or a plain Python list of nodes *)
Definition extend_list (h : heap) (self : nat) (items : list nat) : heap * outcome :=
  bind (for_each (fun h1 x => append_f fuel0 h1 self x) h items) (fun h1 _ => (h1, ROk (Some self))).

(* ---------------------------------------------------------------------------------------------- *)
(* NamedNodeMap.__setitem__(name, value):  self._resetPosition(value); dict.__setitem__(self, name, value)
   _resetPosition(value, parent=None):
       if parent is None: parent = self.parentNode            (the element that owns the map)
       if nodeType == DOCUMENT_FRAGMENT_NODE: for item in value: self._resetPosition(item, parent=value)
       elif nodeType is not None: value.parentNode = parent; value.ownerDocument = self.ownerDocument *)
Fixpoint reset_position (fuel : nat) (h : heap) (elem : nat) (par : nat) (v : nat) : heap * outcome :=
  match fuel with
  | O => (h, RFuel)
  | S f =>
      if is_frag h v then for_each (fun h1 x => reset_position f h1 elem v x) h (children h v)
      else if is_doc h v then (h, RCrash E_ATTR)
      else (set_owner (set_parent h v (Some par)) v (owner h elem), ROk None)
  end.

Fixpoint assoc_set (k : Z) (v : nat) (l : list (Z * nat)) : list (Z * nat) :=
  match l with
  | [] => [(k, v)]
  | (k', v') :: r => if Z.eqb k' k then (k, v) :: r else (k', v') :: assoc_set k v r
  end.

Definition set_attr (h : heap) (elem : nat) (k : Z) (v : nat) : heap * outcome :=
  if is_elem h elem then
    bind (reset_position fuel0 h elem elem v) (fun h1 _ => (set_attrs h1 elem (assoc_set k v (attrs h1 elem)), ROk None))
  else (h, RBad).

(* ---------------------------------------------------------------------------------------------- *)
(* Node.appendText(text):
       if not text: return
       value = self.ownerDocument.createTextNode(''.join(text)); text[:] = []
       value.parentNode = self; value.ownerDocument = self.ownerDocument; self.appendChild(value) *)
Definition append_text (h : heap) (self : nat) (text : list (list Z)) : heap * outcome :=
  match text with
  | [] => (h, ROk None)
  | _ => match owner h self with
         | None => (h, RCrash E_ATTR)
         | Some d =>
             let (h1, t) := alloc h (mkNode (KText (concat text)) [] (Some self) (Some d) [] (creator h self)) in
             append_f fuel0 h1 self t
         end
  end.

Definition text_of (h : heap) (n : nat) : list Z := match kind_of h n with Some (KText s) => s | _ => [] end.

(* Node.normalize():
       for key, value in self.attributes.items(): if isinstance(value, Node): value.normalize()
       nodes = list(self.childNodes);  while self.childNodes: self.childNodes.pop()
       text = []
       for item in nodes:
           if item.nodeType == item.TEXT_NODE: text.append(item); continue
           self.appendText(text); self.appendChild(item); item.normalize()
       self.appendText(text)
   [text] is kept in order (oldest first). *)
Fixpoint norm_items (rec : heap -> nat -> heap * outcome) (h : heap) (self : nat) (items : list nat) (text : list (list Z))
  : heap * outcome :=
  match items with
  | [] => append_text h self text
  | x :: r =>
      if is_text h x then norm_items rec h self r (text ++ [text_of h x])
      else bind (append_text h self text) (fun h1 _ =>
           bind (append_f fuel0 h1 self x) (fun h2 _ =>
           bind (rec h2 x) (fun h3 _ => norm_items rec h3 self r [])))
  end.

Fixpoint normalize_f (fuel : nat) (h : heap) (self : nat) : heap * outcome :=
  match fuel with
  | O => (h, RFuel)
  | S f =>
      if is_text h self then (h, ROk None)            (* CharacterData.normalize: pass *)
      else
        bind (for_each (fun h1 v => normalize_f f h1 v) h (map snd (attrs h self))) (fun h0 _ =>
        let nodes := children h0 self in
        bind (norm_items (normalize_f f) (set_children h0 self []) self nodes []) (fun h1 _ => (h1, ROk None)))
  end.

(* NamedNodeMap.update(other):  for key, value in other.items(): self[key] = value *)
Fixpoint update_attrs (h : heap) (elem : nat) (kvs : list (Z * nat)) : heap * outcome :=
  match kvs with
  | [] => (h, ROk None)
  | (k, v) :: r => bind (set_attr h elem k v) (fun h1 _ => update_attrs h1 elem r)
  end.

(* ---------------------------------------------------------------------------------------------- *)
(* Node.cloneNode(deep=True):
       node = type(self)(); node.nodeName = self.nodeName
       node.parentNode = self.parentNode; node.ownerDocument = self.ownerDocument
       node.attributes.update(self.attributes)            (the attribute values are shared and re-positioned)
       for x in self.childNodes: node.append(x.cloneNode(deep))
       return node
   CharacterData.cloneNode: o = type(self)(self); o.ownerDocument = self.ownerDocument; o.parentNode = self.parentNode *)
Fixpoint clone_f (fuel : nat) (h : heap) (c : nat) : heap * outcome :=
  match fuel with
  | O => (h, RFuel)
  | S f =>
      match get h c with
      | None => (h, RBad)
      | Some nd =>
          match nkind nd with
          | KDoc => (h, RCrash E_ATTR)       (* node.parentNode = ... on a Document *)
          | KText s => let (h1, n) := alloc h (mkNode (KText s) [] (nparent nd) (nowner nd) [] (ncreator nd)) in (h1, ROk (Some n))
          | k =>
              let (h1, n) := alloc h (mkNode k [] (nparent nd) (nowner nd) [] (ncreator nd)) in
              bind (update_attrs h1 n (nattrs nd)) (fun h2 _ =>
              bind (for_each (fun h3 x => bind (clone_f f h3 x)
                                               (fun h4 r => match r with Some x' => append_f fuel0 h4 n x' | None => (h4, RBad) end))
                             h2 (nchildren nd)) (fun h3 _ => (h3, ROk (Some n))))
          end
      end
  end.

(* ---------------------------------------------------------------------------------------------- *)
(* derived views (read-only) *)

(* firstChild / lastChild:  if self.hasChildNodes() and self.childNodes: return self.childNodes[0] / [-1] *)
Definition first_child (h : heap) (n : nat) : option nat := hd_error (children h n).
Definition last_child (h : heap) (n : nat) : option nat := hd_error (rev (children h n)).

(* _previousSibling:  if not self.parentNode: return None      (a node with an empty child list is falsy)
                      previous = None
                      for item in self.parentNode: if item is self: return previous; previous = item
                      return None *)
Fixpoint scan_prev (x : nat) (prev : option nat) (l : list nat) : option nat :=
  match l with [] => None | y :: r => if Nat.eqb y x then prev else scan_prev x (Some y) r end.
Definition prev_sibling (h : heap) (n : nat) : option nat :=
  match parent h n with Some p => scan_prev n None (children h p) | None => None end.

(* _nextSibling:  next = False;  for item in self.parentNode: if next: return item; if item is self: next = True *)
Fixpoint scan_next (x : nat) (l : list nat) : option nat :=
  match l with [] => None | y :: r => if Nat.eqb y x then hd_error r else scan_next x r end.
Definition next_sibling (h : heap) (n : nat) : option nat :=
  match parent h n with Some p => scan_next n (children h p) | None => None end.

(* Node.textContent: Text -> itself; otherwise ''.join(item if Text else item.textContent for item in self) *)
Fixpoint text_content (fuel : nat) (h : heap) (n : nat) : option (list Z) :=
  match fuel with
  | O => None
  | S f =>
      match kind_of h n with
      | Some (KText s) => Some s
      | _ => (fix go (l : list nat) : option (list Z) :=
                match l with
                | [] => Some []
                | x :: r => match text_content f h x, go r with Some a, Some b => Some (a ++ b) | _, _ => None end
                end) (children h n)
      end
  end.

(* _getElementsByTagName(self, tagname): first the attribute values (the value itself when it is an element of that
   name, then its own matches), then for item in self: the item when it matches, then item.getElementsByTagName *)
Definition has_name (h : heap) (n : nat) (name : Z) : bool :=
  match kind_of h n with Some (KElem m) => Z.eqb m name | _ => false end.

Fixpoint by_tag (fuel : nat) (h : heap) (n : nat) (name : Z) : option (list nat) :=
  match fuel with
  | O => None
  | S f =>
      if is_text h n then Some []
      else (fix go (l : list nat) : option (list nat) :=
              match l with
              | [] => Some []
              | x :: r => match by_tag f h x name, go r with
                          | Some a, Some b => Some ((if has_name h x name then [x] else []) ++ a ++ b)
                          | _, _ => None
                          end
              end) (map snd (attrs h n) ++ children h n)
  end.

(* _compareDocumentPosition(self, other) *)
Definition POS_DISCONNECTED : Z := 1%Z.
Definition POS_PRECEDING : Z := 2%Z.
Definition POS_FOLLOWING : Z := 4%Z.
Definition POS_CONTAINS : Z := 8%Z.
Definition POS_CONTAINED_BY : Z := 16%Z.
Definition POS_SAME : Z := 32%Z.

(* parent = start; while parent is not None: if parent is stop: return <found>; acc.append(parent); parent = parent.parentNode
   the list is returned already reversed (outermost first) *)
Fixpoint walk_up (fuel : nat) (h : heap) (stop n : nat) (acc : list nat) : option (bool * list nat) :=
  match fuel with
  | O => None
  | S f => if Nat.eqb n stop then Some (true, acc)
           else match parent h n with Some p => walk_up f h stop p (n :: acc) | None => Some (false, n :: acc) end
  end.

(* for item in sparent: if item is s: return FOLLOWING; if item is o: return PRECEDING *)
Fixpoint first_of (s o : nat) (l : list nat) : option Z :=
  match l with
  | [] => None
  | y :: r => if Nat.eqb y s then Some POS_FOLLOWING else if Nat.eqb y o then Some POS_PRECEDING else first_of s o r
  end.

Inductive cmp_res := CVal (z : Z) | CIndexError | CNext.

(* for j, oparent in enumerate(oparents):
       if sparent is oparent: s = sparents[i+1]; o = oparents[j+1]; if s is o: continue; <first_of> *)
Fixpoint cmp_inner (h : heap) (sp : nat) (snext : option nat) (ops : list nat) : cmp_res :=
  match ops with
  | [] => CNext
  | op :: orest =>
      if Nat.eqb sp op then
        match snext, hd_error orest with
        | Some s, Some o =>
            if Nat.eqb s o then cmp_inner h sp snext orest        (* fix-2: still on the common part of the two branches *)
            else match first_of s o (children h sp) with Some z => CVal z | None => cmp_inner h sp snext orest end
        | _, _ => CIndexError
        end
      else cmp_inner h sp snext orest
  end.

Fixpoint cmp_outer (h : heap) (sps ops : list nat) : cmp_res :=
  match sps with
  | [] => CNext
  | sp :: srest => match cmp_inner h sp (hd_error srest) ops with CNext => cmp_outer h srest ops | r => r end
  end.

Definition opt_eqb (a b : option nat) : bool :=
  match a, b with Some x, Some y => Nat.eqb x y | None, None => true | _, _ => false end.

Inductive view_res := VVal (z : Z) | VCrash (k : Z) | VHang.

Definition compare_pos (h : heap) (s o : nat) : view_res :=
  if negb (opt_eqb (owner h s) (owner h o)) then VVal POS_DISCONNECTED
  else if opt_eqb (prev_sibling h s) (Some o) then VVal POS_PRECEDING
  else if opt_eqb (next_sibling h s) (Some o) then VVal POS_FOLLOWING
  else if Nat.eqb s o then VVal POS_SAME
  else match walk_up (S (length h)) h o s [] with
       | None => VHang
       | Some (true, _) => VVal POS_CONTAINS
       | Some (false, sps) =>
           match walk_up (S (length h)) h s o [] with
           | None => VHang
           | Some (true, _) => VVal POS_CONTAINED_BY
           | Some (false, ops) =>
               match cmp_outer h sps ops with
               | CVal z => VVal z
               | CIndexError => VCrash E_INDEX
               | CNext => VVal POS_DISCONNECTED
               end
           end
       end.

(* ---------------------------------------------------------------------------------------------- *)
(* the operation alphabet and one step of a history *)

Inductive op :=
| OCreateDoc
| OCreateElem (d : nat) (name : Z)
| OCreateText (d : nat) (s : list Z)
| OCreateFrag (d : nat)
| OAppend (p c : nat)
| OInsert (p : nat) (i : Z) (c : nat)
| OInsertBefore (p c ref : nat)
| OInsertAfter (p c ref : nat)
| OReplaceChild (p c old : nat)
| ORemoveChild (p old : nat)
| OPop (p : nat) (i : Z)
| OSetItem (p : nat) (i : Z) (c : nat)
| OExtend (p other : nat)
| OExtendList (p : nat) (cs : list nat)
| ONormalize (p : nat)
| OClone (c : nat)
| OSetAttr (p : nat) (k : Z) (v : nat).

Definition valid (h : heap) (n : nat) : bool := Nat.ltb n (length h).
(* receivers the Model covers: Element, Document, DocumentFragment (a Text receiver writes into the class-level
   CharacterData._dummyChildNodes list shared by all text nodes: outside the Model) *)
Definition receiver (h : heap) (p : nat) : bool := is_tree h p || is_frag h p.

Definition step (h : heap) (o : op) : heap * outcome :=
  match o with
  | OCreateDoc => create_doc h
  | OCreateElem d name => create h d (KElem name)
  | OCreateText d s => create h d (KText s)
  | OCreateFrag d => create h d KFrag
  | OAppend p c => if receiver h p && valid h c then append_f fuel0 h p c else (h, RBad)
  | OInsert p i c => if receiver h p && valid h c then insert_f fuel0 h p i c else (h, RBad)
  | OInsertBefore p c r => if receiver h p && valid h c && valid h r then insert_rel false h p c r else (h, RBad)
  | OInsertAfter p c r => if receiver h p && valid h c && valid h r then insert_rel true h p c r else (h, RBad)
  | OReplaceChild p c old => if receiver h p && valid h c && valid h old then replace_child h p c old else (h, RBad)
  | ORemoveChild p old => if receiver h p && valid h old then remove_child h p old else (h, RBad)
  | OPop p i => if receiver h p then pop_op h p i else (h, RBad)
  | OSetItem p i c => if receiver h p && valid h c then set_item h p i c else (h, RBad)
  | OExtend p o => if receiver h p && receiver h o then extend_node h p o else (h, RBad)
  | OExtendList p cs => if receiver h p && forallb (valid h) cs then extend_list h p cs else (h, RBad)
  | ONormalize p => if receiver h p then normalize_f (S (length h)) h p else (h, RBad)
  | OClone c => if valid h c then clone_f (S (length h)) h c else (h, RBad)
  | OSetAttr p k v => if valid h v then set_attr h p k v else (h, RBad)
  end.

Definition run (h : heap) (ops : list op) : heap := fold_left (fun h o => fst (step h o)) ops h.
