(* Model of plasTeX/Context.py: class ContextItem and the stack part of class Context
   (push, pop, mapMethods, createContext, __getitem__, addGlobal, addLocal, let (with the local= argument
   of fix-1), get_let, whichCode,
   catcode, setVerbatimCatcodes, newif, newcounter), as the code is.

   State.  Context.contexts is a Python list whose element 0 is the global namespace, created by
   Context.__init__ and never removed (every pop loop is guarded by len(self.contexts) > 1).  The Model
   keeps that element apart ([bottom]) and the rest of the list top-first ([ups]):
        contexts = bottom :: rev ups          len(contexts) = 1 + length ups
   ContextItem.parent is set by mapMethods to contexts[-2] each time an item becomes the top; items below
   the top are never touched, so the parent of an item is always the next element of [ups] (or [bottom]):
   chained lookup through .parent is lookup down the list.
   A ContextItem is a dict (macros) + .lets + .categories + .obj.  .categories is a *reference* to a list
   of 16 strings: several items, and Context.categories, may refer to the same list object.  The Model has
   a heap of tables and frames hold indices into it; Context.catcode's
        c = self.contexts[-1].categories = self.categories = self.categories[:]
   is an allocation of a copy followed by in-place updates of the copy.
   Dicts are association lists with the newest binding first (lookup finds the first). *)
From Coq Require Import List NArith ZArith Bool.
Import ListNotations.
From Verif Require Import Val Tokenizer Scope.
Local Open Scope N_scope.

Record frame := {
  macros : list (name * value);        (* dict part of the ContextItem *)
  lets : list (name * ltok);           (* .lets *)
  cats : nat;                          (* .categories : index into the heap of tables *)
  fobj : option objinfo                (* .obj *)
}.

Record state := {
  ups : list frame;                    (* contexts[1:], top first *)
  bottom : frame;                      (* contexts[0] *)
  heap : list table;                   (* the category lists that exist *)
  cur : nat;                           (* Context.categories *)
  m_cells : list (N * Z)               (* Context.counters values and NewIf.state class attributes *)
}.

Definition set_ups (s : state) (u : list frame) : state :=
  {| ups := u; bottom := bottom s; heap := heap s; cur := cur s; m_cells := m_cells s |}.
Definition set_bottom (s : state) (b : frame) : state :=
  {| ups := ups s; bottom := b; heap := heap s; cur := cur s; m_cells := m_cells s |}.
Definition set_heap (s : state) (h : list table) : state :=
  {| ups := ups s; bottom := bottom s; heap := h; cur := cur s; m_cells := m_cells s |}.
Definition set_cur (s : state) (c : nat) : state :=
  {| ups := ups s; bottom := bottom s; heap := heap s; cur := c; m_cells := m_cells s |}.
Definition set_mcells (s : state) (c : list (N * Z)) : state :=
  {| ups := ups s; bottom := bottom s; heap := heap s; cur := cur s; m_cells := c |}.

Definition set_macros (f : frame) (m : list (name * value)) : frame :=
  {| macros := m; lets := lets f; cats := cats f; fobj := fobj f |}.
Definition set_lets (f : frame) (l : list (name * ltok)) : frame :=
  {| macros := macros f; lets := l; cats := cats f; fobj := fobj f |}.
Definition set_cats (f : frame) (c : nat) : frame :=
  {| macros := macros f; lets := lets f; cats := c; fobj := fobj f |}.

(* self.contexts[-1] *)
Definition top (s : state) : frame := match ups s with f :: _ => f | [] => bottom s end.
Definition upd_top (g : frame -> frame) (s : state) : state :=
  match ups s with
  | f :: r => set_ups s (g f :: r)
  | [] => set_bottom s (g (bottom s))
  end.
(* self.contexts[0] *)
Definition upd_bottom (g : frame -> frame) (s : state) : state := set_bottom s (g (bottom s)).

Definition depth (s : state) : nat := S (length (ups s)).       (* len(self.contexts) *)

(* ContextItem.__getitem__: own dict, else self.parent[key], else KeyError (None) *)
Fixpoint chain_get (fs : list frame) (b : frame) (k : name) : option value :=
  match fs with
  | [] => find k (macros b)
  | f :: r => match find k (macros f) with Some v => Some v | None => chain_get r b k end
  end.
Definition lookup (s : state) (k : name) : option value := chain_get (ups s) (bottom s) k.

(* Context.get_let: for context in reversed(self.contexts): try context.lets[command] *)
Fixpoint chain_let (fs : list frame) (b : frame) (k : name) : option ltok :=
  match fs with
  | [] => find k (lets b)
  | f :: r => match find k (lets f) with Some v => Some v | None => chain_let r b k end
  end.
Definition get_let (s : state) (k : name) : option ltok := chain_let (ups s) (bottom s) k.

(* Context.whichCode: c = self.categories *)
Definition table_at (s : state) (r : nat) : table := nth r (heap s) [].
Definition which (s : state) (c : N) : N := which_code (table_at s (cur s)) c.

(* Context.mapMethods: self.top = self.contexts[-1]; self.categories = top.categories; (top.parent = contexts[-2]) *)
Definition map_methods (s : state) : state := set_cur s (cats (top s)).

(* Context.push(context) when self.contexts is not empty, with createContext inlined:
     if context is not None and context.level == DOCUMENT_LEVEL: while len(self.contexts) > 1: self.contexts.pop()
     newcontext.categories = self.categories   (mapMethods has NOT been called after those pops)
     newcontext.obj = obj; newcontext.update(obj.locals())
     self.contexts.append(newcontext); self.mapMethods() *)
Definition is_doc (o : option objinfo) : bool := match o with Some x => odoc x | None => false end.
Definition push (o : option objinfo) (s : state) : state :=
  let s1 := if is_doc o then set_ups s [] else s in
  let f := {| macros := locals_of o; lets := []; cats := cur s1; fobj := o |} in
  map_methods (set_ups s1 (f :: ups s1)).

(* Context.pop(None):  while len(self.contexts) > 1:
                          if self.contexts[-1].obj is None: self.contexts.pop(); break
                          self.contexts.pop() *)
Fixpoint pop_none (fs : list frame) : list frame :=
  match fs with
  | [] => []
  | f :: r => match fobj f with None => r | Some _ => pop_none r end
  end.

(* Context.pop(obj):   while len(self.contexts) > 1:
                          o = self.contexts[-1].obj
                          if o is None: pass
                          elif o is obj: pop; break
                          elif o is obj.parentNode: break
                          elif type(obj) == type(o) and obj.macroMode == obj.MODE_END: pop; break
                          elif obj.nodeName == 'end' + o.nodeName: pop; break
                          self.contexts.pop() *)
Definition parent_is (p o : objinfo) : bool := match oparent p with Some i => i =? oid o | None => false end.
Fixpoint pop_obj (p : objinfo) (fs : list frame) : list frame :=
  match fs with
  | [] => []
  | f :: r =>
    match fobj f with
    | None => pop_obj p r
    | Some o =>
      if oid o =? oid p then r
      else if parent_is p o then f :: r
      else if (otype p =? otype o) && (omode p =? 2) then r
      else if str_eqb (oname p) (end_prefix ++ oname o) then r
      else pop_obj p r
    end
  end.

Definition pop (o : option objinfo) (s : state) : state :=
  map_methods (set_ups s (match o with None => pop_none (ups s) | Some p => pop_obj p (ups s) end)).

(* addLocal: self.contexts[-1][macroName(value)] = value;  addGlobal: self.contexts[0][...] = value *)
Definition bind (k : name) (v : value) (f : frame) : frame := set_macros f ((k, v) :: macros f).
Definition add_local (k : name) (v : value) (s : state) : state := upd_top (bind k v) s.
Definition add_global (k : name) (v : value) (s : state) : state := upd_bottom (bind k v) s.

(* Context.__getitem__: try: return self.top[key] / except KeyError: self[key] = newclass (addGlobal); return newclass *)
Definition getitem (k : name) (s : state) : state * value :=
  match lookup s k with
  | Some v => (s, v)
  | None => (add_global k (VUnrec k) s, VUnrec k)
  end.

(* Context.let(dest, source, local):  target = self.top if local else self.contexts[0]
     escape-sequence source: target[dest] = self[source]; otherwise target.lets[dest] = source *)
Definition upd_target (local : bool) : (frame -> frame) -> state -> state := if local then upd_top else upd_bottom.
Definition let_macro (local : bool) (d src : name) (s : state) : state :=
  let (s1, v) := getitem src s in upd_target local (bind d v) s1.
Definition let_tok (local : bool) (d : name) (t : ltok) (s : state) : state :=
  upd_target local (fun f => set_lets f ((d, t) :: lets f)) s.

(* list.append of a new table; returns its index *)
Definition alloc (t : table) (s : state) : state * nat := (set_heap s (heap s ++ [t]), length (heap s)).
(* in-place update of the list object r *)
Fixpoint update_nth {A} (n : nat) (g : A -> A) (l : list A) : list A :=
  match l, n with
  | [], _ => []
  | x :: r, O => g x :: r
  | x :: r, S n' => x :: update_nth n' g r
  end.
Definition heap_update (r : nat) (g : table -> table) (s : state) : state := set_heap s (update_nth r g (heap s)).

(* Context.catcode(char, code):
     c = self.contexts[-1].categories = self.categories = self.categories[:]
     for i in range(0, 16): c[i] = c[i].replace(char, '')
     if code != 12: c[code] += char            (IndexError when code > 15, after the removals)
   Tokenizer.set_catcode is exactly the two in-place updates composed (for code > 15 only the removals). *)
Definition catcode (c k : N) (s : state) : state :=
  let (s1, r) := alloc (table_at s (cur s)) s in
  let s2 := set_cur (upd_top (fun f => set_cats f r) s1) r in
  heap_update r (fun t => set_catcode t c k) s2.

(* setVerbatimCatcodes: self.contexts[-1].categories = self.categories = VERBATIM_CATEGORIES[:] *)
Definition verbatim (s : state) : state :=
  let (s1, r) := alloc verbatim_table s in
  set_cur (upd_top (fun f => set_cats f r) s1) r.

(* newif: if name in self.keys(): return; addGlobal x 3 (ifname, nametrue, namefalse); the state is a class attribute *)
Definition new_if (k kt kf : name) (v vt vf : value) (cell : N) (init : Z) (s : state) : state :=
  match lookup s k with
  | Some _ => s
  | None => set_mcells (add_global kf vf (add_global kt vt (add_global k v s))) ((cell, init) :: m_cells s)
  end.

(* newcounter: if name in self.counters.keys(): return; self.counters[name] = Counter(initial); addGlobal('the'+name) *)
Definition new_counter (c : N) (thek : name) (v : value) (init : Z) (s : state) : state :=
  match find c (m_cells s) with
  | Some _ => s
  | None => add_global thek v (set_mcells s ((c, init) :: m_cells s))
  end.

Definition step (o : op) (s : state) : state :=
  match o with
  | Push x => push x s
  | Pop x => pop x s
  | AddLocal k v => add_local k v s
  | AddGlobal k v => add_global k v s
  | LetMacro d src => let_macro true d src s
  | LetTok d t => let_tok true d t s
  | GLetMacro d src => let_macro false d src s
  | GLetTok d t => let_tok false d t s
  | Catcode c k => catcode c k s
  | Verbatim => verbatim s
  | Getitem k => fst (getitem k s)
  | NewIf k kt kf v vt vf cell init => new_if k kt kf v vt vf cell init s
  | NewCounter c thek v init => new_counter c thek v init s
  | SetCell c z => set_mcells s ((c, z) :: m_cells s)
  end.
(* the operation raises (after the state change described by [step]) *)
Definition raises (o : op) : bool := match o with Catcode _ k => 16 <=? k | _ => false end.

Definition run (h : list op) (s : state) : state := fold_left (fun s o => step o s) h s.

(* Context(): one global frame with DEFAULT_CATEGORIES[:] *)
Definition empty_frame (c : nat) : frame := {| macros := []; lets := []; cats := c; fobj := None |}.
Definition init_state : state :=
  {| ups := []; bottom := empty_frame 0; heap := [default_table]; cur := 0; m_cells := [] |}.

(* ---- \begin{x} / \end{x} (Base/LaTeX/Environments.py begin.invoke / end.invoke) ----
   obj = self.ownerDocument.createElement(name)      createElement = context[name]() : a fresh instance of the class that
   obj.macroMode = MODE_BEGIN / MODE_END               name means *now* (an unknown name is defined as unrecognized first)
   obj.parentNode = self.parentNode                    (None while the token stream is being expanded)
   obj.invoke(tex)
   and invoke is, depending on the class of the name:
     Environment.invoke   begin: context.push(self); self.parse(tex)        end: context.pop(self)
     Macro.invoke         MODE_BEGIN branch: context.push(self); parse      MODE_END branch: context.pop(self)
                          (Command classes used as environments - sloppypar ...; UnrecognizedMacro is a Macro)
     NewCommand.invoke    (\newenvironment) begin: arguments, BeginGroup token, begin code -> bgroup.invoke: push()
                          end: end code of \endx, EndGroup token -> egroup.invoke: pop()
   The type of the instance is the class, i.e. the value the lookup returns. *)
Inductive ckind := CEnvironment | CMacro | CNewCommand.
Definition val_code (v : value) : N := match v with VDef i => 2 * i | VUnrec k => 2 * k + 1 end.
Definition instance (v : value) (i mode : N) (nm : list N) (locs : list (name * value)) : objinfo :=
  {| oid := i; otype := val_code v; omode := mode; oname := nm; oparent := None; odoc := false; olocals := locs |}.
Definition begin_env (x : name) (ck : ckind) (i : N) (nm : list N) (locs : list (name * value)) (s : state) : state :=
  let (s1, v) := getitem x s in
  match ck with
  | CEnvironment => push (Some (instance v i 1 nm locs)) s1
  | CMacro => push (Some (instance v i 1 nm locs)) s1
  | CNewCommand => push None s1
  end.
Definition end_env (x : name) (ck : ckind) (i : N) (nm : list N) (s : state) : state :=
  let (s1, v) := getitem x s in
  match ck with
  | CEnvironment => pop (Some (instance v i 2 nm [])) s1
  | CMacro => pop (Some (instance v i 2 nm [])) s1
  | CNewCommand => pop None s1
  end.

(* what the driver runs: context operations, and \begin / \end of a name *)
Inductive xop :=
| XOp (o : op)
| XBegin (x : name) (ck : ckind) (i : N) (nm : list N) (locs : list (name * value))
| XEnd (x : name) (ck : ckind) (i : N) (nm : list N).
Definition xstep (o : xop) (s : state) : state :=
  match o with
  | XOp o => step o s
  | XBegin x ck i nm locs => begin_env x ck i nm locs s
  | XEnd x ck i nm => end_env x ck i nm s
  end.
Definition xraises (o : xop) : bool := match o with XOp o => raises o | _ => false end.

(* ---- observations and wire format ---- *)
Definition val_z (v : option value) : Z :=
  match v with None => -1 | Some (VDef i) => 2 * Z.of_N i | Some (VUnrec k) => 2 * Z.of_N k + 1 end%Z.
Definition optN_z (v : option N) : Z := match v with None => (-1)%Z | Some n => Z.of_N n end.
Definition optZ_z (v : option Z) : Z := match v with None => (-99)%Z | Some z => z end.

Record probes := { p_names : list N; p_chars : list N; p_cells : list N }.

Definition obs_frame (s : state) (p : probes) (f : frame) : val :=
  VL ( VI (match fobj f with None => (-1)%Z | Some o => Z.of_N (oid o) end)
       :: map (fun k => VI (val_z (find k (macros f)))) (p_names p)
       ++ map (fun k => VI (optN_z (find k (lets f)))) (p_names p)
       ++ map (fun c => ofN (which_code (table_at s (cats f)) c)) (p_chars p) ).

(* one flat list: raised?, len(contexts), lookups, get_lets, whichCodes, cells; full = followed by the dump of every
   frame (top first) *)
Definition observe (p : probes) (full : bool) (crashed : bool) (s : state) : val :=
  VL ( ofB crashed :: ofNat (depth s)
       :: map (fun k => VI (val_z (lookup s k))) (p_names p)
       ++ map (fun k => VI (optN_z (get_let s k))) (p_names p)
       ++ map (fun c => ofN (which s c)) (p_chars p)
       ++ map (fun c => VI (optZ_z (find c (m_cells s)))) (p_cells p)
       ++ (if full then [VL (map (obs_frame s p) (ups s ++ [bottom s]))] else []) ).

(* dump = dump the frames after every operation; otherwise only after the last one *)
Fixpoint run_obs (p : probes) (dump : bool) (h : list xop) (s : state) : list val :=
  match h with
  | [] => []
  | o :: r => let s' := xstep o s in
              observe p (dump || match r with [] => true | _ => false end) (xraises o) s' :: run_obs p dump r s'
  end.

Definition value_of (v : val) : option value :=
  match v with
  | VL [VI 0; i] => match getN i with Some i => Some (VDef i) | None => None end
  | VL [VI 1; k] => match getN k with Some k => Some (VUnrec k) | None => None end
  | _ => None
  end.
Definition binding_of (v : val) : option (name * value) :=
  match v with
  | VL [k; x] => match getN k, value_of x with Some k, Some x => Some (k, x) | _, _ => None end
  | _ => None
  end.
Definition obj_of (v : val) : option (option objinfo) :=
  match v with
  | VI 0 => Some None
  | VL [i; t; m; nm; VI par; VI doc; VL locs] =>
      match getN i, getN t, getN m, getNs nm, mapM binding_of locs with
      | Some i, Some t, Some m, Some nm, Some locs =>
          Some (Some {| oid := i; otype := t; omode := m; oname := nm;
                        oparent := if (par <? 0)%Z then None else Some (Z.to_N par);
                        odoc := negb (Z.eqb doc 0); olocals := locs |})
      | _, _, _, _, _ => None
      end
  | _ => None
  end.

Definition op_of (v : val) : option op :=
  match v with
  | VL [VI 0; o] => match obj_of o with Some o => Some (Push o) | None => None end
  | VL [VI 1; o] => match obj_of o with Some o => Some (Pop o) | None => None end
  | VL [VI 2; k; x] => match getN k, value_of x with Some k, Some x => Some (AddLocal k x) | _, _ => None end
  | VL [VI 3; k; x] => match getN k, value_of x with Some k, Some x => Some (AddGlobal k x) | _, _ => None end
  | VL [VI 4; d; s] => match getN d, getN s with Some d, Some s => Some (LetMacro d s) | _, _ => None end
  | VL [VI 5; d; t] => match getN d, getN t with Some d, Some t => Some (LetTok d t) | _, _ => None end
  | VL [VI 6; c; k] => match getN c, getN k with Some c, Some k => Some (Catcode c k) | _, _ => None end
  | VL [VI 7] => Some Verbatim
  | VL [VI 8; k] => match getN k with Some k => Some (Getitem k) | None => None end
  | VL [VI 9; k; kt; kf; x; xt; xf; cell; VI init] =>
      match getN k, getN kt, getN kf, value_of x, value_of xt, value_of xf, getN cell with
      | Some k, Some kt, Some kf, Some x, Some xt, Some xf, Some cell => Some (NewIf k kt kf x xt xf cell init)
      | _, _, _, _, _, _, _ => None
      end
  | VL [VI 10; c; thek; x; VI init] =>
      match getN c, getN thek, value_of x with
      | Some c, Some thek, Some x => Some (NewCounter c thek x init)
      | _, _, _ => None
      end
  | VL [VI 11; c; VI z] => match getN c with Some c => Some (SetCell c z) | None => None end
  | VL [VI 12; d; s] => match getN d, getN s with Some d, Some s => Some (GLetMacro d s) | _, _ => None end
  | VL [VI 13; d; t] => match getN d, getN t with Some d, Some t => Some (GLetTok d t) | _, _ => None end
  | _ => None
  end.

Definition ckind_of (z : Z) : option ckind :=
  match z with 0%Z => Some CEnvironment | 1%Z => Some CMacro | 2%Z => Some CNewCommand | _ => None end.
Definition xop_of (v : val) : option xop :=
  match v with
  | VL [VI 14; x; VI ck; i; nm; VL locs] =>
      match getN x, ckind_of ck, getN i, getNs nm, mapM binding_of locs with
      | Some x, Some ck, Some i, Some nm, Some locs => Some (XBegin x ck i nm locs)
      | _, _, _, _, _ => None
      end
  | VL [VI 15; x; VI ck; i; nm] =>
      match getN x, ckind_of ck, getN i, getNs nm with
      | Some x, Some ck, Some i, Some nm => Some (XEnd x ck i nm)
      | _, _, _, _ => None
      end
  | _ => match op_of v with Some o => Some (XOp o) | None => None end
  end.
Definition xrun (h : list xop) (s : state) : state := fold_left (fun s o => xstep o s) h s.

(* case: ((names) (chars) (cells)) (op ...) dump (fan ...)
   ->  (obs0 obs1 ... obsN f1 ... fM): the observation of the initial state, one observation after each
   operation (with the frame dump after the last one, or after each if dump), and for every operation of the fan the
   observation (without dump) after running it in the final state: the fan stands for M histories sharing the prefix *)
Definition run_case (v : val) : val :=
  match v with
  | VL [VL [ns; cs; ces]; VL ops; VI dump; VL fan] =>
      match getNs ns, getNs cs, getNs ces, mapM xop_of ops, mapM xop_of fan with
      | Some ns, Some cs, Some ces, Some ops, Some fan =>
          let p := {| p_names := ns; p_chars := cs; p_cells := ces |} in
          let d := negb (Z.eqb dump 0) in
          let s := xrun ops init_state in
          VL (observe p true false init_state :: run_obs p d ops init_state
              ++ map (fun o => observe p false (xraises o) (xstep o s)) fan)
      | _, _, _, _, _ => v_bad_input
      end
  | _ => v_bad_input
  end.
