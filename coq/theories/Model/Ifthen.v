(* Model of plasTeX/Packages/ifthen.py : ifthenelse.evaluate (shunting-yard to postfix, then a
   stack evaluation), the atoms, and the \whiledo loop.  Faithful to the Python: Python list pops on
   an empty list and the explicit ValueErrors are the outcome [None] (= the implementation raises). *)
From Coq Require Import List ZArith Bool QArith Qabs.
Import ListNotations.
From Verif Require Import Val IfthenPrec.
Local Open Scope Z_scope.

Inductive rel := Lt | Gt | Eq.
(* the tokens of an expanded test, as [evaluate] distinguishes them *)
Inductive tok :=
| TNum (z : Z)      (* a maximal run of "other" tokens, read by readNumber *)
| TBool (b : bool)  (* a _boolToken left by an atom macro *)
| TRel (r : rel) | TAnd | TOr | TNot | TLp | TRp
| TSpace            (* catcode-10 token: skipped *)
| TJunk.            (* any other token: treated as an operator of precedence 0 *)

(* ifthenelse.prec; the three values are regenerated from the source on every run (Gen/IfthenPrec.v) *)
Definition prec (t : tok) : nat :=
  match t with TRel _ => gen_prec_rel | TAnd | TOr | TNot => gen_prec_op | _ => gen_prec_default end.

(* while stack and prec(tok) <= prec(stack[-1]): postfix.append(stack.pop())     (out is kept reversed) *)
Fixpoint pop_while (p : nat) (st out : list tok) : list tok * list tok :=
  match st with
  | top :: st' => if Nat.leb p (prec top) then pop_while p st' (top :: out) else (st, out)
  | [] => ([], out)
  end.

(* while stack: if stack[-1] is "(": break; postfix.append(stack.pop())   then   stack.pop() *)
Fixpoint pop_to_lp (st out : list tok) : option (list tok * list tok) :=
  match st with
  | TLp :: st' => Some (st', out)
  | top :: st' => pop_to_lp st' (top :: out)
  | [] => None
  end.

Definition step (t : tok) (st out : list tok) : option (list tok * list tok) :=
  match t with
  | TNum _ | TBool _ => Some (st, t :: out)
  | TSpace => Some (st, out)
  | TLp => Some (t :: st, out)
  | TRp => pop_to_lp st out
  | TNot => Some (t :: st, out)    (* prefix operator: pushed without popping *)
  | _ => let '(st', out') := pop_while (prec t) st out in Some (t :: st', out')
  end.

Fixpoint run (ts st out : list tok) : option (list tok * list tok) :=
  match ts with
  | [] => Some (st, out)
  | t :: ts' => match step t st out with Some (st', out') => run ts' st' out' | None => None end
  end.

Definition to_postfix (ts : list tok) : option (list tok) :=
  match run ts [] [] with Some (st, out) => Some (rev out ++ st) | None => None end.

Inductive sval := VB (b : bool) | VN (z : Z).
Definition cmp (r : rel) (a b : Z) : bool :=
  match r with Lt => Z.ltb a b | Gt => Z.gtb a b | Eq => Z.eqb a b end.

Fixpoint evalp (p : list tok) (s : list sval) : option (list sval) :=
  match p with
  | [] => Some s
  | TNum z :: p' => evalp p' (VN z :: s)
  | TBool b :: p' => evalp p' (VB b :: s)
  | TAnd :: p' => match s with VB a :: VB b :: s' => evalp p' (VB (b && a) :: s') | _ => None end
  | TOr :: p' => match s with VB a :: VB b :: s' => evalp p' (VB (b || a) :: s') | _ => None end
  | TNot :: p' => match s with VB a :: s' => evalp p' (VB (negb a) :: s') | _ => None end
  | TRel r :: p' => match s with VN b :: VN a :: s' => evalp p' (VB (cmp r a b) :: s') | _ => None end
  | _ :: p' => evalp p' s
  end.

(* None = the implementation raises; Some b = the _boolToken state returned *)
Definition evaluate (ts : list tok) : option bool :=
  match to_postfix ts with
  | None => None
  | Some p => match evalp p [] with
              | None => None
              | Some (VB b :: _) => Some b
              | Some _ => Some false
              end
  end.

(* ---- atoms ---- *)
Definition isodd_val (z : Z) : bool := Z.eqb (Z.modulo z 2) 1.          (* number % 2 == 1 *)
Definition equal_val (a b : list Z) : bool := if list_eq_dec Z.eq_dec a b then true else false.
(* lengths in sp as exact rationals; "=" means |a-b| < 1e-6 *)
Definition q_close (a b : Q) : bool :=
  match Qcompare (Qabs (a - b)) (1 # 1000000) with Datatypes.Lt => true | _ => false end.
Definition lengthtest_val (a : Q) (r : rel) (b : Q) : bool :=
  match r with
  | Lt => match Qcompare a b with Datatypes.Lt => negb (q_close a b) | _ => false end
  | Gt => match Qcompare a b with Datatypes.Gt => negb (q_close a b) | _ => false end
  | Eq => q_close a b
  end.

(* ---- the expression grammar of the property and its printer ---- *)
Inductive atom :=
| ACmp (a : Z) (r : rel) (b : Z) | ABool (b : bool) | AParen (e : expr)
with term := TAtom (a : atom) | TNeg (t : term)
with expr := ETerm (t : term) | EAnd (e : expr) (t : term) | EOr (e : expr) (t : term).

Fixpoint den_a (a : atom) : bool :=
  match a with ACmp x r y => cmp r x y | ABool b => b | AParen e => den_e e end
with den_t (t : term) : bool := match t with TAtom a => den_a a | TNeg t => negb (den_t t) end
with den_e (e : expr) : bool :=
  match e with ETerm t => den_t t | EAnd e t => den_e e && den_t t | EOr e t => den_e e || den_t t end.

Fixpoint pr_a (a : atom) : list tok :=
  match a with ACmp x r y => [TNum x; TRel r; TNum y] | ABool b => [TBool b] | AParen e => TLp :: pr_e e ++ [TRp] end
with pr_t (t : term) : list tok := match t with TAtom a => pr_a a | TNeg t => TNot :: pr_t t end
with pr_e (e : expr) : list tok :=
  match e with ETerm t => pr_t t | EAnd e t => pr_e e ++ TAnd :: pr_t t | EOr e t => pr_e e ++ TOr :: pr_t t end.

(* blanks may be written anywhere between tokens *)
Fixpoint strip_spaces (ts : list tok) : list tok :=
  match ts with [] => [] | TSpace :: r => strip_spaces r | t :: r => t :: strip_spaces r end.

(* ---- \ifthenelse and \whiledo ---- *)
Definition ifthenelse {A} (ts : list tok) (thn els : A) : option A :=
  match evaluate ts with Some true => Some thn | Some false => Some els | None => None end.

(* whiledo: the test is re-expanded (re-read in the current state) before every iteration *)
Section While.
  Context {S : Type} (test : S -> option bool) (body : S -> S).
  Inductive wres := WDone (n : nat) (s : S) | WCrash | WFuel.
  Fixpoint whiledo (fuel : nat) (n : nat) (s : S) : wres :=
    match fuel with
    | O => WFuel
    | Datatypes.S f => match test s with
             | None => WCrash
             | Some false => WDone n s
             | Some true => whiledo f (Datatypes.S n) (body s)
             end
    end.
End While.

(* ---- wire format ---- *)
Definition rel_of (z : Z) : option rel := match z with 0 => Some Lt | 1 => Some Gt | 2 => Some Eq | _ => None end.
Definition q_of (n d : Z) : option Q := match d with Zpos p => Some (n # p) | _ => None end.

(* operands: (0 z) literal | (1 k) loop variable + k *)
Definition operand (c : Z) (v : val) : option Z :=
  match v with VL [VI 0; VI z] => Some z | VL [VI 1; VI k] => Some (c + k) | _ => None end.

Fixpoint atom_of (fuel : nat) (c : Z) (v : val) {struct fuel} : option atom :=
  match fuel with O => None | Datatypes.S f =>
  match v with
  | VL [VI 0; x; VI r; y] => match operand c x, rel_of r, operand c y with Some x, Some r, Some y => Some (ACmp x r y) | _, _, _ => None end
  | VL [VI 1; VI b] => Some (ABool (negb (Z.eqb b 0)))
  | VL [VI 2; e] => match expr_of f c e with Some e => Some (AParen e) | None => None end
  | VL [VI 3; x] => match operand c x with Some z => Some (ABool (isodd_val z)) | None => None end
  | VL [VI 4; a; b] => match getZs a, getZs b with Some a, Some b => Some (ABool (equal_val a b)) | _, _ => None end
  | VL [VI 5; VI an; VI ad; VI r; VI bn; VI bd] =>
      match q_of an ad, rel_of r, q_of bn bd with Some a, Some r, Some b => Some (ABool (lengthtest_val a r b)) | _, _, _ => None end
  | _ => None
  end end
with term_of (fuel : nat) (c : Z) (v : val) {struct fuel} : option term :=
  match fuel with O => None | Datatypes.S f =>
  match v with
  | VL [VI 0; a] => match atom_of f c a with Some a => Some (TAtom a) | None => None end
  | VL [VI 1; t] => match term_of f c t with Some t => Some (TNeg t) | None => None end
  | _ => None
  end end
with expr_of (fuel : nat) (c : Z) (v : val) {struct fuel} : option expr :=
  match fuel with O => None | Datatypes.S f =>
  match v with
  | VL [VI 0; t] => match term_of f c t with Some t => Some (ETerm t) | None => None end
  | VL [VI 1; e; t] => match expr_of f c e, term_of f c t with Some e, Some t => Some (EAnd e t) | _, _ => None end
  | VL [VI 2; e; t] => match expr_of f c e, term_of f c t with Some e, Some t => Some (EOr e t) | _, _ => None end
  | _ => None
  end end.

Definition tok_of (v : val) : option tok :=
  match v with
  | VL [VI 0; VI z] => Some (TNum z) | VL [VI 1; VI b] => Some (TBool (negb (Z.eqb b 0)))
  | VL [VI 2; VI r] => match rel_of r with Some r => Some (TRel r) | None => None end
  | VI 3 => Some TAnd | VI 4 => Some TOr | VI 5 => Some TNot | VI 6 => Some TLp | VI 7 => Some TRp
  | VI 8 => Some TSpace | VI 9 => Some TJunk | _ => None
  end.

Definition out_bool (o : option bool) : val := match o with Some b => VL [VI 0; ofB b] | None => v_crash 0 end.

(* cases:  (0 expr)            evaluate the printed tree
           (1 (tok ...))       evaluate a raw token list
           (2 c0 step expr)    \whiledo{expr over the loop variable}{body: variable += step}; fuel 64 *)
Definition run_case (v : val) : val :=
  match v with
  | VL [VI 0; e] => match expr_of 200 0 e with Some e => out_bool (evaluate (pr_e e)) | None => v_bad_input end
  | VL [VI 1; VL ts] => match mapM tok_of ts with Some ts => out_bool (evaluate ts) | None => v_bad_input end
  | VL [VI 2; VI c0; VI st; e] =>
      match whiledo (fun c => match expr_of 200 c e with Some e => evaluate (pr_e e) | None => None end)
                    (fun c => c + st) 64 0 c0 with
      | WDone n c => VL [VI 0; ofNat n; VI c]
      | WCrash => v_crash 0
      | WFuel => v_outoffuel
      end
  | VL [VI 3; VI c0; VI st; e; inner] =>
      (* the body also contains \ifthenelse{inner}{Y}{N}: report the value of the inner test at every iteration *)
      let ev x c := match expr_of 200 c x with Some e => evaluate (pr_e e) | None => None end in
      match whiledo (fun s => ev e (fst s))
                    (fun s => (fst s + st, match ev inner (fst s) with Some b => ofB b | None => VI (-2) end :: snd s))
                    64 0 (c0, []) with
      | WDone n s => VL [VI 0; ofNat n; VI (fst s); VL (rev (snd s))]
      | WCrash => v_crash 0
      | WFuel => v_outoffuel
      end
  | _ => v_bad_input
  end.
