(* Wire decoding for C09: event histories in, final state (+ what the Spec demands) out.  No proofs here. *)
From Coq Require Import List ZArith Bool.
Import ListNotations.
From Verif Require Import Val Refs RefsSpec RefsDoc.
From Verif Require Counters CounterSyntax.
Local Open Scope Z_scope.

Definition get_opt {A} (f : val -> option A) (v : val) : option (option A) :=
  match v with
  | VL [] => Some None
  | VL [x] => match f x with Some a => Some (Some a) | None => None end
  | _ => None
  end.

Definition event_of (v : val) : option event :=
  match v with
  | VL [VI 0; VI o] => Some (ECurrent o)
  | VL [VI 1; VI o; n] => match get_opt getZs n with Some n => Some (ENumber o n) | None => None end
  | VL [VI 2; l; nd] => match getZs l, get_opt getZ nd with Some l, Some nd => Some (ELabel l nd) | _, _ => None end
  | VL [VI 3; VI r; VI k; l] => match getZs l with Some l => Some (ERef r k l) | None => None end
  | VL [VI 4] => Some EOpen
  | VL [VI 5] => Some EClose
  | _ => None
  end.

Definition of_opt {A} (f : A -> val) (o : option A) : val := match o with Some a => VL [f a] | None => VL [] end.
Definition of_tgt (v : tgt) : val :=
  match v with TObj o => VL [VI 0; VI o] | TPlace p i => VL [VI 1; ofNat p; ofZs i] end.
Definition of_res (v : option res) : val :=
  match v with Some (RObj o) => VL [VI 0; VI o] | Some (RNone l) => VL [VI 1; ofZs l] | None => VL [] end.

Definition dump (st : state) : list val :=
  [ VL (map (fun e : (holder * key) * tgt => VL [VI (fst (fst e)); VI (snd (fst e)); of_tgt (snd e)]) (idrefs st));
    VL (map (fun e : str * obj => VL [ofZs (fst e); VI (snd e)]) (labels st));
    VL (map (fun e : str * list holder => VL [ofZs (fst e); ofZs (snd e)]) (refs st));
    VL (map (fun e : obj * str => VL [VI (fst e); ofZs (snd e)]) (ids st));
    VL (map (fun e : obj * option str => VL [VI (fst e); of_opt ofZs (snd e)]) (nums st));
    of_opt VI (current st) ].

(* what the property demands for this history (LaTeX's rule for "current") *)
Definition demands (es : list event) (st : state) : val :=
  let att := attachments_tex es in
  VL [ ofB (nodup_b (map fst att));
       ofB (nodup_b (eff_labels es));
       ofB (well_placed es);
       VL (map (fun e : (holder * key) * tgt =>
                  VL [VI (fst (fst e)); VI (snd (fst e)); of_res (resolution att es (fst (fst e)) (snd (fst e)))]) (idrefs st));
       VL (map (fun e : str * obj => VL [ofZs (fst e); VI (snd e)]) att) ].

(* ---- documents: numbering events of Model/Counters.v + labels / references (Model/RefsDoc.v) -------------- *)
Definition inl_of (v : val) : option inl :=
  match v with
  | VL [VI 0; l] => match getZs l with Some l => Some (NLabel l) | None => None end
  | VL [VI 1; VI r; VI k; l] => match getZs l with Some l => Some (NRef r k l) | None => None end
  | VL [VI 2] => Some NOpen
  | VL [VI 3] => Some NClose
  | _ => None
  end.

Definition cevent_of (v : val) : option Counters.event :=
  match v with
  | VL [VI 0; nm; b] => match getZs nm, getB b with Some nm, Some b => Some (Counters.ESec nm b) | _, _ => None end
  | VL [VI 1] => Some Counters.EEquation
  | VL [VI 2; VL rows] => match mapM getB rows with Some rows => Some (Counters.EEqnarray rows) | None => None end
  | VL [VI 3; b] => match getB b with Some b => Some (Counters.ECaption b) | None => None end
  | VL [VI 4; nm] => match getZs nm with Some nm => Some (Counters.EThm nm) | None => None end
  | VL [VI 5; nm; sh; wi; b] =>
      match getZs nm, get_opt getZs sh, get_opt getZs wi, getB b with
      | Some nm, Some sh, Some wi, Some b => Some (Counters.ENewTheorem nm sh wi b)
      | _, _, _, _ => None
      end
  | VL [VI 6; b] => match getB b with Some b => Some (Counters.EBeginList b) | None => None end
  | VL [VI 7] => Some Counters.EEndList
  | VL [VI 8] => Some Counters.EItem
  | _ => None
  end.

Definition jevent_of (v : val) : option (@jevent Counters.event) :=
  match v with
  | VL [VI 0; i] => match inl_of i with Some i => Some (JInl i) | None => None end
  | VL [VI 1; ce; VL inner] =>
      match cevent_of ce, mapM (fun x => match x with VL l => mapM inl_of l | _ => None end) inner with
      | Some ce, Some inner => Some (JNum ce inner)
      | _, _ => None
      end
  | _ => None
  end.

Definition run_doc (cls depth : Z) (d : list (@jevent Counters.event)) : val :=
  match translate_c08 cls depth d with
  | Some (es, os) => let st := run es in VL (dump st ++ [demands es st])
  | None => v_crash 0          (* the numbering machine stopped (Crash / Fuel of Model/Counters.v) *)
  end.

Definition run_case (v : val) : val :=
  match v with
  | VL [VI 0; VL hs] =>      (* a list of histories (a document and its variants with the references moved) *)
      match mapM (fun h => match h with VL evs => mapM event_of evs | _ => None end) hs with
      | Some ess => VL (map (fun es => let st := run es in VL (dump st ++ [demands es st])) ess)
      | None => v_bad_input
      end
  | VL [VI 3; VI cls; VI depth; VL ds] =>   (* documents (and their variants) given as numbering events + labels / references *)
      match mapM (fun d => match d with VL js => mapM jevent_of js | _ => None end) ds with
      | Some ds => VL (map (run_doc cls depth) ds)
      | None => v_bad_input
      end
  | VL [VI 2; VL ss] =>
      match mapM getZs ss with
      | Some ss => VL (map (fun s => ofZs (strip s)) ss)
      | None => v_bad_input
      end
  | _ => v_bad_input
  end.
