(* Model of the cross-document label store of plasTeX:
     plasTeX/Context.py   Context.persist, Context.restore
     plasTeX/__init__.py  Macro.persist, Macro.restore (+ the property setters a restored node goes through)
     plasTeX/Compile.py   parse: restore every other *.paux before parsing
     plasTeX/Renderers/__init__.py  Renderer.render: persist <jobname>.paux under config['general']['renderer']

   Faithful to the Python: same try/except structure, Python dict semantics (insertion ordered, update in place),
   mutations made before an exception stay, explicit crash outcome where an exception escapes.
   The pickle byte format is external: [pickle]/[unpickle] are Section variables, [unpickle b = None] means
   "pickle.load raises".  Whether a class can be instantiated and whether an attribute of it can be assigned
   (read-only properties) is external as well ([new_raises], [setattr_raises]).
   No proofs here. *)
From Coq Require Import List ZArith Bool.
Import ListNotations.
From Verif Require Import Val.
Local Open Scope Z_scope.

(* ---------------------------------------------------------------- strings = lists of code points *)
Definition str := list Z.

Fixpoint str_eqb (a b : str) : bool :=
  match a, b with
  | [], [] => true
  | x :: a', y :: b' => Z.eqb x y && str_eqb a' b'
  | _, _ => false
  end.

Definition s_macroName : str := [109; 97; 99; 114; 111; 78; 97; 109; 101].  (* "macroName" *)
Definition s_ref : str := [114; 101; 102].  (* "ref" *)
Definition s_title : str := [116; 105; 116; 108; 101].  (* "title" *)
Definition s_captionName : str := [99; 97; 112; 116; 105; 111; 110; 78; 97; 109; 101].  (* "captionName" *)
Definition s_id : str := [105; 100].  (* "id" *)
Definition s_url : str := [117; 114; 108].  (* "url" *)
Definition s_urloverride : str := [117; 114; 108; 111; 118; 101; 114; 114; 105; 100; 101].  (* "urloverride" *)
Definition s_Macro : str := [77; 97; 99; 114; 111].  (* "Macro" *)
Definition s_at_id : str := [64; 105; 100].  (* "@id" *)
Definition s_fullTitle : str := [102; 117; 108; 108; 84; 105; 116; 108; 101].  (* "fullTitle" *)
Definition s_tocEntry : str := [116; 111; 99; 69; 110; 116; 114; 121].  (* "tocEntry" *)
Definition s_fullTocEntry : str := [102; 117; 108; 108; 84; 111; 99; 69; 110; 116; 114; 121].  (* "fullTocEntry" *)
Definition s_tagName : str := [116; 97; 103; 78; 97; 109; 101].  (* "tagName" *)
Definition s_nodeName : str := [110; 111; 100; 101; 78; 97; 109; 101].  (* "nodeName" *)
Definition s_None : str := [78; 111; 110; 101].  (* "None" *)

(* Macro.refAttributes *)
Definition refAttributes : list str := [s_macroName; s_ref; s_title; s_captionName; s_id; s_url].

(* ---------------------------------------------------------------- Python values *)
Inductive pyobj :=
| PNone
| PInt (z : Z)
| PStr (s : str)
| PList (l : list pyobj)
| PDict (kv : list (pyobj * pyobj))       (* insertion ordered; keys pairwise different *)
| POther (truthy : bool) (repr : str).    (* any other value (tuple, bytes, float, bool, set, object): no keys/get/items,
                                             not subscriptable by a string; [repr] is its str() *)

Definition is_none (v : pyobj) : bool := match v with PNone => true | _ => false end.

Definition truthy (v : pyobj) : bool :=
  match v with
  | PNone => false
  | PInt z => negb (z =? 0)
  | PStr s => match s with [] => false | _ => true end
  | PList l => match l with [] => false | _ => true end
  | PDict kv => match kv with [] => false | _ => true end
  | POther b _ => b
  end.

(* k == 'string' for a dictionary key k *)
Definition key_is (s : str) (k : pyobj) : bool := match k with PStr s' => str_eqb s s' | _ => false end.

(* equality of two hashable keys (used for context.labels, whose keys come out of the file) *)
Definition key_eqb (a b : pyobj) : bool :=
  match a, b with
  | PNone, PNone => true
  | PInt x, PInt y => x =? y
  | PStr x, PStr y => str_eqb x y
  | POther bx x, POther by_ y => Bool.eqb bx by_ && str_eqb x y
  | _, _ => false
  end.

Definition dict := list (pyobj * pyobj).

(* d[s]  (None = KeyError) *)
Fixpoint dict_get (s : str) (d : dict) : option pyobj :=
  match d with
  | [] => None
  | (k, v) :: d' => if key_is s k then Some v else dict_get s d'
  end.

(* d[s] = v : replaces the value in place when the key exists, appends otherwise *)
Fixpoint dict_set (s : str) (v : pyobj) (d : dict) : dict :=
  match d with
  | [] => [(PStr s, v)]
  | (k, v0) :: d' => if key_is s k then (k, v) :: d' else (k, v0) :: dict_set s v d'
  end.

(* ---------------------------------------------------------------- exceptions *)
Inductive exn := EKey | EType | EAttr | EValue | EUnpickle | EExternal.
(* every exception the Model can raise is a subclass of Exception ("except Exception" catches it) *)
Definition is_Exception (e : exn) : bool := true.
Definition exn_code (e : exn) : Z :=
  match e with EKey => 1 | EType => 2 | EAttr => 3 | EValue => 4 | EUnpickle => 5 | EExternal => 6 end.

(* ---------------------------------------------------------------- Macro.persist *)
(* A labelled node of the document being saved, seen through  getattr(node, name, None)  followed by the
   '%s' % str(value) conversion of Node values (rendering is external): name -> value, absent = None. *)
Definition snode := list (str * pyobj).

Fixpoint sget (n : snode) (name : str) : pyobj :=
  match n with
  | [] => PNone
  | (a, v) :: n' => if str_eqb name a then v else sget n' name
  end.

(*  attrs = {}
    for name in self.refAttributes:
        value = getattr(self, name, None)
        if value is None: continue
        if isinstance(value, Node): value = '%s' % str(value)
        attrs[name] = value
    return attrs *)
Definition macro_persist_attrs (n : snode) : dict :=
  fold_left (fun attrs name => let value := sget n name in
                               if is_none value then attrs else dict_set name value attrs)
            refAttributes [].
Definition macro_persist (n : snode) : pyobj := PDict (macro_persist_attrs n).

(* ---------------------------------------------------------------- restored nodes, Macro.restore *)
(* a node created by restore: the class name it was looked up under and its instance dictionary *)
Record rnode := mkR { r_cls : str; r_vars : list (str * pyobj) }.

Fixpoint vars_get (name : str) (vs : list (str * pyobj)) : option pyobj :=
  match vs with
  | [] => None
  | (a, v) :: vs' => if str_eqb name a then Some v else vars_get name vs'
  end.
Fixpoint vars_set (name : str) (v : pyobj) (vs : list (str * pyobj)) : list (str * pyobj) :=
  match vs with
  | [] => [(name, v)]
  | (a, v0) :: vs' => if str_eqb name a then (a, v) :: vs' else (a, v0) :: vars_set name v vs'
  end.
Fixpoint vars_del (name : str) (vs : list (str * pyobj)) : list (str * pyobj) :=
  match vs with
  | [] => []
  | (a, v0) :: vs' => if str_eqb name a then vs' else (a, v0) :: vars_del name vs'
  end.

(* str(z) *)
Fixpoint digits (fuel : nat) (z : Z) (acc : str) : str :=
  match fuel with
  | O => acc
  | S f => if z <? 10 then (48 + z) :: acc else digits f (z / 10) ((48 + z mod 10) :: acc)
  end.
Definition Z_str (z : Z) : str := if z <? 0 then 45 :: digits 400 (- z) [] else digits 400 z [].

(* str(remap.get(key, key))  with remap = {'url': 'urloverride'} *)
Definition attr_name (key : pyobj) : str :=
  match key with
  | PStr s => if str_eqb s s_url then s_urloverride else s
  | PInt z => Z_str z
  | PNone => s_None
  | POther _ r => r
  | PList _ | PDict _ => []     (* unhashable: cannot be a key *)
  end.

(* the property setters of plasTeX.Macro that store under '@' + name *)
Definition at_setters : list str := [s_title; s_captionName; s_fullTitle; s_tocEntry; s_fullTocEntry].

Section External.
(* external behaviour of the class table of a Context *)
Context (new_raises : str -> bool)              (* self[name]() raises (for a NUL-free string name) *)
        (setattr_raises : str -> str -> bool).  (* setattr(<instance of class name>, attr, v) raises: read-only property *)

(* setattr(self, name, value) on an instance of plasTeX.Macro *)
Definition setattr (n : rnode) (name : str) (v : pyobj) : exn + rnode :=
  if setattr_raises (r_cls n) name then inl EAttr
  else if str_eqb name s_id then
    (*  if value: setattr(self, '@id', value)  else: delattr(self, '@id')  *)
    if truthy v then inr (mkR (r_cls n) (vars_set s_at_id v (r_vars n)))
    else match vars_get s_at_id (r_vars n) with
         | Some _ => inr (mkR (r_cls n) (vars_del s_at_id (r_vars n)))
         | None => inl EAttr
         end
  else if existsb (str_eqb name) at_setters then inr (mkR (r_cls n) (vars_set (64 :: name) v (r_vars n)))
  else if str_eqb name s_tagName || str_eqb name s_nodeName then inr (mkR (r_cls n) (vars_set s_macroName v (r_vars n)))
  else inr (mkR (r_cls n) (vars_set name v (r_vars n))).

(*  for key, value in list(attrs.items()):
        setattr(self, str(remap.get(key, key)), value)  *)
Fixpoint macro_restore (n : rnode) (attrs : dict) : exn + rnode :=
  match attrs with
  | [] => inr n
  | (key, value) :: rest =>
      match setattr n (attr_name key) value with
      | inl e => inl e
      | inr n' => macro_restore n' rest
      end
  end.

(* self[m]()  :  Context.__getitem__ (an unknown name makes a new class with type(name, ...)) and instantiation *)
Definition new_node (m : pyobj) : exn + rnode :=
  match m with
  | PStr s => if existsb (Z.eqb 0) s then inl EValue          (* type name must not contain null characters *)
              else if new_raises s then inl EExternal
              else inr (mkR s [])
  | _ => inl EType                                             (* unhashable, or type() argument 1 must be str *)
  end.

(* context.labels : keys come out of the file *)
Definition labels := list (pyobj * rnode).

Fixpoint labels_set (k : pyobj) (n : rnode) (L : labels) : labels :=
  match L with
  | [] => [(k, n)]
  | (k0, n0) :: L' => if key_eqb k k0 then (k0, n) :: L' else (k0, n0) :: labels_set k n L'
  end.

(*  for key, value in list(data.items()):
        n = self[value.get('macroName', 'Macro')]()
        n.restore(value)
        self.labels[key] = n
    returns the labels as mutated so far and the exception that stopped the loop, if any *)
Fixpoint restore_loop (items : dict) (L : labels) : labels * option exn :=
  match items with
  | [] => (L, None)
  | (key, value) :: rest =>
      match value with
      | PDict attrs =>
          let m := match dict_get s_macroName attrs with Some v => v | None => PStr s_Macro end in
          match new_node m with
          | inl e => (L, Some e)
          | inr n => match macro_restore n attrs with
                     | inl e => (L, Some e)
                     | inr n' => restore_loop rest (labels_set key n' L)
                     end
          end
      | _ => (L, Some EAttr)                                   (* value.get *)
      end
  end.

(* d[rtype] for an arbitrary unpickled value *)
Definition getitem (d : pyobj) (s : str) : exn + pyobj :=
  match d with
  | PDict kv => match dict_get s kv with Some v => inr v | None => inl EKey end
  | _ => inl EType
  end.

Section Pickle.
Context {bytes : Type} (pickle : pyobj -> bytes) (unpickle : bytes -> option pyobj).

Inductive file := Missing | Bytes (b : bytes).

(* ---------------------------------------------------------------- Context.restore *)
Inductive rresult := RCrash (e : exn) | RDone (L : labels) (wou : bool).

(*  if not os.path.exists(filename): return
    try:
        d = pickle.load(open(filename, 'rb'))
        try: data = d[rtype]
        except KeyError: return
        wou = self.warnOnUnrecognized
        self.warnOnUnrecognized = False
        for key, value in list(data.items()): ...
        self.warnOnUnrecognized = wou
    except Exception as msg:
        log.warning(...)                                                                    *)
Definition restore (f : file) (rtype : str) (L : labels) (wou : bool) : rresult :=
  match f with
  | Missing => RDone L wou
  | Bytes b =>
      let '(L', wou', raised) :=
        match unpickle b with
        | None => (L, wou, Some EUnpickle)
        | Some d =>
            match getitem d rtype with
            | inl EKey => (L, wou, None)                                  (* except KeyError: return *)
            | inl e => (L, wou, Some e)
            | inr data =>
                match data with
                | PDict items =>
                    match restore_loop items L with
                    | (L1, None) => (L1, wou, None)
                    | (L1, Some e) => (L1, false, Some e)                  (* warnOnUnrecognized stays False *)
                    end
                | _ => (L, false, Some EAttr)                             (* data.items() *)
                end
            end
        end in
      match raised with
      | None => RDone L' wou'
      | Some e => if is_Exception e then RDone L' wou' else RCrash e
      end
  end.

(* ---------------------------------------------------------------- Context.persist *)
Inductive presult := PCrash (e : exn) | PSaved (f : file).

Definition fresh (rtype : str) : dict := [(PStr rtype, PDict [])].

(*  if os.path.exists(filename):
        try:
            with open(filename, 'rb') as fh:
                d = pickle.load(fh)
                if rtype not in list(d.keys()):                 -- unchanged tree   (fixed = false)
                if not isinstance(d.get(rtype), dict):          -- proposed repair  (fixed = true)
                    d[rtype] = {}
        except:
            os.remove(filename)
            d = {rtype:{}}
    else:
        d = {rtype:{}}
   returns d and whether the file was removed *)
Definition reload (fixed : bool) (rtype : str) (f : file) : dict * bool :=
  match f with
  | Missing => (fresh rtype, false)
  | Bytes b =>
      match unpickle b with
      | None => (fresh rtype, true)
      | Some (PDict kv) =>
          if fixed then
            match dict_get rtype kv with
            | Some (PDict _) => (kv, false)
            | _ => (dict_set rtype (PDict []) kv, false)
            end
          else
            if existsb (key_is rtype) (map fst kv) then (kv, false)
            else (dict_set rtype (PDict []) kv, false)
      | Some _ => (fresh rtype, true)                                     (* AttributeError: no keys()/get() *)
      end
  end.

(*  for key, value in list(self.persistentLabels.items()):
        data[key] = value.persist()                                       -- TypeError unless data is a dict *)
Fixpoint store_labels (PL : list (str * snode)) (data : pyobj) : exn + pyobj :=
  match PL with
  | [] => inr data
  | (key, n) :: rest =>
      match data with
      | PDict sec => store_labels rest (PDict (dict_set key (macro_persist n) sec))
      | _ => inl EType
      end
  end.

(*  data = d[rtype]
    for ...: data[key] = value.persist()
    try:
        with open(filename, 'wb') as fh: pickle.dump(d, fh)
    except Exception as msg: log.warning(...)
   [io_ok = false]: the file cannot be written; it stays as it was (or removed by the reload). *)
Definition persist (fixed : bool) (PL : list (str * snode)) (rtype : str) (f : file) (io_ok : bool) : presult :=
  let '(d, removed) := reload fixed rtype f in
  match dict_get rtype d with
  | None => PCrash EKey
  | Some data =>
      match store_labels PL data with
      | inl e => PCrash e
      | inr data' =>
          (* data is the object stored in d: the mutation is visible through d *)
          let d' := dict_set rtype data' d in
          if io_ok then PSaved (Bytes (pickle (PDict d')))
          else PSaved (if removed then Missing else f)
      end
  end.

(* ---------------------------------------------------------------- runs (the two call sites) *)
(* the working directory: job name -> <job>.paux *)
Definition fs := list (str * file).

Fixpoint fs_get (job : str) (F : fs) : file :=
  match F with
  | [] => Missing
  | (j, f) :: F' => if str_eqb job j then f else fs_get job F'
  end.
Fixpoint fs_set (job : str) (f : file) (F : fs) : fs :=
  match F with
  | [] => [(job, f)]
  | (j, f0) :: F' => if str_eqb job j then (j, f) :: F' else (j, f0) :: fs_set job f F'
  end.

(* Compile.parse:  for fname in glob('*.paux'): if basename == jobname.paux: continue; context.restore(fname, rname) *)
Fixpoint restore_others (job rtype : str) (F : fs) (L : labels) (wou : bool) : rresult :=
  match F with
  | [] => RDone L wou
  | (j, f) :: F' =>
      if str_eqb job j then restore_others job rtype F' L wou
      else match f with
           | Missing => restore_others job rtype F' L wou       (* not listed by glob *)
           | _ => match restore f rtype L wou with
                  | RCrash e => RCrash e
                  | RDone L' wou' => restore_others job rtype F' L' wou'
                  end
           end
  end.

Inductive op :=
| OSetFile (job : str) (f : file)
| ORun (job rtype : str) (PL : list (str * snode))
| ORestore (job rtype : str) (pre : labels).

Inductive obs :=
| ObsNone
| ObsCrash (e : exn)
| ObsRun (restored : labels) (wou : bool) (f : file)
| ObsRestore (L : labels) (wou : bool).

(* one step: parse (restore the other documents' files), then render (persist the own file) *)
Definition step (fixed : bool) (o : op) (F : fs) : obs * fs :=
  match o with
  | OSetFile job f => (ObsNone, fs_set job f F)
  | ORun job rtype PL =>
      match restore_others job rtype F [] true with
      | RCrash e => (ObsCrash e, F)
      | RDone L wou =>
          match persist fixed PL rtype (fs_get job F) true with
          | PCrash e => (ObsCrash e, F)
          | PSaved f' => (ObsRun L wou f', fs_set job f' F)
          end
      end
  | ORestore job rtype pre =>
      match restore (fs_get job F) rtype pre true with
      | RCrash e => (ObsCrash e, F)
      | RDone L wou => (ObsRestore L wou, F)
      end
  end.

Fixpoint run_ops (fixed : bool) (ops : list op) (F : fs) : list obs :=
  match ops with
  | [] => []
  | o :: ops' => let '(ob, F') := step fixed o F in ob :: run_ops fixed ops' F'
  end.

End Pickle.
End External.

(* ---------------------------------------------------------------- getters of a restored node (what a \ref reads) *)
(* Macro.title / captionName / id read '@'+name; Renderable.url returns urloverride when set; ref and macroName
   are plain instance attributes shadowing the class attribute (None). *)
Definition storage (name : str) : str :=
  if str_eqb name s_id then s_at_id
  else if existsb (str_eqb name) at_setters then 64 :: name
  else if str_eqb name s_url then s_urloverride
  else name.
Definition rget (n : rnode) (name : str) : pyobj :=
  match vars_get (storage name) (r_vars n) with Some v => v | None => PNone end.

(* ---------------------------------------------------------------- wire format *)
(* pyobj:  (0) None | (1 z) | (2 (cps)) | (3 (items)) | (4 ((k v) ...)) | (5 truthy (cps)) *)
Fixpoint pyobj_of (fuel : nat) (v : val) : option pyobj :=
  match fuel with
  | O => None
  | S fuel' =>
      match v with
      | VL [VI 0] => Some PNone
      | VL [VI 1; VI z] => Some (PInt z)
      | VL [VI 2; s] => match getZs s with Some s => Some (PStr s) | None => None end
      | VL [VI 3; VL l] => match mapM (pyobj_of fuel') l with Some l => Some (PList l) | None => None end
      | VL [VI 4; VL kv] =>
          match mapM (fun p => match p with
                               | VL [k; x] => match pyobj_of fuel' k, pyobj_of fuel' x with
                                              | Some k, Some x => Some (k, x) | _, _ => None end
                               | _ => None end) kv with
          | Some kv => Some (PDict kv) | None => None end
      | VL [VI 5; VI b; s] => match getZs s with Some s => Some (POther (negb (b =? 0)) s) | None => None end
      | _ => None
      end
  end.

Fixpoint val_of_pyobj (p : pyobj) : val :=
  match p with
  | PNone => VL [VI 0]
  | PInt z => VL [VI 1; VI z]
  | PStr s => VL [VI 2; ofZs s]
  | PList l => VL [VI 3; VL (map val_of_pyobj l)]
  | PDict kv => VL [VI 4; VL (map (fun p => match p with (k, x) => VL [val_of_pyobj k; val_of_pyobj x] end) kv)]
  | POther b s => VL [VI 5; ofB b; ofZs s]
  end.

(* the executable instance: the "bytes" of a file are the oracle's answer for them *)
Definition xbytes := option pyobj.
Definition xpickle (d : pyobj) : xbytes := Some d.
Definition xunpickle (b : xbytes) : option pyobj := b.

Definition FUEL := 60%nat.

Definition file_of (v : val) : option (@file xbytes) :=
  match v with
  | VL [VI 0] => Some Missing
  | VL [VI 1] => Some (Bytes None)                   (* pickle.load raises *)
  | VL [VI 2; p] => match pyobj_of FUEL p with Some p => Some (Bytes (Some p)) | None => None end
  | _ => None
  end.

Definition snode_of (v : val) : option snode :=
  match v with
  | VL l => mapM (fun p => match p with
                           | VL [a; x] => match getZs a, pyobj_of FUEL x with Some a, Some x => Some (a, x) | _, _ => None end
                           | _ => None end) l
  | _ => None
  end.

Definition views_of (v : val) : option (list (str * snode)) :=
  match v with
  | VL l => mapM (fun p => match p with
                           | VL [k; n] => match getZs k, snode_of n with Some k, Some n => Some (k, n) | _, _ => None end
                           | _ => None end) l
  | _ => None
  end.

Definition s_marker : str := [109; 97; 114; 107; 101; 114].  (* "marker" *)
Definition pre_of (v : val) : option labels :=
  match v with
  | VL l => mapM (fun k => match getZs k with Some k => Some (PStr k, mkR s_Macro [(s_marker, PStr k)]) | None => None end) l
  | _ => None
  end.

Definition op_of (v : val) : option (@op xbytes) :=
  match v with
  | VL [VI 0; job; f] => match getZs job, file_of f with Some job, Some f => Some (OSetFile job f) | _, _ => None end
  | VL [VI 1; job; r; views] =>
      match getZs job, getZs r, views_of views with Some job, Some r, Some PL => Some (ORun job r PL) | _, _, _ => None end
  | VL [VI 2; job; r; pre] =>
      match getZs job, getZs r, pre_of pre with Some job, Some r, Some pre => Some (ORestore job r pre) | _, _, _ => None end
  | _ => None
  end.

Definition val_of_labels (L : labels) : val :=
  VL (map (fun kn => match kn with
                     | (k, n) => VL [val_of_pyobj k;
                                     VL (map (fun av => match av with (a, x) => VL [ofZs a; val_of_pyobj x] end) (r_vars n))]
                     end) L).

Definition val_of_file (f : @file xbytes) : val :=
  match f with
  | Missing => VL [VI 0]
  | Bytes None => VL [VI 1]
  | Bytes (Some p) => VL [VI 2; val_of_pyobj p]
  end.

Definition val_of_obs (o : @obs xbytes) : val :=
  match o with
  | ObsNone => VL [VI 0]
  | ObsCrash e => v_crash (exn_code e)
  | ObsRun L wou f => VL [VI 1; val_of_labels L; ofB wou; val_of_file f]
  | ObsRestore L wou => VL [VI 2; val_of_labels L; ofB wou]
  end.

Definition strs_of (v : val) : option (list str) := match v with VL l => mapM getZs l | _ => None end.
Definition pairs_of (v : val) : option (list (str * str)) :=
  match v with
  | VL l => mapM (fun p => match p with
                           | VL [a; b] => match getZs a, getZs b with Some a, Some b => Some (a, b) | _, _ => None end
                           | _ => None end) l
  | _ => None
  end.

(* case: ( fixed (classes that cannot be instantiated) ((class attr) that cannot be assigned) (ops) ) *)
Definition run_case (v : val) : val :=
  match v with
  | VL [VI fx; nr; sr; VL ops] =>
      match strs_of nr, pairs_of sr, mapM op_of ops with
      | Some nr, Some sr, Some ops =>
          let new_raises := fun c => existsb (str_eqb c) nr in
          let setattr_raises := fun c a => existsb (fun p => str_eqb c (fst p) && str_eqb a (snd p)) sr in
          VL (map val_of_obs (run_ops new_raises setattr_raises xpickle xunpickle (negb (fx =? 0)) ops []))
      | _, _, _ => v_bad_input
      end
  | _ => v_bad_input
  end.
