(* C08 -- Spec: LaTeX's numbering rules, written from the LaTeX kernel and the article / book classes, not from the Python.

   State: counter values, the "within" relation (\@addtoreset lists), the \the<counter> definitions, the declared
   theorem-like environments and the stack of open lists.  Rules:
     * \stepcounter{c} / \refstepcounter{c}: c := c + 1, and every counter declared within c -- directly or through a
       chain of declarations -- := 0 (LaTeX kernels since 2018 reset transitively); nothing else changes;
     * \setcounter / \addtocounter assign and reset nothing;
     * a starred sectioning command, and one whose level is deeper than secnumdepth, prints no number and steps nothing;
       an eqnarray row with \nonumber prints no number and leaves the counter alone; every other row, equation, caption,
       theorem-like environment steps its counter and prints \the<counter>;
     * \begin{enumerate} at enumerate-depth e sets enum<e> to 0, each \item steps it and prints its value;
     * \appendix: article: section, subsection := 0, \thesection := \Alph{section};
                  book:    chapter, section := 0,    \thechapter := \Alph{chapter};
     * \newtheorem{n}{..}[w] declares counter n within w with \then = \thew.\arabic{n}; \newtheorem{n}[c]{..} uses counter c.
   [None] means: outside what the property speaks about (undefined macro or counter in LaTeX, a representation outside
   its range, nesting beyond LaTeX's limits, ...).

   Not covered by the property and therefore fixed here as plasTeX has them: \thepart is printed in arabic (LaTeX: \Roman),
   items are compared by their count only (LaTeX decorates them as (a), i., A.). *)
From Coq Require Import List ZArith Bool.
Import ListNotations.
From Verif Require Import Val CounterSyntax Counters.
Local Open Scope Z_scope.

(* ---------------------------------------------------------------------------------------------- *)
(** * Standard representations *)

Definition s_units : list str := [[]; [73]; [73;73]; [73;73;73]; [73;86]; [86]; [86;73]; [86;73;73]; [86;73;73;73]; [73;88]].
Definition s_tens : list str := [[]; [88]; [88;88]; [88;88;88]; [88;76]; [76]; [76;88]; [76;88;88]; [76;88;88;88]; [88;67]].
Definition s_hundreds : list str := [[]; [67]; [67;67]; [67;67;67]; [67;68]; [68]; [68;67]; [68;67;67]; [68;67;67;67]; [67;77]].

(* the standard (subtractive) numeral: thousands as M's, then one table entry per decimal digit of the remainder *)
Definition spec_roman_tail (r : Z) : str :=
  nth (Z.to_nat (r / 100)) s_hundreds [] ++ nth (Z.to_nat ((r / 10) mod 10)) s_tens [] ++ nth (Z.to_nat (r mod 10)) s_units [].
Definition spec_roman (n : Z) : str :=
  repeat_str [77] (Z.to_nat (n / 1000)) ++ spec_roman_tail (n mod 1000).

(* reading a numeral: a symbol smaller than its successor is subtracted, otherwise added *)
Definition sym_val (c : Z) : option Z :=
  if c =? 77 then Some 1000 else if c =? 68 then Some 500 else if c =? 67 then Some 100 else if c =? 76 then Some 50
  else if c =? 88 then Some 10 else if c =? 86 then Some 5 else if c =? 73 then Some 1 else None.

Fixpoint roman_value (s : str) : option Z :=
  match s with
  | [] => Some 0
  | c :: rest =>
      match sym_val c, roman_value rest with
      | Some v, Some r =>
          match rest with
          | d :: _ => match sym_val d with Some w => Some (if v <? w then r - v else r + v) | None => None end
          | [] => Some (r + v)
          end
      | _, _ => None
      end
  end.

(* reading a decimal numeral *)
Fixpoint dec_value_aux (s : str) (acc : Z) : option Z :=
  match s with
  | [] => Some acc
  | c :: r => if (48 <=? c) && (c <=? 57) then dec_value_aux r (10 * acc + (c - 48)) else None
  end.
Definition dec_value (s : str) : option Z :=
  match s with
  | [] => None
  | 45 :: (_ :: _) as r => match dec_value_aux (tl s) 0 with Some v => Some (- v) | None => None end
  | _ => dec_value_aux s 0
  end.

Definition spec_Alph (v : Z) : option str := if (1 <=? v) && (v <=? 26) then Some [64 + v] else None.
Definition spec_alph (v : Z) : option str := if (1 <=? v) && (v <=? 26) then Some [96 + v] else None.

Definition spec_repr (r : repr) (v : Z) : option str :=
  match r with
  | RArabic => Some (arabic v)            (* decimal digits: [arabic_correct] *)
  | RRoman => if 1 <=? v then Some (spec_roman v) else None
  | Rroman => if 1 <=? v then Some (map lower_c (spec_roman v)) else None
  | RAlph => spec_Alph v
  | Ralph => spec_alph v
  | RFnsymbol | RUnknown => None
  end.

(* ---------------------------------------------------------------------------------------------- *)
(** * State *)

Inductive spiece :=
| SLit (s : str)
| SNum (r : repr) (c : name)       (* \arabic{c}, \Alph{c}, ... *)
| SThe (c : name)                  (* \thec *)
| SPrefixIfPos (c : name).         (* \ifnum\c@c>0 \thec.\fi *)
Definition sfmt := list spiece.

Record sstate := mkss {
  s_vals : list (name * Z);
  s_within : list (name * name);      (* (child, parent) *)
  s_the : list (name * sfmt);
  s_envs : list (name * option name);
  s_lists : list bool                 (* open lists, innermost first; true = enumerate *)
}.

Definition N_ (s : list Z) : name := s.
Definition n_part := [112; 97; 114; 116].
Definition n_chapter := [99; 104; 97; 112; 116; 101; 114].
Definition n_section := [115; 101; 99; 116; 105; 111; 110].
Definition n_subsection := [115; 117; 98] ++ n_section.
Definition n_subsubsection := [115; 117; 98] ++ n_subsection.
Definition n_paragraph := [112; 97; 114; 97; 103; 114; 97; 112; 104].
Definition n_subparagraph := [115; 117; 98] ++ n_paragraph.
Definition n_subsubparagraph := [115; 117; 98] ++ n_subparagraph.
Definition n_equation := [101; 113; 117; 97; 116; 105; 111; 110].
Definition n_figure := [102; 105; 103; 117; 114; 101].
Definition n_table := [116; 97; 98; 108; 101].
Definition n_enumi := [101; 110; 117; 109; 105].
Definition n_enumii := n_enumi ++ [105].
Definition n_enumiii := n_enumii ++ [105].
Definition n_enumiv := n_enumi ++ [118].
Definition enum_names : list name := [n_enumi; n_enumii; n_enumiii; n_enumiv].

Definition dot : str := [46].
Definition chain (parent c : name) : sfmt := [SThe parent; SLit dot; SNum RArabic c].

Definition spec_init (cls : Z) : option sstate :=
  let zero := map (fun n => (n, 0)) in
  if cls =? 0 then
    Some (mkss (zero ([n_part; n_section; n_subsection; n_subsubsection; n_paragraph; n_subparagraph; n_equation; n_figure; n_table] ++ enum_names))
               [(n_subsection, n_section); (n_subsubsection, n_subsection); (n_paragraph, n_subsubsection); (n_subparagraph, n_paragraph)]
               ([(n_part, [SNum RArabic n_part]); (n_section, [SNum RArabic n_section]);
                 (n_subsection, chain n_section n_subsection); (n_subsubsection, chain n_subsection n_subsubsection);
                 (n_paragraph, chain n_subsubsection n_paragraph); (n_subparagraph, chain n_paragraph n_subparagraph);
                 (n_equation, [SNum RArabic n_equation]); (n_figure, [SNum RArabic n_figure]); (n_table, [SNum RArabic n_table])]
                ++ map (fun n => (n, [SNum RArabic n])) enum_names)
               [] [])
  else if cls =? 1 then
    Some (mkss (zero ([n_part; n_chapter; n_section; n_subsection; n_subsubsection; n_paragraph; n_subparagraph; n_equation; n_figure; n_table] ++ enum_names))
               [(n_section, n_chapter); (n_subsection, n_section); (n_subsubsection, n_subsection); (n_paragraph, n_subsubsection);
                (n_subparagraph, n_paragraph); (n_equation, n_chapter); (n_figure, n_chapter); (n_table, n_chapter)]
               ([(n_part, [SNum RArabic n_part]); (n_chapter, [SNum RArabic n_chapter]); (n_section, chain n_chapter n_section);
                 (n_subsection, chain n_section n_subsection); (n_subsubsection, chain n_subsection n_subsubsection);
                 (n_paragraph, chain n_subsubsection n_paragraph); (n_subparagraph, chain n_paragraph n_subparagraph);
                 (n_equation, [SPrefixIfPos n_chapter; SNum RArabic n_equation]);
                 (n_figure, [SPrefixIfPos n_chapter; SNum RArabic n_figure]);
                 (n_table, [SPrefixIfPos n_chapter; SNum RArabic n_table])]
                ++ map (fun n => (n, [SNum RArabic n])) enum_names)
               [] [])
  else None.

(* sectioning commands: level and counter (article has no \chapter; its \part is at level 0) *)
Definition spec_sec_table (cls : Z) : list (name * (Z * name)) :=
  (if cls =? 0 then [(n_part, (0, n_part))] else [(n_part, (-1, n_part)); (n_chapter, (0, n_chapter))])
  ++ [(n_section, (1, n_section)); (n_subsection, (2, n_subsection)); (n_subsubsection, (3, n_subsubsection));
      (n_paragraph, (4, n_paragraph)); (n_subparagraph, (5, n_subparagraph))].

(* names a user declaration may not take: LaTeX's own counters (and the two extra ones plasTeX's classes mention) *)
Definition spec_reserved : list name :=
  [n_part; n_chapter; n_section; n_subsection; n_subsubsection; n_paragraph; n_subparagraph; n_subsubparagraph;
   n_equation; n_figure; n_table; n_enumi; n_enumii; n_enumiii; n_enumiv;
   [118; 111; 108; 117; 109; 101] (* volume *); [112; 97; 103; 101] (* page *);
   [115; 101; 99; 110; 117; 109; 100; 101; 112; 116; 104] (* secnumdepth *); [116; 111; 99; 100; 101; 112; 116; 104] (* tocdepth *);
   [116; 111; 112; 110; 117; 109; 98; 101; 114] (* topnumber *); [98; 111; 116; 116; 111; 109; 110; 117; 109; 98; 101; 114] (* bottomnumber *);
   [116; 111; 116; 97; 108; 110; 117; 109; 98; 101; 114] (* totalnumber *); [100; 98; 108; 116; 111; 112; 110; 117; 109; 98; 101; 114] (* dbltopnumber *);
   [102; 111; 111; 116; 110; 111; 116; 101] (* footnote *); [109; 112; 102; 111; 111; 116; 110; 111; 116; 101] (* mpfootnote *)].

(* ---------------------------------------------------------------------------------------------- *)
(** * Rules *)

Definition mem (n : name) (l : list name) : bool := existsb (name_eqb n) l.

(* c is reached from d by following "within" declarations (at least one) *)
Fixpoint is_within (fuel : nat) (W : list (name * name)) (d c : name) : bool :=
  match fuel with
  | O => false
  | S f => match lookup_name d W with
           | Some p => name_eqb p c || is_within f W p c
           | None => false
           end
  end.

Definition spec_step (c : name) (W : list (name * name)) (vals : list (name * Z)) : list (name * Z) :=
  map (fun p => let '(d, v) := p in
               if name_eqb d c then (d, v + 1)
               else if is_within (S (length W)) W d c then (d, 0) else (d, v)) vals.

Fixpoint spec_set (c : name) (v : Z) (vals : list (name * Z)) : list (name * Z) :=
  match vals with
  | [] => []
  | (d, w) :: r => if name_eqb c d then (d, v) :: r else (d, w) :: spec_set c v r
  end.

(* [strict] restricts the Spec to the sub-domain on which the unrepaired known findings do not bite (see Properties/C08.v):
   a zero counter whose \the is not expandable under an \ifnum..>0 prefix, and lists nested more than four deep *)
Fixpoint spec_pieces (strict : bool) (rec : name -> option str) (vals : list (name * Z)) (f : sfmt) : option str :=
  match f with
  | [] => Some []
  | p :: f' =>
      let h := match p with
               | SLit s => Some s
               | SNum r c => match lookup_name c vals with Some v => spec_repr r v | None => None end
               | SThe c => rec c
               | SPrefixIfPos c =>
                   match lookup_name c vals with
                   | Some v => if v <? 0 then None
                               else if v =? 0 then (if strict then match rec c with Some _ => Some [] | None => None end else Some [])
                               else match rec c with Some t => Some (t ++ dot) | None => None end
                   | None => None
                   end
               end in
      match h, spec_pieces strict rec vals f' with
      | Some a, Some b => Some (a ++ b)
      | _, _ => None
      end
  end.

Fixpoint spec_the (strict : bool) (fuel : nat) (vals : list (name * Z)) (th : list (name * sfmt)) (key : name) : option str :=
  match fuel with
  | O => None
  | S f => match lookup_name key th with
           | Some fm => spec_pieces strict (spec_the strict f vals th) vals fm
           | None => None
           end
  end.

Definition the_in (strict : bool) (ss : sstate) (c : name) : option str :=
  spec_the strict (S (length (s_the ss))) (s_vals ss) (s_the ss) c.

Definition with_vals (ss : sstate) (vals : list (name * Z)) : sstate :=
  mkss vals (s_within ss) (s_the ss) (s_envs ss) (s_lists ss).

(* a numbered object: step its counter, print \the<counter> *)
Definition spec_obj (strict : bool) (kind : Z) (c : name) (ss : sstate) : option (sstate * list out) :=
  match lookup_name c (s_vals ss) with
  | None => None
  | Some _ =>
      let ss1 := with_vals ss (spec_step c (s_within ss) (s_vals ss)) in
      match the_in strict ss1 c with
      | Some t => Some (ss1, [(kind, Some t)])
      | None => None
      end
  end.

Fixpoint enum_index_aux (c : name) (l : list name) (k : nat) : option nat :=
  match l with
  | [] => None
  | n :: r => if name_eqb c n then Some k else enum_index_aux c r (S k)
  end.
Definition enum_index (c : name) : option nat := enum_index_aux c enum_names 1.

(* explicit operations on a list counter are considered only inside pure enumerate nesting, on the counter of an open list *)
Definition enum_ok (c : name) (stack : list bool) : bool :=
  match enum_index c with
  | None => true
  | Some k => forallb (fun b => b) stack && Nat.leb k (length stack)
  end.

(* \setcounter / \addtocounter on a list counter are also considered when no open list uses it (LaTeX and plasTeX both
   set it back to 0 when a list of that level begins); its value is then not observable *)
Definition enum_unused (c : name) (stack : list bool) : bool :=
  match enum_index c with
  | None => false
  | Some k => Nat.ltb (length stack) k
  end.

Definition count_true (l : list bool) : nat := length (filter (fun b => b) l).

Definition is_letter (c : Z) : bool := ((65 <=? c) && (c <=? 90)) || ((97 <=? c) && (c <=? 122)).

(* a name a user may declare: letters only, non-empty, new *)
Definition fresh_name (nm : name) (ss : sstate) : bool :=
  negb (is_nil nm) && forallb is_letter nm && negb (mem nm spec_reserved) && negb (mem nm (map fst (s_vals ss)))
  && negb (mem nm (map fst (s_envs ss))).

Definition k_bullet : Z := 7.     (* an \item of a list that is not an enumerate: LaTeX prints no number *)

(* eqnarray, as in the LaTeX kernel: \begin steps equation; the end of every row that is not marked \nonumber prints
   \theequation and steps equation again; \end takes the last step back (\global\advance\c@equation\m@ne) *)
Fixpoint spec_rows (strict : bool) (rows : list bool) (ss : sstate) (acc : list out) : option (sstate * list out) :=
  match rows with
  | [] =>
      match lookup_name n_equation (s_vals ss) with
      | Some v => Some (with_vals ss (spec_set n_equation (v - 1) (s_vals ss)), acc)
      | None => None
      end
  | true :: rest =>
      (* strict: the number this row would have had must be printable (plasTeX formats it before it sees \nonumber) *)
      if strict && negb (match the_in strict ss n_equation with Some _ => true | None => false end) then None
      else spec_rows strict rest ss (acc ++ [(k_row, None)])
  | false :: rest =>
      match the_in strict ss n_equation with
      | Some t => spec_rows strict rest (with_vals ss (spec_step n_equation (s_within ss) (s_vals ss))) (acc ++ [(k_row, Some t)])
      | None => None
      end
  end.

Definition spec_event (strict : bool) (cls depth : Z) (e : event) (ss : sstate) : option (sstate * list out) :=
  match e with
  | ESec macro starred =>
      match lookup_name macro (spec_sec_table cls) with
      | None => None
      | Some (level, c) => if starred || (depth <? level) then Some (ss, [(k_sec, None)]) else spec_obj strict k_sec c ss
      end
  | EEquation => spec_obj strict k_eq n_equation ss
  | EEqnarray rows =>
      match rows, lookup_name n_equation (s_vals ss) with
      | _ :: _, Some _ => spec_rows strict rows (with_vals ss (spec_step n_equation (s_within ss) (s_vals ss))) []
      | _, _ => None
      end
  | EEqnarrayStar => Some (ss, [])
  | ECaption table => spec_obj strict k_cap (if table then n_table else n_figure) ss
  | EThm env =>
      match lookup_name env (s_envs ss) with
      | None => None
      | Some None => Some (ss, [(k_thm, None)])
      | Some (Some c) => spec_obj strict k_thm c ss
      end
  | ENewTheorem nm shared within starred =>
      if negb (fresh_name nm ss) then None
      else match shared, within, starred with
           | None, None, true => Some (mkss (s_vals ss) (s_within ss) (s_the ss) ((nm, None) :: s_envs ss) (s_lists ss), [])
           | Some c, None, false =>
               if mem c (map fst (s_vals ss)) && negb (is_nil c) && negb (mem c enum_names)
               then Some (mkss (s_vals ss) (s_within ss) (s_the ss) ((nm, Some c) :: s_envs ss) (s_lists ss), [])
               else None
           | None, None, false =>
               Some (mkss (s_vals ss ++ [(nm, 0)]) (s_within ss) ((nm, [SNum RArabic nm]) :: s_the ss)
                          ((nm, Some nm) :: s_envs ss) (s_lists ss), [])
           | None, Some w, false =>
               if mem w (map fst (s_vals ss)) && negb (is_nil w) && forallb is_letter w && negb (mem w enum_names) && negb (name_eqb nm (the_str ++ w))
               then Some (mkss (s_vals ss ++ [(nm, 0)]) ((nm, w) :: s_within ss) ((nm, chain w nm) :: s_the ss)
                               ((nm, Some nm) :: s_envs ss) (s_lists ss), [])
               else None
           | _, _, _ => None
           end
  | ENewCounter nm within =>
      if negb (fresh_name nm ss) then None
      else match within with
           | None => Some (mkss (s_vals ss ++ [(nm, 0)]) (s_within ss) ((nm, [SNum RArabic nm]) :: s_the ss) (s_envs ss) (s_lists ss), [])
           | Some w =>
               if mem w (map fst (s_vals ss)) && negb (is_nil w) && negb (mem w enum_names)
               then Some (mkss (s_vals ss ++ [(nm, 0)]) ((nm, w) :: s_within ss) ((nm, [SNum RArabic nm]) :: s_the ss) (s_envs ss) (s_lists ss), [])
               else None
           end
  | ESet c v =>
      match lookup_name c (s_vals ss) with
      | Some _ => if enum_ok c (s_lists ss) || enum_unused c (s_lists ss) then Some (with_vals ss (spec_set c v (s_vals ss)), []) else None
      | None => None
      end
  | EAddTo c v =>
      match lookup_name c (s_vals ss) with
      | Some w => if enum_ok c (s_lists ss) || enum_unused c (s_lists ss) then Some (with_vals ss (spec_set c (w + v) (s_vals ss)), []) else None
      | None => None
      end
  | EStep c =>
      match lookup_name c (s_vals ss), enum_index c with
      | Some _, None => Some (with_vals ss (spec_step c (s_within ss) (s_vals ss)), [])
      | _, _ => None
      end
  | EBeginList enumerate =>
      let stack := enumerate :: s_lists ss in
      (* LaTeX: at most 6 lists, at most 4 of each kind *)
      if Nat.leb (length stack) (if strict then 4 else 6) && Nat.leb (count_true stack) 4 && Nat.leb (length stack - count_true stack) 4 then
        let vals := if enumerate then match nth_error enum_names (count_true stack - 1) with
                                      | Some c => spec_set c 0 (s_vals ss)
                                      | None => s_vals ss
                                      end
                    else s_vals ss in
        Some (mkss vals (s_within ss) (s_the ss) (s_envs ss) stack, [])
      else None
  | EEndList =>
      match s_lists ss with
      | [] => None
      | _ :: stack => Some (mkss (s_vals ss) (s_within ss) (s_the ss) (s_envs ss) stack, [])
      end
  | EItem =>
      match s_lists ss with
      | [] => None
      | false :: _ => Some (ss, [(k_bullet, None)])
      | true :: _ =>
          match nth_error enum_names (count_true (s_lists ss) - 1) with
          | Some c => spec_obj strict k_item c ss
          | None => None
          end
      end
  | EAppendix =>
      let '(zero, key, f) := if cls =? 0 then ([n_section; n_subsection], n_section, [SNum RAlph n_section])
                             else ([n_chapter; n_section], n_chapter, [SNum RAlph n_chapter]) in
      Some (mkss (fold_left (fun vals z => spec_set z 0 vals) zero (s_vals ss)) (s_within ss) ((key, f) :: s_the ss)
                 (s_envs ss) (s_lists ss), [])
  | EPrint r c =>
      match lookup_name c (s_vals ss) with
      | None => None
      | Some v =>
          if enum_ok c (s_lists ss) then
            match (match r with Some r' => spec_repr r' v | None => the_in strict ss c end) with
            | Some t => Some (ss, [(k_print, Some t)])
            | None => None
            end
          else None
      end
  end.

Fixpoint spec_events (strict : bool) (cls depth : Z) (es : list event) (ss : sstate) (acc : list out) : option (sstate * list out) :=
  match es with
  | [] => Some (ss, acc)
  | e :: es' => match spec_event strict cls depth e ss with
                | Some (ss1, o) => spec_events strict cls depth es' ss1 (acc ++ o)
                | None => None
                end
  end.

(* the configured depth is a LaTeX secnumdepth: -1 (book) / 0 upwards *)
Definition spec_doc (strict : bool) (cls depth : Z) (es : list event) : option (sstate * list out) :=
  match spec_init cls with
  | Some ss => if (if cls =? 0 then 0 else -1) <=? depth then spec_events strict cls depth es ss [] else None
  | None => None
  end.

(* ---------------------------------------------------------------------------------------------- *)
(** * What "the implementation numbers the document as LaTeX does" means *)

Definition opt_str_eqb (a b : option str) : bool :=
  match a, b with
  | None, None => true
  | Some x, Some y => str_eqb x y
  | _, _ => false
  end.

(* observation lists agree: same kinds, same numbers; for an \item of an itemize only the kind is compared *)
Fixpoint outs_agree (s m : list out) : bool :=
  match s, m with
  | [], [] => true
  | (ks, rs) :: s', (km, rm) :: m' =>
      (if ks =? k_bullet then km =? k_item else (ks =? km) && opt_str_eqb rs rm) && outs_agree s' m'
  | _, _ => false
  end.

(* whenever the Spec speaks about the document, the Model neither raises nor loops, prints the same numbers in the same order,
   and ends with the same value in every counter LaTeX has (list counters excepted: plasTeX zeroes them at \end{list}) *)
Definition numbering_correct (strict : bool) (cls depth : Z) (es : list event) : Prop :=
  forall ss souts, spec_doc strict cls depth es = Some (ss, souts) ->
    exists ms mouts, number_doc cls depth es = Ok (ms, mouts) /\ outs_agree souts mouts = true /\
      forall n v, In (n, v) (s_vals ss) -> mem n enum_names = false -> value_of n (m_counters ms) = v.
