(* Wire decoding for C06: histories of operations in, per-step observations out.  No proofs here. *)
From Coq Require Import List ZArith Bool Arith.
Import ListNotations.
From Verif Require Import Val Dom DomSpec.
Local Open Scope Z_scope.

Definition getNat (v : val) : option nat := match getN v with Some n => Some (N.to_nat n) | None => None end.
Definition getNats (v : val) : option (list nat) := match v with VL l => mapM getNat l | _ => None end.

Definition op_of (v : val) : option op :=
  match v with
  | VL [VI 0] => Some OCreateDoc
  | VL [VI 1; d; VI name] => match getNat d with Some d => Some (OCreateElem d name) | None => None end
  | VL [VI 2; d; s] => match getNat d, getZs s with Some d, Some s => Some (OCreateText d s) | _, _ => None end
  | VL [VI 3; d] => match getNat d with Some d => Some (OCreateFrag d) | None => None end
  | VL [VI 4; p; c] => match getNat p, getNat c with Some p, Some c => Some (OAppend p c) | _, _ => None end
  | VL [VI 5; p; VI i; c] => match getNat p, getNat c with Some p, Some c => Some (OInsert p i c) | _, _ => None end
  | VL [VI 6; p; c; r] => match getNat p, getNat c, getNat r with Some p, Some c, Some r => Some (OInsertBefore p c r) | _, _, _ => None end
  | VL [VI 7; p; c; r] => match getNat p, getNat c, getNat r with Some p, Some c, Some r => Some (OInsertAfter p c r) | _, _, _ => None end
  | VL [VI 8; p; c; r] => match getNat p, getNat c, getNat r with Some p, Some c, Some r => Some (OReplaceChild p c r) | _, _, _ => None end
  | VL [VI 9; p; c] => match getNat p, getNat c with Some p, Some c => Some (ORemoveChild p c) | _, _ => None end
  | VL [VI 10; p; VI i] => match getNat p with Some p => Some (OPop p i) | None => None end
  | VL [VI 11; p; VI i; c] => match getNat p, getNat c with Some p, Some c => Some (OSetItem p i c) | _, _ => None end
  | VL [VI 12; p; o] => match getNat p, getNat o with Some p, Some o => Some (OExtend p o) | _, _ => None end
  | VL [VI 13; p; cs] => match getNat p, getNats cs with Some p, Some cs => Some (OExtendList p cs) | _, _ => None end
  | VL [VI 14; p] => match getNat p with Some p => Some (ONormalize p) | None => None end
  | VL [VI 15; c] => match getNat c with Some c => Some (OClone c) | None => None end
  | VL [VI 16; p; VI k; c] => match getNat p, getNat c with Some p, Some c => Some (OSetAttr p k c) | _, _ => None end
  | _ => None
  end.

Definition ofOpt (o : option nat) : val := match o with Some n => ofNat n | None => VI (-1) end.
Definition ofNats (l : list nat) : val := VL (map ofNat l).

Definition dump_node (nd : node) : val :=
  VL [ match nkind nd with KElem _ => VI 0 | KText _ => VI 1 | KFrag => VI 2 | KDoc => VI 3 end;
       match nkind nd with KElem n => VI n | KText s => ofZs s | _ => VI 0 end;
       ofNats (nchildren nd); ofOpt (nparent nd); ofOpt (nowner nd);
       VL (map (fun kv => VL [VI (fst kv); ofNat (snd kv)]) (nattrs nd)) ].

Definition dump (h : heap) : val := VL (map dump_node h).

(* the nodes whose record changed, and the new ones: (id node) pairs *)
Fixpoint delta_from (k : nat) (h0 h1 : heap) : list val :=
  match h1 with
  | [] => []
  | nd :: r1 =>
      let rest := delta_from (S k) (tl h0) r1 in
      match h0 with
      | nd0 :: _ => if val_eqb (dump_node nd0) (dump_node nd) then rest else VL [ofNat k; dump_node nd] :: rest
      | [] => VL [ofNat k; dump_node nd] :: rest
      end
  end.

Definition dump_outcome (r : outcome) : val :=
  match r with
  | ROk v => VL [VI 0; ofOpt v]
  | RCrash k => VL [VI (-2); VI k]
  | RHang | RFuel => VL [VI (-3)]
  | RBad => VL [VI (-1)]
  end.

Definition continues (r : outcome) : bool := match r with ROk _ | RCrash _ => true | _ => false end.

(* what the list model says about this step: (0 list) | (1 kind) | (2) no claim *)
Definition dump_expect (e : expect) : val :=
  match e with EList l => VL [VI 0; ofNats l] | ERaise k => VL [VI 1; VI k] | ENoClaim => VL [VI 2] end.

(* the nodes on which Node.normalize ends up being called when it is called on n (attribute values first, then the
   children that are not text), or None when the walk does not end.  When no node occurs twice every object that
   normalize creates stays reachable and the order of creation is the preorder of the result -- which is what the
   numbering of new objects on the implementation side relies on. *)
Fixpoint norm_walk (fuel : nat) (h : heap) (n : nat) : option (list nat) :=
  match fuel with
  | O => None
  | S f =>
      if is_text h n then Some []
      else match (fix go (l : list nat) : option (list nat) :=
                    match l with
                    | [] => Some []
                    | x :: r => match norm_walk f h x, go r with Some a, Some b => Some (a ++ b) | _, _ => None end
                    end) (map snd (attrs h n) ++ filter (fun x => negb (is_text h x)) (children h n)) with
           | Some l => Some (n :: l)
           | None => None
           end
  end.

Definition norm_walk_ok (h : heap) (n : nat) : bool :=
  match norm_walk (S (length h)) h n with Some l => nodup_b l | None => false end.

(* one step: (admissible outcome delta [normalize-conforms walk-ok]) *)
Definition obs_step (h : heap) (o : op) : heap * bool * val :=
  let (h1, r) := step h o in
  (h1, continues r,
   VL ([ofB (adm_op h o); dump_outcome r; VL (delta_from 0 h h1)] ++
       (* M5 checked on the spot: the tree below p is now the normalized tree *)
       match o with
       | ONormalize p => [ofB (if adm_op h o then normalize_conforms h h1 p else true); ofB (norm_walk_ok h p)]
       | _ => []
       end)).

Fixpoint obs_run (h : heap) (ops : list op) : heap * bool * list val :=
  match ops with
  | [] => (h, true, [])
  | o :: r => match obs_step h o with
              | (h1, true, v) => match obs_run h1 r with (h2, ok, vs) => (h2, ok, v :: vs) end
              | (h1, false, v) => (h1, false, [v])
              end
  end.

(* read-only queries; every answer is paired with what the tree-level Spec says (-9 = the Spec makes no claim) *)
Definition NOCLAIM : val := VI (-9).
Definition dump_view (r : view_res) : val :=
  match r with VVal z => VL [VI 0; VI z] | VCrash k => VL [VI (-2); VI k] | VHang => VL [VI (-3)] end.

Definition has_attrs_below (h : heap) (n : nat) : bool :=
  existsb (fun x => match attrs h x with [] => false | _ => true end) (dfs (S (length h)) h n).

Definition query (h : heap) (v : val) : val :=
  match v with
  | VL [VI 0; n] =>
      match getNat n with
      | Some n => VL [ VL [ofOpt (first_child h n); ofOpt (last_child h n); ofOpt (prev_sibling h n); ofOpt (next_sibling h n)];
                       if listed_in_frag h n then NOCLAIM
                       else VL [ofOpt (hd_error (children h n)); ofOpt (hd_error (rev (children h n))); ofOpt (spec_prev h n); ofOpt (spec_next h n)] ]
      | None => v_bad_input end
  | VL [VI 1; n] =>
      match getNat n with
      | Some n => VL [ match text_content (S (length h)) h n with Some s => VL [VI 0; ofZs s] | None => VL [VI (-3)] end;
                       VL [VI 0; ofZs (spec_text h n)] ]
      | None => v_bad_input end
  | VL [VI 2; n; VI name] =>
      match getNat n with
      | Some n => VL [ match by_tag (S (length h)) h n name with Some l => VL [VI 0; ofNats l] | None => VL [VI (-3)] end;
                       if has_attrs_below h n then NOCLAIM else VL [VI 0; ofNats (spec_by_tag h n name)] ]
      | None => v_bad_input end
  | VL [VI 3; s; o] =>
      match getNat s, getNat o with
      | Some s, Some o => VL [ dump_view (compare_pos h s o);
                               (* the claim is about nodes of one tree; for unconnected nodes the library answers from
                                  whatever parentNode links removed nodes and spent fragments still carry *)
                               if Nat.eqb (root_of h s) (root_of h o) then VL [VI 0; VI (spec_compare_dewey h s o)] else NOCLAIM;
                               ofB (raw_cyclic (S (length h)) h s || raw_cyclic (S (length h)) h o);
                               (* the two formulations of document order (position paths / preorder index) agree *)
                               ofB (negb (Nat.eqb (root_of h s) (root_of h o)) || Z.eqb (spec_compare_dewey h s o) (spec_compare h s o)) ]
      | _, _ => v_bad_input end
  | _ => v_bad_input
  end.

(* a graph dumped from the implementation, for the oracle [wf_b]:  (kind name/text children parent owner attrs creator) *)
Definition node_of (v : val) : option node :=
  match v with
  | VL [VI k; nm; cs; VI p; VI o; VL _; cr] =>
      match getNats cs, getNat cr with
      | Some cs, Some cr =>
          let kd := match k with 0 => match nm with VI n => Some (KElem n) | _ => None end
                               | 1 => match getZs nm with Some s => Some (KText s) | None => None end
                               | 2 => Some KFrag | 3 => Some KDoc | _ => None end in
          match kd with
          | Some kd => Some (mkNode kd cs (if p <? 0 then None else Some (Z.to_nat p)) (if o <? 0 then None else Some (Z.to_nat o)) [] cr)
          | None => None
          end
      | _, _ => None
      end
  | _ => None
  end.

Definition check_flags (h : heap) : val :=
  VL [ ofB (wf_b h);
       ofB (forallb (children_ok h) (ids h)); ofB (forallb (parent_ok h) (ids h)); ofB (forallb (nodup_ok h) (ids h));
       ofB (forallb (owner_ok h) (ids h)); ofB (forallb (acyclic_ok h) (ids h)); ofB (forallb (leaf_ok h) (ids h)) ].

(* cases:
     (0 (op ...) (query ...))        a history, then read-only queries on the final state
                                     -> ((step ...) (answer ...) creators final-dump)
     (1 (op ...) (op ...))           a prefix, then every extension applied *separately* to the state after the prefix
                                     -> ((step ...) (step ...) creators)
     (2 (node ...))                  oracle: is this graph a consistent tree?  -> (wf children parent nodup owner acyclic leaf) *)
Definition run_case (v : val) : val :=
  match v with
  | VL [VI 0; VL ops; VL qs] =>
      match mapM op_of ops with
      | Some ops =>
          match obs_run [] ops with
          | (h, ok, tr) => VL [VL tr; VL (if ok then map (query h) qs else []); ofNats (map ncreator h); dump h; check_flags h]
          end
      | None => v_bad_input
      end
  | VL [VI 1; VL pre; VL exts] =>
      match mapM op_of pre, mapM op_of exts with
      | Some pre, Some exts =>
          match obs_run [] pre with
          | (h, ok, tr) => VL [VL tr; VL (if ok then map (fun o => snd (obs_step h o)) exts else []); ofNats (map ncreator h)]
          end
      | _, _ => v_bad_input
      end
  | VL [VI 2; VL nodes] =>
      match mapM node_of nodes with
      | Some h => check_flags h
      | None => v_bad_input
      end
  | _ => v_bad_input
  end.
