(* Model of the macro-definition machinery of plasTeX/__init__.py:
     expandDef, Definition.invoke (\def patterns), NewCommand.invoke (\newcommand with optional argument),
   and of the argument readers they use (TeX.readOptionalSpaces, readToken, readGrouping, undelimited readArgument).
   Tokens are those of Model/Tokenizer.v (category, characters); token equality is Token.__eq__. *)
From Coq Require Import List NArith ZArith Bool.
Import ListNotations.
From Verif Require Import Val Tokenizer.
Local Open Scope N_scope.

Definition tcat (t : tok) : N := match t with Tok k _ => k end.
Definition ttext (t : tok) : list N := match t with Tok _ x => x end.
Definition is_param (t : tok) : bool := tcat t =? CC_PARAM.
Definition is_bgroup (t : tok) : bool := tcat t =? CC_BGROUP.
Definition is_egroup (t : tok) : bool := tcat t =? CC_EGROUP.
Definition is_space (t : tok) : bool := tcat t =? CC_SPACE.
Definition is_math (t : tok) : bool := tcat t =? CC_MATH.
Definition hash_tok : tok := Tok CC_PARAM [35].
Definition bgroup_tok : tok := Tok CC_BGROUP [32].     (* BeginGroup(' ') *)
Definition egroup_tok : tok := Tok CC_EGROUP [32].
Definition is_ifx (t : tok) : bool := tok_eqb t (Tok CC_ESCAPE [105; 102; 120]).

(* int(t) for a one-character token; anything else raises ValueError *)
Definition digit_of (t : tok) : option nat :=
  match ttext t with
  | [c] => if (48 <=? c) && (c <=? 57) then Some (N.to_nat (c - 48)) else None
  | _ => None
  end.

(* ---- expandDef(definition, params) ; params[0] is None ---- *)
Fixpoint expand_def (d : list tok) (prev_ifx : bool) (params : list (option (list tok))) : option (list tok) :=
  match d with
  | [] => Some []
  | t :: r =>
    if is_param t then
      match r with
      | [] => Some []
      | t2 :: r2 =>
        if is_param t2 then
          match expand_def r2 false params with Some o => Some (t2 :: o) | None => None end
        else
          match digit_of t2 with
          | None => None
          | Some k =>
            let ins := match nth k params None with
                       | Some a => if prev_ifx then bgroup_tok :: a ++ [egroup_tok] else a
                       | None => []
                       end in
            match expand_def r2 false params with Some o => Some (ins ++ o) | None => None end
          end
      end
    else
      match expand_def r (is_ifx t) params with Some o => Some (t :: o) | None => None end
  end.

(* ---- readers over a token stream ---- *)
Fixpoint read_optional_spaces (s : list tok) : list tok :=
  match s with t :: r => if is_space t then read_optional_spaces r else s | [] => [] end.

(* the inside of a { } group: contents with the outer braces stripped, nested braces kept *)
Fixpoint read_group (s : list tok) (level : nat) (acc : list tok) : list tok * list tok :=
  match s with
  | [] => (rev acc, [])
  | t :: r =>
    if is_bgroup t then read_group r (S level) (t :: acc)
    else if is_egroup t then
      match level with
      | O => (rev acc, r)
      | S l => read_group r l (t :: acc)
      end
    else read_group r level (t :: acc)
  end.

Fixpoint read_math (s : list tok) (acc : list tok) : list tok * list tok :=
  match s with
  | [] => (rev acc, [])
  | t :: r => if is_math t then (rev (t :: acc), r) else read_math r (t :: acc)
  end.

(* TeX.readToken (unexpanded): None when the stream is empty *)
Definition read_token (s : list tok) : option (list tok) * list tok :=
  match s with
  | [] => (None, [])
  | t :: r =>
    if is_bgroup t then let '(g, r') := read_group r O [] in (Some g, r')
    else if is_math t then let '(g, r') := read_math r [t] in (Some g, r')
    else (Some [t], r)
  end.

(* tex.readArgument() with no spec: optional spaces, then one token or one group *)
Definition read_argument (s : list tok) : option (list tok) * list tok := read_token (read_optional_spaces s).

(* TeX.readGrouping('[]'): a non-escape token whose text is "[" opens, nesting counted on [ and ] only *)
Definition text_is (c : N) (t : tok) : bool :=
  negb (tcat t =? CC_ESCAPE) && match ttext t with [x] => x =? c | _ => false end.
Fixpoint read_bracket (o c : N) (s : list tok) (level : nat) (acc : list tok) : list tok * list tok :=
  match s with
  | [] => (rev acc, [])
  | t :: r =>
    if text_is o t then read_bracket o c r (S level) (t :: acc)
    else if text_is c t then
      match level with O => (rev acc, r) | S l => read_bracket o c r l (t :: acc) end
    else read_bracket o c r level (t :: acc)
  end.
Definition read_grouping (o c : N) (s : list tok) : option (list tok) * list tok :=
  match s with
  | t :: r => if text_is o t then let '(g, r') := read_bracket o c r O [] in (Some g, r') else (None, s)
  | [] => (None, [])
  end.
(* readArgument('[]', default=...) : optional spaces are stripped first in both cases *)
Definition read_optional (s : list tok) : option (list tok) * list tok := read_grouping 91 93 (read_optional_spaces s).

(* ---- Definition.invoke: walk the parameter text ---- *)
Fixpoint read_until (a : tok) (s : list tok) (acc : list tok) : list tok * list tok :=
  match s with
  | [] => (rev acc, [])
  | t :: r => if tok_eqb t a then (rev acc, r) else read_until a r (t :: acc)
  end.

Inductive mres := MOk (params : list (option (list tok))) (rest : list tok) | MCrash.

(* params are accumulated reversed.  [afterhash]: we are in the inner loop that follows a "#" of the parameter text:
   a digit names the parameter (inparam := True), another "#" is skipped, anything else raises ValueError
   ("#{" cannot occur in a \def parameter text: the brace starts the body). *)
Fixpoint match_pattern (p : list tok) (afterhash inparam : bool) (params : list (option (list tok))) (s : list tok) : mres :=
  match p with
  | [] =>
      if inparam then let '(a, s') := read_argument s in MOk (rev (a :: params)) s'
      else MOk (rev params) s
  | a :: r =>
    if afterhash then
      match digit_of a with
      | Some _ => match_pattern r false true params s
      | None => if is_param a then match_pattern r true inparam params s else MCrash
      end
    else if is_param a then
      (* adjacent parameters: the pending one is undelimited *)
      let '(params1, s1) := if inparam then let '(x, s') := read_argument s in (x :: params, s') else (params, s) in
      match_pattern r true inparam params1 s1
    else if inparam then
      (* delimited: everything up to the first token equal to the delimiter token *)
      let '(x, s') := read_until a s [] in match_pattern r false false (Some x :: params) s'
    else
      (* literal token of the parameter text: one token of the call is consumed *)
      match_pattern r false false params (tl s)
  end.

Definition definition_invoke (args body : list tok) (s : list tok) : option (list tok) :=
  match args with
  | [] => Some (body ++ s)
  | _ =>
    match match_pattern args false false [None] s with
    | MOk params s' => match expand_def body false params with Some o => Some (o ++ s') | None => None end
    | MCrash => None
    end
  end.

(* ---- NewCommand.invoke (command form) ---- *)
Fixpoint read_n_arguments (n : nat) (s : list tok) (acc : list (option (list tok))) : list (option (list tok)) * list tok :=
  match n with
  | O => (rev acc, s)
  | S k => let '(a, s') := read_argument s in read_n_arguments k s' (a :: acc)
  end.

Definition newcommand_invoke (nargs : nat) (opt : option (list tok)) (body : list tok) (s : list tok) : option (list tok) :=
  let '(p1, n1, s1) :=
    match opt with
    | Some d => let '(o, s') := read_optional s in
                ([Some (match o with Some x => x | None => d end)], pred nargs, s')
    | None => ([], nargs, s)
    end in
  let '(ps, s2) := read_n_arguments n1 s1 [] in
  match expand_def body false (None :: p1 ++ ps) with Some o => Some (o ++ s2) | None => None end.

(* ---- wire ---- *)
Definition tok_of (v : val) : option tok :=
  match v with VL [k; t] => match getN k, getNs t with Some k, Some t => Some (Tok k t) | _, _ => None end | _ => None end.
Definition toks_of (v : val) : option (list tok) := match v with VL l => mapM tok_of l | _ => None end.
Definition toks_val (l : list tok) : val := VL (map tok_val l).

(* cases: (0 args body stream)           Definition.invoke
          (1 nargs (opt?) body stream)   NewCommand.invoke
   answer: (0 tokens-after-expansion) | crash *)
Local Open Scope Z_scope.
Definition run_expand_case (v : val) : val :=
  match v with
  | VL [VI 0; a; b; s] =>
    match toks_of a, toks_of b, toks_of s with
    | Some a, Some b, Some s => match definition_invoke a b s with Some o => VL [VI 0; toks_val o] | None => v_crash 0 end
    | _, _, _ => v_bad_input
    end
  | VL [VI 1; n; VL o; b; s] =>
    match getN n, mapM toks_of o, toks_of b, toks_of s with
    | Some n, Some o, Some b, Some s =>
        match newcommand_invoke (N.to_nat n) (hd_error o) b s with Some r => VL [VI 0; toks_val r] | None => v_crash 0 end
    | _, _, _, _ => v_bad_input
    end
  | _ => v_bad_input
  end.
