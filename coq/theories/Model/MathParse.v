(* Model of how plasTeX turns the tokens of a formula into the nodes whose .source Model/Source.v prints:
     plasTeX/TeX.py        TeX.__iter__ (a token with a macro becomes a node whose invoke/parse reads its arguments),
                           readArgumentAndSource (readOptionalSpaces, then by specifier), readToken (the level counting of
                           a { } group; one token otherwise), readCharacter ('*'), readGrouping ('[' ']'), expandTokens
                           (the tokens of an argument are expanded in a sub-interpreter that sees nothing else),
                           TeX.source of an unexpanded argument
     plasTeX/__init__.py   Macro.parse over the compiled signature (argSource = the concatenated sources),
                           Environment.digest / bgroup.digest / math digest (children up to the matching closer)
     Base/LaTeX/Environments.py begin.invoke (name group, then the environment's own arguments)
     Base/TeX/Primitives.py SuperScript/SubScript.invoke (a command with a 'self' argument in math mode, the plain character
                           otherwise), BoxCommand (argument read in text mode), MathShift
   The closer of a group / formula / environment is found lexically (level counting on the opening and closing tokens),
   which is what the context-depth bookkeeping of the digest methods amounts to for nested, closed constructs.
   The signature table [sigs] lists the commands of the formula grammar (harness vocabulary); any other control sequence is
   a command without arguments (what Context does for an undefined macro). *)
From Coq Require Import List NArith ZArith Bool Arith.
Import ListNotations.
From Verif Require Import Val Catcodes Tokenizer Verbatim Source Verb.
Local Open Scope N_scope.

Definition tcat (t : tok) : N := match t with Tok k _ => k end.
Definition ttext (t : tok) : list N := match t with Tok _ x => x end.
Definition tchar (t : tok) : N := hd 0 (ttext t).

(* one scanner for all "up to the matching closer" loops: [stop] ends the scan at level 0; [up]/[down] move the level.
   readToken's group loop: up = {, down = stop = };  readGrouping: [ and ];  environments: \begin and \end;
   a formula: up = {, down = }, stop = the math shift (a $ inside a braced argument belongs to that argument) *)
Fixpoint split (up down stop : tok -> bool) (level : nat) (s : list tok) : list tok * option tok * list tok :=
  match s with
  | [] => ([], None, [])
  | t :: r =>
    if stop t && (level =? 0)%nat then ([], Some t, r)
    else
      let level' := if up t then S level else if down t then pred level else level in
      let '(a, c, b) := split up down stop level' r in (t :: a, c, b)
  end.

Definition is_cat (k : N) (t : tok) : bool := tcat t =? k.
Definition is_chr (c : N) (t : tok) : bool := negb (tcat t =? CC_ESCAPE) && nlist_eqb (ttext t) [c].
Definition is_esc (name : list N) (t : tok) : bool := (tcat t =? CC_ESCAPE) && nlist_eqb (ttext t) name.

Definition split_group := split (is_cat CC_BGROUP) (is_cat CC_EGROUP) (is_cat CC_EGROUP) 0.
Definition split_bracket := split (is_chr 91) (is_chr 93) (is_chr 93) 0.
Definition split_env := split (is_esc s_begin) (is_esc s_end) (is_esc s_end) 0.
Definition split_math := split (is_cat CC_BGROUP) (is_cat CC_EGROUP) (is_cat CC_MATH) 0.
Definition split_display := split (is_cat CC_BGROUP) (is_cat CC_EGROUP) (is_esc [93]) 0.

(* readOptionalSpaces *)
Fixpoint skip_spaces (s : list tok) : list tok :=
  match s with t :: r => if tcat t =? CC_SPACE then skip_spaces r else s | [] => [] end.

(* argument specifiers of the compiled signature *)
Inductive aspec :=
| AStar                 (* '*' *)
| AOpt                  (* '[ name ]' expanded *)
| AArg                  (* 'name', 'name:char' ... : one token or group, expanded *)
| ASelf                 (* 'self': the same, and the result becomes the children *)
| ANox.                 (* 'name:nox': one token or group, not expanded *)

Record sig := { s_name : list N; s_args : list aspec; s_text : bool (* BoxCommand: arguments read in text mode *) }.
Definition mk (name : list N) (args : list aspec) (tm : bool) : sig := {| s_name := name; s_args := args; s_text := tm |}.

(* the commands of the formula grammar with arguments (harness/props/C11.py: FRACS, CMD1, TEXTBOX, \sqrt, \left-like, \\) *)
Definition sigs : list sig :=
  [ mk [102;114;97;99] [AArg; AArg] false; mk [115;116;97;99;107;114;101;108] [AArg; AArg] false;          (* frac stackrel *)
    mk [115;113;114;116] [AOpt; ASelf] false;                                                               (* sqrt *)
    mk [109;97;116;104;98;102] [ASelf] false; mk [109;97;116;104;114;109] [ASelf] false;                      (* mathbf mathrm *)
    mk [109;97;116;104;99;97;108] [ASelf] false; mk [109;97;116;104;105;116] [ASelf] false;                   (* mathcal mathit *)
    mk [104;97;116] [ASelf] false; mk [98;97;114] [ASelf] false; mk [118;101;99] [ASelf] false;               (* hat bar vec *)
    mk [116;105;108;100;101] [ASelf] false; mk [111;118;101;114;108;105;110;101] [ASelf] false;               (* tilde overline *)
    mk [117;110;100;101;114;108;105;110;101] [ASelf] false; mk [117;110;100;101;114;98;114;97;99;101] [ASelf] false; (* underline underbrace *)
    mk [116;101;120;116] [ASelf] true; mk [109;98;111;120] [ASelf] true; mk [104;98;111;120] [ASelf] true;    (* text mbox hbox *)
    mk [102;98;111;120] [ASelf] true; mk [116;101;120;116;98;102] [ASelf] true; mk [116;101;120;116;105;116] [ASelf] true; (* fbox textbf textit *)
    mk [116;101;120;116;114;109] [ASelf] true; mk [101;109;112;104] [ASelf] false;                            (* textrm emph *)
    mk [92] [AStar; AOpt] false ]                                                                             (* \\ *)
  ++ map (fun n => mk n [AArg] false) angle_names.                                                            (* left right big ... *)

Fixpoint lookup (name : list N) (l : list sig) : option sig :=
  match l with [] => None | s :: r => if nlist_eqb name (s_name s) then Some s else lookup name r end.

(* environments: argument specifiers and whether the body is in math mode (None: as outside) *)
Record esig := { e_name : list N; e_args : list aspec; e_math : option bool }.
Definition esigs : list esig :=
  [ {| e_name := [97;114;114;97;121]; e_args := [AOpt; ANox]; e_math := Some true |};                         (* array *)
    {| e_name := [101;113;117;97;116;105;111;110]; e_args := []; e_math := Some true |} ].                    (* equation *)
Fixpoint elookup (name : list N) (l : list esig) : option esig :=
  match l with [] => None | s :: r => if nlist_eqb name (e_name s) then Some s else elookup name r end.

(* TeX.source of an unexpanded token *)
Definition raw_node (t : tok) : node := if tcat t =? CC_ESCAPE then NEsc (ttext t) else NTok (tchar t).

Definition is_some {A} (o : option A) : bool := match o with Some _ => true | None => false end.
Definition otok (o : option tok) : list tok := match o with Some t => [t] | None => [] end.

Section Args.
(* the expander of the enclosing interpreter: math mode, tokens -> nodes and "everything was closed" *)
Context (P : bool -> list tok -> option (list node * bool)).

(* one argument: (pieces of argSource, content, rest, closed) ; None = out of fuel *)
Definition read_arg (a : aspec) (mm : bool) (s0 : list tok) : option (list node * list node * list tok * bool) :=
  let s := skip_spaces s0 in
  match a with
  | AStar =>
    match s with
    | t :: r => if nlist_eqb (ttext t) [42] then Some ([raw_node t], [], r, true) else Some ([], [], s, true)
    | [] => Some ([], [], [], true)
    end
  | AOpt =>
    match s with
    | t :: r =>
      if is_chr 91 t then
        let '(inner, c, rest) := split_bracket r in
        match P mm inner with
        | Some (ns, ok) => Some (raw_node t :: ns ++ map raw_node (otok c), ns, rest, ok && is_some c)
        | None => None
        end
      else Some ([], [], s, true)
    | [] => Some ([], [], [], true)
    end
  | AArg | ASelf =>
    match s with
    | t :: r =>
      if tcat t =? CC_BGROUP then
        let '(inner, c, rest) := split_group r in
        match P mm inner with
        | Some (ns, ok) => Some (raw_node t :: ns ++ map raw_node (otok c), ns, rest, ok && is_some c)
        | None => None
        end
      else
        match P mm [t] with
        | Some (ns, ok) => Some (ns, ns, r, ok && negb (tcat t =? CC_MATH))
        | None => None
        end
    | [] => Some ([], [], [], true)
    end
  | ANox =>
    match s with
    | t :: r =>
      if tcat t =? CC_BGROUP then
        let '(inner, c, rest) := split_group r in
        Some (raw_node t :: map raw_node inner ++ map raw_node (otok c), [], rest, is_some c)
      else Some ([raw_node t], [], r, negb (tcat t =? CC_MATH))
    | [] => Some ([], [], [], true)
    end
  end.

(* Macro.parse: the arguments in order; the content of a 'self' argument becomes the children *)
Fixpoint read_args (l : list aspec) (mm : bool) (s : list tok)
  : option (list node * list node * bool * list tok * bool) :=   (* pieces, children, has 'self', rest, closed *)
  match l with
  | [] => Some ([], [], false, s, true)
  | a :: l' =>
    match read_arg a mm s with
    | None => None
    | Some (pcs, content, rest, ok) =>
      match read_args l' mm rest with
      | None => None
      | Some (pcs', kids, self', rest', ok') =>
        let isself := match a with ASelf => true | _ => false end in
        Some (pcs ++ pcs', (if isself then content else []) ++ kids, isself || self', rest', ok && ok')
      end
    end
  end.
End Args.

Definition env_name_ok (l : list tok) : bool :=
  forallb (fun t => ((tcat t =? CC_LETTER) || (tcat t =? CC_OTHER)) && nlist_eqb (ttext t) [tchar t]) l.

(* the expander + digester: tokens -> nodes; the flag says that every group, formula and environment was closed by its own
   closer and is not empty where the printed form needs content *)
Fixpoint parse (fuel : nat) (mm : bool) (s : list tok) : option (list node * bool) :=
  match fuel with
  | O => None
  | S f =>
    match s with
    | [] => Some ([], true)
    | t :: r =>
      let k := tcat t in
      let continue (n : node) (ok : bool) (rest : list tok) :=
        match parse f mm rest with Some (ns, ok') => Some (n :: ns, ok && ok') | None => None end in
      if k =? CC_BGROUP then
        let '(inner, c, rest) := split_group r in
        match parse f mm inner with
        | Some (body, ok) => continue (NGroup (is_some c) body) (ok && is_some c) rest
        | None => None
        end
      else if k =? CC_MATH then
        let '(inner, c, rest) := split_math r in
        match parse f true inner with
        | Some (body, ok) => continue (NMath body) (ok && is_some c && negb (is_nil body)) rest
        | None => None
        end
      else if k =? CC_ESCAPE then
        let name := ttext t in
        if nlist_eqb name s_begin then
          (* \begin{name} args body \end{name} *)
          match skip_spaces r with
          | b :: r1 =>
            if tcat b =? CC_BGROUP then
              let '(nm, c, r2) := split_group r1 in
              let ename := map tchar nm in
              let es := elookup ename esigs in
              let mm' := match es with Some e => match e_math e with Some m => m | None => mm end | None => mm end in
              match read_args (parse f) (match es with Some e => e_args e | None => [] end) mm' r2 with
              | None => None
              | Some (pcs, _, _, r3, okA) =>
                let '(inner, e, r4) := split_env r3 in
                (* the name group after \end *)
                match skip_spaces r4 with
                | b2 :: r5 =>
                  let '(nm2, c2, r6) := split_group r5 in
                  match parse f mm' inner with
                  | Some (body, okB) =>
                    continue (NMacro MBegin ename false pcs body)
                      (okA && okB && is_some c && is_some e && is_some c2 && (tcat b2 =? CC_BGROUP) && env_name_ok nm
                       && nlist_eqb (map tchar nm2) ename && env_name_ok nm2 && negb (is_nil body)
                       && (tchar b =? 123) && (tchar b2 =? 123)) r6
                  | None => None
                  end
                | [] =>
                  match parse f mm' inner with
                  | Some (body, okB) => Some ([NMacro MBegin ename false pcs body], false)
                  | None => None
                  end
                end
              end
            else continue (NMacro MNone name false [] []) false (b :: r1)
          | [] => Some ([NMacro MNone name false [] []], false)
          end
        else if nlist_eqb name [91] then
          let '(inner, c, rest) := split_display r in
          match parse f true inner with
          | Some (body, ok) => continue (NDisplay MNone body) (ok && is_some c && negb (is_nil body)) rest
          | None => None
          end
        else
          let sg := lookup name sigs in
          let tm := match sg with Some g => if s_text g then false else mm | None => mm end in
          match read_args (parse f) (match sg with Some g => s_args g | None => [] end) tm r with
          | None => None
          | Some (pcs, kids, self, rest, ok) =>
            continue (NMacro MNone name self pcs kids) (ok && negb (nlist_eqb name s_end) && negb (nlist_eqb name [93])) rest
          end
      else if ((k =? CC_SUPER) || (k =? CC_SUB)) && mm then
        match read_args (parse f) [ASelf] mm r with
        | None => None
        | Some (pcs, kids, self, rest, ok) => continue (NMacro MNone (active_prefix ++ [tchar t]) self pcs kids) ok rest
        end
      else if k =? CC_ALIGN then continue (NMacro MNone (active_prefix ++ [tchar t]) false [] []) true r
      else continue (NTok (tchar t)) (negb (k =? CC_EGROUP)) r
    end
  end.

Definition parse_formula (mm : bool) (s : list tok) : option (list node * bool) := parse (S (length s)) mm s.

(* ---- wire: (4 mm (chars))  ->  (0 ok (source chars) wf-placeholder) | fuel; the formula is given as characters, tokenized
   by the Model of C01 under the ordinary codes, parsed, printed *)
Definition run_parse_case (v : val) : val :=
  match v with
  | VL [VI 4%Z; mm; chars] =>
    match getB mm, getNs chars with
    | Some mm, Some chars =>
      match tokenize default_table chars with
      | RToks ts =>
        match parse_formula mm ts with
        | Some (ns, ok) => VL [VI 0%Z; ofB ok; ofNs (src_list ns)]
        | None => v_outoffuel
        end
      | _ => v_crash 1
      end
    | _, _ => v_bad_input
    end
  | _ => v_bad_input
  end.

(* the node tree in the wire format of Source.node_of (to compare the parsed tree with the tree of the generator) *)
Definition val_of_mode (m : mmode) : val := VI (match m with MNone => 0 | MBegin => 1 | MEnd => 2 end)%Z.
Fixpoint val_of_node (n : node) : val :=
  match n with
  | NTok c => VL [VI 0%Z; ofN c]
  | NEsc name => VL [VI 1%Z; ofNs name]
  | NMacro m name sa args body =>
    VL [VI 2%Z; val_of_mode m; ofNs name; ofB sa; VL (map val_of_node args); VL (map val_of_node body)]
  | NGroup e body => VL [VI 3%Z; ofB e; VL (map val_of_node body)]
  | NMath body => VL [VI 4%Z; VL (map val_of_node body)]
  | NDisplay m body => VL [VI 5%Z; val_of_mode m; VL (map val_of_node body)]
  end.

(* (5 node mm (chars)) -> (0 (source of node) (mathjax_source) closed (source of the parsed tokens) parsed-tree = node canon wf)
   everything else: Source.run_case *)
Definition run_case (v : val) : val :=
  match v with
  | VL [VI 5%Z; nv; mm; chars] =>
    match node_of nv, getB mm, getNs chars with
    | Some n, Some mm, Some chars =>
      match tokenize default_table chars with
      | RToks ts =>
        match parse_formula mm ts with
        | Some (ns, ok) =>
          VL [VI 0%Z; ofNs (src n); ofNs (mathjax_source n); ofB ok; ofNs (src_list ns); ofB (val_eqb (VL (map val_of_node ns)) (VL [nv]));
              ofB (forallb canon ts); ofB (forallb (wf default_table) ns)]     (* the hypotheses of C11_formula_roundtrip on this case *)
        | None => v_outoffuel
        end
      | _ => v_crash 1
      end
    | _, _, _ => v_bad_input
    end
  | VL (VI 4%Z :: _) => run_parse_case v
  | _ => Source.run_case v
  end.
