(* Model of the digestion of list environments (plasTeX/Base/LaTeX/Lists.py: List.digest, List.item.digest)
   together with the generic pieces of plasTeX/__init__.py they are made of (Macro.digestUntil,
   Environment.digest) and plasTeX/Base/TeX/Text.py bgroup.digest.

   The input of digestion is the *item stream*: what TeX.__iter__ yields after expansion.  Every item
   carries the context depth it was read at (TeX.itertokens: t.contextDepth = context.depth).  An item
   that has been digested and pushed back is an item with children, so the stream is a list of trees.

   Digestion is written with open recursion: every loop takes the function [dg] that stands for
   "tok.digest(tokens)" (the dispatch on the class of the token); Model/Arrays.v ties the knot.
   Each Python "for tok in tokens" loop is a fuelled recursion ([None] = out of fuel); "tokens.push(tok); break"
   is "return the stream with tok in front".  No proofs here. *)
From Coq Require Import List ZArith Bool.
Import ListNotations.
From Verif Require Import Val.
Local Open Scope Z_scope.

(* what Array.applyBorders reads from a compiled ColumnType: style['text-align'] (0 = the key is absent,
   1 left, 2 center, 3 right), style['border-left'], style['border-right'] *)
Record colstyle := mkCol { c_align : Z; c_left : bool; c_right : bool }.

(* EDecl: a declaration such as \bfseries -- an Environment used as a command: it pushes a context frame, has no end
   token and absorbs what follows until the enclosing scope is left *)
Inductive env := EArr (ak : Z) | EList (lk : Z) | EMath | EDecl (c : Z).

Definition env_eqb (a b : env) : bool :=
  match a, b with
  | EArr x, EArr y => Z.eqb x y
  | EList x, EList y => Z.eqb x y
  | EMath, EMath => true
  | EDecl x, EDecl y => Z.eqb x y
  | _, _ => false
  end.

(* the classes of items the digestion code distinguishes *)
Inductive kind :=
| KChar (c : Z)                      (* a character token that is not blank *)
| KSpace                             (* a blank character token (isElementContentWhitespace) *)
| KPar                               (* \par : level PAR_LEVEL, whitespace while it has no children *)
| KBegin (e : env) (cols : list colstyle)   (* \begin{...}; for arrays [cols] is self.colspec, compiled at invoke time *)
| KEnd (e : env)                     (* the same class with macroMode = MODE_END *)
| KRow | KCell                       (* the phantom ArrayRow / ArrayCell *)
| KAmp                               (* Array.CellDelimiter *)
| KCr                                (* Array.EndRow (\\, \cr, \tabularnewline) *)
| KHline                             (* Array.hline without a span (\hline, \toprule ...) *)
| KCline (a b : Z)                   (* Array.cline, attributes['span'] = [a, b] *)
| KMulti (n : Z) (col : colstyle) (body : list Z)  (* \multicolumn: attributes['colspan'], .colspec, text of the argument *)
| KItem (term : option (list Z))     (* List.item with its optional term *)
| KBgroup | KEgroup
| KCmd (c : Z).                      (* any other command: Macro.digest does nothing *)

Inductive tree := T (k : kind) (d : Z) (ch : list tree).

Definition kind_of (t : tree) : kind := match t with T k _ _ => k end.
Definition depth_of (t : tree) : Z := match t with T _ d _ => d end.
Definition children (t : tree) : list tree := match t with T _ _ ch => ch end.
Definition add_child (self x : tree) : tree := match self with T k d ch => T k d (ch ++ [x]) end.
Definition leaf (k : kind) (d : Z) : tree := T k d [].

Definition stream := list tree.

(* nodeType == ELEMENT_NODE *)
Definition is_elem_k (k : kind) : bool := match k with KChar _ | KSpace => false | _ => true end.
Definition is_elem (t : tree) : bool := is_elem_k (kind_of t).

(* isElementContentWhitespace *)
Definition is_ws (t : tree) : bool :=
  match t with
  | T KSpace _ _ => true
  | T KPar _ [] => true
  | _ => false
  end.

(* Node.level *)
Definition PAR_LEVEL : Z := 101.
Definition ENDSECTIONS_LEVEL : Z := 100.
Definition ENVIRONMENT_LEVEL : Z := 201.
Definition COMMAND_LEVEL : Z := 1001.
Definition lvl_k (k : kind) : Z :=
  match k with
  | KPar => PAR_LEVEL
  | KBegin _ _ | KEnd _ => ENVIRONMENT_LEVEL
  | _ => COMMAND_LEVEL
  end.
Definition lvl (t : tree) : Z := lvl_k (kind_of t).

(* item.macroMode == MODE_END and type(item) is type(self) *)
Definition is_end_of (item self : tree) : bool :=
  match kind_of item, kind_of self with
  | KEnd e, KBegin e' _ => env_eqb e e'
  | _, _ => false
  end.

Definition dig := tree -> stream -> option (tree * stream).

(* ---- Macro.digestUntil (plasTeX/__init__.py) -------------------------------------------------------
   for tok in tokens:
       if tok.nodeType == ELEMENT_NODE:
           if isinstance(tok, endclass): tokens.push(tok); return tok
           tok.parentNode = self; tok.digest(tokens)
       if tok.contextDepth < self.contextDepth: tokens.push(tok); break
       self.appendChild(tok)
   result: (self, the end token or None, the stream) *)
Fixpoint until_loop (dg : dig) (endc : kind -> bool) (n : nat) (self : tree) (s : stream)
  : option (tree * option tree * stream) :=
  match n with
  | O => None
  | S n' =>
    match s with
    | [] => Some (self, None, [])
    | tok :: r =>
      if is_elem tok then
        if endc (kind_of tok) then Some (self, Some tok, tok :: r)
        else match dg tok r with
             | None => None
             | Some (tok', r') =>
               if depth_of tok' <? depth_of self then Some (self, None, tok' :: r')
               else until_loop dg endc n' (add_child self tok') r'
             end
      else if depth_of tok <? depth_of self then Some (self, None, tok :: r)
      else until_loop dg endc n' (add_child self tok) r
    end
  end.

(* ---- Environment.digest (plasTeX/__init__.py), for an element that is not in MODE_END -------------
   for item in tokens:
       if item.level == PAR_LEVEL: self.appendChild(item); dopars = True; continue
       if item.level < self.level: tokens.push(item); break
       if item.nodeType == ELEMENT_NODE:
           if item.macroMode == MODE_END and type(item) is type(self): break
           item.parentNode = self; item.digest(tokens)
       if self.level > DOCUMENT_LEVEL and item.contextDepth < self.contextDepth: tokens.push(item); break
       self.appendChild(item)
   (the grouping into paragraphs that follows only wraps the children; it is transparent here) *)
Fixpoint env_loop (dg : dig) (n : nat) (self : tree) (s : stream) : option (tree * stream) :=
  match n with
  | O => None
  | S n' =>
    match s with
    | [] => Some (self, [])
    | item :: r =>
      if lvl item =? PAR_LEVEL then env_loop dg n' (add_child self item) r
      else if lvl item <? lvl self then Some (self, item :: r)
      else if is_elem item then
        if is_end_of item self then Some (self, r)
        else match dg item r with
             | None => None
             | Some (item', r') =>
               if depth_of item' <? depth_of self then Some (self, item' :: r')
               else env_loop dg n' (add_child self item') r'
             end
      else if depth_of item <? depth_of self then Some (self, item :: r)
      else env_loop dg n' (add_child self item) r
    end
  end.

(* ---- bgroup.digest (plasTeX/Base/TeX/Text.py) ------------------------------------------------------
   for item in tokens:
       if item.nodeType == ELEMENT_NODE:
           if item.level < ENDSECTIONS_LEVEL: tokens.push(item); break
           if isinstance(item, (egroup, endgroup)): break
           if item.contextDepth < self.contextDepth: tokens.push(item); break
           item.parentNode = self; item.digest(tokens)
       self.appendChild(item) *)
Fixpoint group_loop (dg : dig) (n : nat) (self : tree) (s : stream) : option (tree * stream) :=
  match n with
  | O => None
  | S n' =>
    match s with
    | [] => Some (self, [])
    | item :: r =>
      if is_elem item then
        if lvl item <? ENDSECTIONS_LEVEL then Some (self, item :: r)
        else match kind_of item with
             | KEgroup => Some (self, r)
             | _ =>
               if depth_of item <? depth_of self then Some (self, item :: r)
               else match dg item r with
                    | None => None
                    | Some (item', r') => group_loop dg n' (add_child self item') r'
                    end
             end
      else group_loop dg n' (add_child self item) r
    end
  end.

(* "for tok in tokens: if tok.isElementContentWhitespace: continue; tokens.push(tok); break" *)
Fixpoint skip_ws (s : stream) : stream :=
  match s with
  | tok :: r => if is_ws tok then skip_ws r else s
  | [] => []
  end.

Definition is_item_k (k : kind) : bool := match k with KItem _ => true | _ => false end.

(* ---- List.item.digest: drop leading whitespace, digestUntil(tokens, List.item), paragraphs() ------ *)
Definition item_digest (dg : dig) (n : nat) (self : tree) (s : stream) : option (tree * stream) :=
  match until_loop dg is_item_k n self (skip_ws s) with
  | None => None
  | Some (self', _, s') => Some (self', s')
  end.

(* ---- List.digest: drop whitespace before the first item (a \setcounter met there is not modelled),
        then Environment.digest ---- *)
Definition list_digest (dg : dig) (n : nat) (self : tree) (s : stream) : option (tree * stream) :=
  env_loop dg n self (skip_ws s).

(* ---- observation: the shape of a digested tree as a wire value ------------------------------------- *)
Definition obs_env (e : env) : list val :=
  match e with EArr ak => [VI 0; VI ak] | EList lk => [VI 1; VI lk] | EMath => [VI 2; VI 0] | EDecl c => [VI 3; VI c] end.
Definition obs_col (c : colstyle) : val := VL [VI (c_align c); ofB (c_left c); ofB (c_right c)].
Definition obs_kind (k : kind) : list val :=
  match k with
  | KChar c => [VI 0; VI c]
  | KSpace => [VI 1]
  | KPar => [VI 2]
  | KBegin e cols => VI 3 :: obs_env e ++ [VL (map obs_col cols)]
  | KEnd e => VI 4 :: obs_env e
  | KRow => [VI 5]
  | KCell => [VI 6]
  | KAmp => [VI 7]
  | KCr => [VI 8]
  | KHline => [VI 9]
  | KCline a b => [VI 10; VI a; VI b]
  | KMulti n col body => [VI 11; VI n; obs_col col; VL (map VI body)]
  | KItem None => [VI 12; VI 0; VL []]
  | KItem (Some t) => [VI 12; VI 1; VL (map VI t)]
  | KBgroup => [VI 13]
  | KEgroup => [VI 14]
  | KCmd c => [VI 15; VI c]
  end.

(* wire decoding of kinds and raw item streams *)
Definition get_col (v : val) : option colstyle :=
  match v with
  | VL [VI a; VI l; VI r] => Some (mkCol a (negb (l =? 0)) (negb (r =? 0)))
  | _ => None
  end.
Definition get_env (a b : Z) : option env :=
  match a with 0 => Some (EArr b) | 1 => Some (EList b) | 2 => Some EMath | 3 => Some (EDecl b) | _ => None end.
Definition get_kind (l : list val) : option kind :=
  match l with
  | [VI 0; VI c] => Some (KChar c)
  | [VI 1] => Some KSpace
  | [VI 2] => Some KPar
  | [VI 3; VI a; VI b; VL cols] =>
      match get_env a b, mapM get_col cols with Some e, Some cs => Some (KBegin e cs) | _, _ => None end
  | [VI 4; VI a; VI b] => match get_env a b with Some e => Some (KEnd e) | None => None end
  | [VI 5] => Some KRow
  | [VI 6] => Some KCell
  | [VI 7] => Some KAmp
  | [VI 8] => Some KCr
  | [VI 9] => Some KHline
  | [VI 10; VI a; VI b] => Some (KCline a b)
  | [VI 11; VI n; c; body] =>
      match get_col c, getZs body with Some col, Some b => Some (KMulti n col b) | _, _ => None end
  | [VI 12; VI 0; _] => Some (KItem None)
  | [VI 12; VI 1; t] => match getZs t with Some t' => Some (KItem (Some t')) | None => None end
  | [VI 13] => Some KBgroup
  | [VI 14] => Some KEgroup
  | [VI 15; VI c] => Some (KCmd c)
  | _ => None
  end.
(* a raw item on the wire: (depth kind...) *)
Definition get_item (v : val) : option tree :=
  match v with
  | VL (VI d :: k) => match get_kind k with Some k' => Some (leaf k' d) | None => None end
  | _ => None
  end.
Definition obs_item (t : tree) : val := VL (VI (depth_of t) :: obs_kind (kind_of t)).
