(* Spec for C06: what "a consistent tree" means for a heap, which arguments the property admits, and the plain
   list model of every editing operation.  Written from the DOM rules and the property text; the only things
   shared with the Model are the heap accessors and Python's list-index conventions.  Everything is boolean /
   executable so that the same definitions serve as the oracle that judges graphs dumped from the implementation. *)
From Coq Require Import List ZArith Bool Arith.
Import ListNotations.
From Verif Require Import Dom.

Definition ids (h : heap) : list nat := seq 0 (length h).

(* the edge of the tree below [n]: its parent link, provided that parent is an element/document that lists it.
   (Parent links of nodes that are not listed -- removed children, clones, spent fragments -- are stale by design
   of the library and carry no meaning.) *)
Definition up (h : heap) (n : nat) : option nat :=
  match parent h n with
  | Some p => if is_tree h p && mem n (children h p) then Some p else None
  | None => None
  end.

(* [n] followed by its ancestors, nearest first *)
Fixpoint chain (fuel : nat) (h : heap) (n : nat) : list nat :=
  match fuel with O => [] | S f => n :: match up h n with Some p => chain f h p | None => [] end end.

(* following the edges upwards from [n] ends at a root *)
Fixpoint rooted (fuel : nat) (h : heap) (n : nat) : bool :=
  match fuel with O => false | S f => match up h n with Some p => rooted f h p | None => true end end.

Fixpoint nodup_b (l : list nat) : bool :=
  match l with [] => true | x :: r => negb (mem x r) && nodup_b r end.

(* ---- the invariant ------------------------------------------------------------------------------------- *)

(* every listed child is an existing element or text node (fragments are transparent, documents are roots)
   made by the same document as the node that lists it *)
Definition children_ok (h : heap) (n : nat) : bool :=
  forallb (fun c => valid h c && negb (is_frag h c) && negb (is_doc h c) && Nat.eqb (creator h c) (creator h n)) (children h n).
(* every child's parent link names the node that lists it *)
Definition parent_ok (h : heap) (n : nat) : bool :=
  negb (is_tree h n) || forallb (fun c => opt_eqb (parent h c) (Some n)) (children h n).
(* no node is listed twice (in one list; two different lists are excluded by parent_ok) *)
Definition nodup_ok (h : heap) (n : nat) : bool := negb (is_tree h n) || nodup_b (children h n).
(* every node belongs to the document that created it *)
Definition owner_ok (h : heap) (n : nat) : bool := opt_eqb (owner h n) (Some (creator h n)) && is_doc h (creator h n).
(* no node is its own ancestor *)
Definition acyclic_ok (h : heap) (n : nat) : bool := rooted (length h) h n.
(* text nodes are leaves *)
Definition leaf_ok (h : heap) (n : nat) : bool := negb (is_text h n) || negb (nonempty (children h n)).

Definition wf_b (h : heap) : bool :=
  forallb (fun n => children_ok h n && parent_ok h n && nodup_ok h n && owner_ok h n && acyclic_ok h n && leaf_ok h n) (ids h).

(* ---- admissible arguments ("detached or fragment arguments") ------------------------------------------- *)

(* no element/document lists x *)
Definition unlisted_b (h : heap) (x : nat) : bool :=
  forallb (fun p => negb (is_tree h p && mem x (children h p))) (ids h).

(* x may become a child of self: an existing element/text of the same document that nobody lists, that self does
   not list either, and that is not self or one of its ancestors *)
Definition free_b (h : heap) (self x : nat) : bool :=
  valid h x && (is_elem h x || is_text h x) && Nat.eqb (creator h x) (creator h self) &&
  unlisted_b h x && negb (mem x (children h self)) && negb (mem x (chain (length h) h self)).

(* what inserting [c] inserts: the items of a fragment, else the node itself *)
Definition items (h : heap) (c : nat) : list nat := if is_frag h c then children h c else [c].

Definition adm_items (h : heap) (self : nat) (l : list nat) : bool := nodup_b l && forallb (free_b h self) l.

Definition adm_arg (h : heap) (self c : nat) : bool :=
  receiver h self && valid h c && negb (Nat.eqb c self) &&
  (if is_frag h c then Nat.eqb (creator h c) (creator h self) else true) && adm_items h self (items h c).

(* attribute maps are outside the child-list model (correspondence only) *)
Definition no_attrs (h : heap) : bool := forallb (fun n => match attrs h n with [] => true | _ => false end) (ids h).

Definition adm_op (h : heap) (o : op) : bool :=
  match o with
  | OCreateDoc => true
  | OCreateElem d _ | OCreateText d _ | OCreateFrag d => is_doc h d
  | OAppend p c | OInsert p _ c | OSetItem p _ c => adm_arg h p c
  | OInsertBefore p c r | OInsertAfter p c r | OReplaceChild p c r => adm_arg h p c && valid h r
  | ORemoveChild p old => receiver h p && valid h old
  | OPop p _ => receiver h p
  | OExtend p o => is_frag h o && adm_arg h p o
  | OExtendList p cs => receiver h p && adm_items h p cs
  | ONormalize p => is_tree h p && no_attrs h     (* on a fragment receiver: correspondence only *)
  | OClone c => valid h c && negb (is_doc h c) && no_attrs h
  | OSetAttr _ _ _ => false     (* attribute maps are outside the child-list model: correspondence only *)
  end.

(* ---- the plain list model ------------------------------------------------------------------------------ *)

Inductive expect := EList (l : list nat) | ERaise (k : Z) | ENoClaim.

Definition splice (k drop : nat) (its l : list nat) : list nat := firstn k l ++ its ++ skipn (k + drop) l.

Definition l_insert (i : Z) (l its : list nat) : list nat := splice (py_insert_pos i (length l)) 0 its l.
Definition l_at (ref : nat) (off drop : nat) (l its : list nat) : expect :=
  match index_of ref l with Some k => EList (splice (k + off) drop its l) | None => ERaise E_NOTFOUND end.
Definition l_pop (i : Z) (l : list nat) : expect :=
  match py_index i (length l) with Some k => EList (splice k 1 [] l) | None => ERaise E_INDEX end.
Definition l_setitem (i : Z) (l its : list nat) : expect :=
  match py_index i (length l) with Some k => EList (splice k 1 its l) | None => ERaise E_INDEX end.

(* the child list of the receiver after the operation, as lists predict it *)
Definition expected (h : heap) (o : op) : expect :=
  match o with
  | OAppend p c => EList (children h p ++ items h c)
  | OInsert p i c => EList (l_insert i (children h p) (items h c))
  | OInsertBefore p c r => l_at r 0 0 (children h p) (items h c)
  | OInsertAfter p c r => l_at r 1 0 (children h p) (items h c)
  | OReplaceChild p c old => match index_of old (children h p) with
                             | Some k => EList (splice k 1 (items h c) (children h p)) | None => ERaise E_NOTFOUND end
  | ORemoveChild p old => match index_of old (children h p) with
                          | Some k => EList (splice k 1 [] (children h p)) | None => ERaise E_NOTFOUND end
  | OPop p i => l_pop i (children h p)
  | OSetItem p i c => l_setitem i (children h p) (items h c)
  | OExtend p o => EList (children h p ++ children h o)
  | OExtendList p cs => EList (children h p ++ cs)
  | _ => ENoClaim
  end.

Definition receiver_of (o : op) : option nat :=
  match o with
  | OAppend p _ | OInsert p _ _ | OInsertBefore p _ _ | OInsertAfter p _ _ | OReplaceChild p _ _ | ORemoveChild p _
  | OPop p _ | OSetItem p _ _ | OExtend p _ | OExtendList p _ | ONormalize p | OSetAttr p _ _ => Some p
  | _ => None
  end.

(* ---- what the theorems say about one step ------------------------------------------------------------- *)

Definition is_edit (o : op) : bool :=
  match o with
  | OAppend _ _ | OInsert _ _ _ | OInsertBefore _ _ _ | OInsertAfter _ _ _ | OReplaceChild _ _ _ | ORemoveChild _ _
  | OPop _ _ | OSetItem _ _ _ | OExtend _ _ | OExtendList _ _ => true
  | _ => false
  end.

Definition is_create (o : op) : bool :=
  match o with OCreateDoc | OCreateElem _ _ | OCreateText _ _ | OCreateFrag _ => true | _ => false end.

(* the operations whose invariant preservation is proved (attribute assignment is tied to the code by correspondence only) *)
Definition covered (o : op) : bool := is_edit o || is_create o || match o with OClone _ | ONormalize _ => true | _ => false end.

(* M2 for one step: the receiver's child list is what the list model predicts and no other child list moves;
   where the list model raises, the operation raises the same error and leaves the whole heap as it was *)
Definition refines (h : heap) (o : op) : Prop :=
  match expected h o, receiver_of o with
  | EList l, Some p => (exists r, snd (step h o) = ROk r) /\
                       forall m, children (fst (step h o)) m = if Nat.eqb m p then l else children h m
  | ERaise k, _ => step h o = (h, RCrash k)
  | _, _ => True
  end.

(* a whole history is admissible when every step is, in the state it is applied to *)
Fixpoint adm_hist (h : heap) (ops : list op) : bool :=
  match ops with
  | [] => true
  | o :: r => adm_op h o && adm_hist (fst (step h o)) r
  end.

(* ---- derived views, as the tree defines them ----------------------------------------------------------- *)

(* preorder listing of the subtree below n (n first) *)
Fixpoint dfs (fuel : nat) (h : heap) (n : nat) : list nat :=
  match fuel with O => [] | S f => n :: flat_map (dfs f h) (children h n) end.

Definition spec_text (h : heap) (n : nat) : list Z := concat (map (text_of h) (dfs (S (length h)) h n)).
Definition spec_by_tag (h : heap) (n : nat) (name : Z) : list nat :=
  filter (fun x => has_name h x name) (tl (dfs (S (length h)) h n)).

Definition nth_opt (l : list nat) (k : nat) : option nat := nth_error l k.
(* neighbours in the list of the node that lists n *)
Definition spec_prev (h : heap) (n : nat) : option nat :=
  match up h n with
  | Some p => match index_of n (children h p) with Some (S k) => nth_opt (children h p) k | _ => None end
  | None => None
  end.
Definition spec_next (h : heap) (n : nat) : option nat :=
  match up h n with
  | Some p => match index_of n (children h p) with Some k => nth_opt (children h p) (S k) | None => None end
  | None => None
  end.

(* n sits in the list of a fragment that is also its parentNode (a fragment held in an attribute) *)
Definition listed_in_frag (h : heap) (n : nat) : bool :=
  match parent h n with Some p => negb (is_tree h p) && mem n (children h p) | None => false end.

Definition root_of (h : heap) (n : nat) : nat := last (chain (length h) h n) n.

(* the same in terms of preorder positions (an equivalent formulation; the two are compared on every run) *)
Definition spec_compare (h : heap) (s o : nat) : Z :=
  if negb (opt_eqb (owner h s) (owner h o)) then POS_DISCONNECTED
  else if Nat.eqb s o then POS_SAME
  else if negb (Nat.eqb (root_of h s) (root_of h o)) then POS_DISCONNECTED
  else if mem o (chain (length h) h s) then POS_CONTAINS
  else if mem s (chain (length h) h o) then POS_CONTAINED_BY
  else match index_of s (dfs (S (length h)) h (root_of h s)), index_of o (dfs (S (length h)) h (root_of h s)) with
       | Some a, Some b => if Nat.ltb b a then POS_PRECEDING else POS_FOLLOWING
       | _, _ => POS_DISCONNECTED
       end.

(* document order as the lexicographic order of position paths ("Dewey" numbers): the index of every node of the
   root-first path in its parent's child list *)
Fixpoint path_idx (h : heap) (l : list nat) : list nat :=
  match l with
  | x :: ((y :: _) as r) => match index_of y (children h x) with Some k => k | None => 0 end :: path_idx h r
  | _ => []
  end.

Definition dewey (h : heap) (n : nat) : list nat := path_idx h (rev (chain (length h) h n)).

Fixpoint lex_lt (a b : list nat) : bool :=
  match a, b with
  | [], _ :: _ => true
  | x :: a', y :: b' => Nat.ltb x y || (Nat.eqb x y && lex_lt a' b')
  | _, _ => false
  end.

(* position of [o] relative to [s], for nodes of one tree *)
Definition spec_compare_dewey (h : heap) (s o : nat) : Z :=
  if negb (opt_eqb (owner h s) (owner h o)) then POS_DISCONNECTED
  else if Nat.eqb s o then POS_SAME
  else if mem o (chain (length h) h s) then POS_CONTAINS
  else if mem s (chain (length h) h o) then POS_CONTAINED_BY
  else if lex_lt (dewey h o) (dewey h s) then POS_PRECEDING else POS_FOLLOWING.


(* does the raw parentNode walk from n run in circles?  (In a consistent tree this can only happen through the
   stale parentNode link of a root -- a removed node or a clone -- that leads back into its own tree.) *)
Fixpoint raw_cyclic (fuel : nat) (h : heap) (n : nat) : bool :=
  match fuel with
  | O => true
  | S f => match parent h n with None => false | Some p => raw_cyclic f h p end
  end.

(* ---- deep clones: equal as trees, disjoint from everything that existed -------------------------------- *)

Definition same_node (h h' : heap) (m : nat) : Prop :=
  kind_of h' m = kind_of h m /\ children h' m = children h m /\ parent h' m = parent h m /\
  owner h' m = owner h m /\ attrs h' m = attrs h m /\ creator h' m = creator h m.

(* [h'] keeps every node of [h] exactly as it is (and may have more) *)
Definition ext (h h' : heap) : Prop := length h <= length h' /\ forall m, m < length h -> same_node h h' m.

(* trees without identities *)
Inductive tree := T (k : option kind) (kids : list tree).

Fixpoint shape (F : nat) (h : heap) (n : nat) : tree :=
  match F with O => T None [] | S f => T (kind_of h n) (map (shape f h) (children h n)) end.

(* every node below n (n included) lies in [lo, length h) *)
Definition within (lo : nat) (h : heap) (n : nat) : Prop := forall F m, In m (dfs F h n) -> lo <= m < length h.

(* there is a downward path of d edges from c (so a fuel F with d < F for all of them looks at the whole subtree) *)
Inductive deep (h : heap) : nat -> nat -> Prop :=
| deep_0 : forall c, deep h c 0
| deep_S : forall c x d, In x (children h c) -> deep h x d -> deep h c (S d).

(* ---- normalize, on trees: merge runs of adjacent text children, everywhere ----------------------------- *)

Definition text_leaf (t : tree) : option (list Z) := match t with T (Some (KText s)) _ => Some s | _ => None end.

Fixpoint merge_text (l : list tree) : list tree :=
  match l with
  | [] => []
  | t :: r => match text_leaf t, merge_text r with
              | Some s, T (Some (KText s')) _ :: r' => T (Some (KText (s ++ s'))) [] :: r'
              | Some s, r' => T (Some (KText s)) [] :: r'
              | None, r' => t :: r'
              end
  end.

Fixpoint norm_tree (t : tree) : tree := match t with T k kids => T k (merge_text (map norm_tree kids)) end.

(* the text of a tree in document order *)
Fixpoint tree_text (t : tree) : list Z :=
  match t with T k kids => match k with Some (KText s) => s | _ => concat (map tree_text kids) end end.

Definition is_text_leaf (t : tree) : bool := match text_leaf t with Some _ => true | None => false end.

Fixpoint adjacent_text (l : list tree) : bool :=
  match l with
  | a :: ((b :: _) as r) => (is_text_leaf a && is_text_leaf b) || adjacent_text r
  | _ => false
  end.

(* no two adjacent text children anywhere *)
Fixpoint no_adjacent (t : tree) : bool :=
  match t with T _ kids => negb (adjacent_text kids) && forallb no_adjacent kids end.

Definition kind_eqb (a b : kind) : bool :=
  match a, b with
  | KElem x, KElem y => Z.eqb x y
  | KText s, KText s' => if list_eq_dec Z.eq_dec s s' then true else false
  | KFrag, KFrag | KDoc, KDoc => true
  | _, _ => false
  end.

Fixpoint tree_eqb (a b : tree) : bool :=
  match a, b with
  | T ka la, T kb lb =>
      match ka, kb with Some x, Some y => kind_eqb x y | None, None => true | _, _ => false end &&
      (fix go (la lb : list tree) : bool :=
         match la, lb with [], [] => true | x :: ra, y :: rb => tree_eqb x y && go ra rb | _, _ => false end) la lb
  end.

(* M5 as a check on one heap pair: the tree below p after normalize is the normalized tree below p before *)
Definition normalize_conforms (h h' : heap) (p : nat) : bool :=
  tree_eqb (shape (S (length h)) h' p) (norm_tree (shape (S (length h)) h p)).
