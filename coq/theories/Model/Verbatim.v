(* Model of plasTeX's verbatim reading:
     plasTeX/__init__.py            VerbatimEnvironment.invoke   (the scan for \end{name} / \endname)
     plasTeX/Base/LaTeX/Verbatim.py verb.invoke, verb.digest      (the delimiter scan of \verb)
   Both pull their tokens from the Tokenizer (Model/Tokenizer.v, [step]) under the verbatim table
   (Context.setVerbatimCatcodes) and hand the unread characters back to the table that was in force before
   (Context.pop), so the state of the tokenizer after the scan is part of the result.

   The \verb Model follows the code after the proposed repair notes/C11/fix-1.diff (verbatim category codes are
   set before the star and the delimiter are looked at, as LaTeX does). *)
From Coq Require Import List NArith ZArith Bool Arith.
Import ListNotations.
From Verif Require Import Val Catcodes Tokenizer.
Local Open Scope N_scope.

(* the Python list [tokens]: the node itself, then the pulled Token objects *)
Inductive item := ISelf | ITok (t : tok).

Definition nlist_eqb (a b : list N) : bool := if list_eq_dec N.eq_dec a b then true else false.

(* Token.__eq__(str) compares the text; Node.__eq__(str) is False *)
Definition item_is (it : item) (c : N) : bool :=
  match it with ISelf => false | ITok (Tok _ txt) => nlist_eqb txt [c] end.

(* list == list of one-character strings *)
Fixpoint items_eq (its : list item) (pat : list N) : bool :=
  match its, pat with
  | [], [] => true
  | it :: its', c :: pat' => item_is it c && items_eq its' pat'
  | _, _ => false
  end.

(* tokens[-n:] and tokens[:-n] for 0 < n (for n > len both agree with Python: the whole list / the empty list) *)
Definition last_n {A} (n : nat) (l : list A) : list A := skipn (length l - n) l.
Definition drop_last_n {A} (n : nat) (l : list A) : list A := firstn (length l - n) l.

(* "end" *)
Definition s_end : list N := [101; 110; 100].
(* endpattern  = list(r'%send%s%s%s' % (escape, bgroup, name, egroup));  endpattern2 = list(r'%send%s' % (escape, name)) *)
Definition end_pattern1 (esc bg eg : N) (name : list N) : list N := esc :: s_end ++ bg :: name ++ [eg].
Definition end_pattern2 (esc : N) (name : list N) : list N := esc :: s_end ++ name.

Inductive vres :=
| VEnd (tokens : list item) (which : nat) (st : tst)  (* break: tokens[:-endlength], which pattern, tokenizer state *)
| VEof (tokens : list item)                          (* the for loop ran out of input: everything is returned *)
| VCrash
| VFuel.

(* tail test:  len(tokens) >= n  and  tokens[-n:] == pattern *)
Definition tail_is (tokens : list item) (pat : list N) : bool :=
  (length pat <=? length tokens)%nat && items_eq (last_n (length pat) tokens) pat.

(* for tok in tex: tokens.append(tok); test endpattern, then endpattern2 *)
Fixpoint scan (fuel : nat) (p1 p2 : list N) (tokens : list item) (st : tst) : vres :=
  match fuel with
  | O => VFuel
  | S f =>
    match step verbatim_table st with
    | Done => VEof tokens
    | Crash => VCrash
    | Skip st' => scan f p1 p2 tokens st'
    | Emit tk st' =>
      let tokens := tokens ++ [ITok tk] in
      if tail_is tokens p1 then VEnd (drop_last_n (length p1) tokens) 1 st'
      else if tail_is tokens p2 then VEnd (drop_last_n (length p2) tokens) 2 st'
      else scan f p1 p2 tokens st'
    end
  end.

(* VerbatimEnvironment.invoke from the point where the verbatim codes are set; [st] = the tokenizer just after
   \begin{name} (or \name) and its arguments *)
Definition verbatim_invoke (esc bg eg : N) (name : list N) (st : tst) : vres :=
  scan (S (length (inp st))) (end_pattern1 esc bg eg name) (end_pattern2 esc name) [ISelf] st.

(* text of the collected tokens = what Environment.digest makes the children (textContent) of the node *)
Definition item_text (it : item) : list N := match it with ISelf => [] | ITok (Tok _ txt) => txt end.
Definition items_text (l : list item) : list N := flat_map item_text l.

(* continue under the table [t0] restored by context.pop: the tokens of everything that follows *)
Definition run_from (t0 : table) (st : tst) : result :=
  run_sched (S (length (inp st))) (fun _ t => t) 0 t0 st [].

(* ---- \verb ---- *)
(* one pull from the tokenizer under the verbatim table (blank-skipping turns do not occur under that table, but the
   loop is the tokenizer's) *)
Fixpoint pull (fuel : nat) (st : tst) : option (option (tok * tst)) :=   (* None = out of fuel / crash *)
  match fuel with
  | O => None
  | S f =>
    match step verbatim_table st with
    | Done => Some None
    | Crash => None
    | Skip st' => pull f st'
    | Emit tk st' => Some (Some (tk, st'))
    end
  end.
Definition pull1 (st : tst) := pull (S (length (inp st))) st.

Definition tok_text_is (t : tok) (c : N) : bool := match t with Tok _ txt => nlist_eqb txt [c] end.

Inductive bres :=
| BEnd (star : bool) (delim : tok) (content : list tok) (closed : bool) (st : tst)
    (* closed = the second delimiter was seen (break); otherwise the input ran out *)
| BNoDelim (star : bool)     (* nothing follows \verb: `endpattern` is unbound in the Python, UnboundLocalError *)
| BCrash.

(* for tok in tex: tokens.append(tok); if tok == endpattern: break *)
Fixpoint verb_loop (fuel : nat) (d : tok) (acc : list tok) (st : tst) : option (list tok * bool * tst) :=
  match fuel with
  | O => None
  | S f =>
    match step verbatim_table st with
    | Done => Some (rev acc, false, st)
    | Crash => None
    | Skip st' => verb_loop f d acc st'
    | Emit tk st' => if tok_eqb tk d then Some (rev acc, true, st') else verb_loop f d (tk :: acc) st'
    end
  end.

(* verb.invoke (repaired order: push, setVerbatimCatcodes, parse('*'), delimiter, loop, pop) followed by verb.digest:
   the children are the tokens between the two delimiters *)
Definition verb_invoke (st : tst) : bres :=
  match pull1 st with
  | None => BCrash
  | Some None => BNoDelim false                     (* readCharacter finds nothing; no delimiter either *)
  | Some (Some (t1, st1)) =>
    (* readArgument('*'): readCharacter pulls a token, keeps it if it is '*', pushes it back otherwise *)
    let star := tok_text_is t1 42 in
    let st2 := if star then st1 else st in
    match pull1 st2 with
    | None => BCrash
    | Some None => BNoDelim star
    | Some (Some (d0, st3)) =>
      (* if endpattern == '{': endpattern = type(endpattern)('}') *)
      let d := if tok_text_is d0 123 then match d0 with Tok k _ => Tok k [125] end else d0 in
      match verb_loop (S (length (inp st3))) d [] st3 with
      | None => BCrash
      | Some (content, closed, st4) => BEnd star d content closed st4
      end
    end
  end.

(* ---- wire ----
   (0 name chars)        verbatim environment body: chars = everything after \begin{name}; escape/bgroup/egroup = \ { }
     -> (0 which (content chars) ((k (text)) ...)  lx)   which = 1 | 2,  following tokens under the default table
      | (1 (content chars))                           end of input
   (1 chars)             chars = everything after "\verb"
     -> (0 star (delim) (content chars) closed ((k (text)) ...))
      | (2 star)  no delimiter *)
Definition toks_val (l : list tok) : val := VL (map tok_val l).
Definition lx_val (l : lst) : val := VI (match l with SN => 0 | SM => 1 | SS => 2 end)%Z.

Definition result_toks_val (r : result) : val :=
  match r with RToks l => toks_val l | _ => v_crash 1 end.

Definition run_verbatim_case (v : val) : val :=
  match v with
  | VL [VI 0%Z; name; chars] =>
    match getNs name, getNs chars with
    | Some name, Some chars =>
      match verbatim_invoke 92 123 125 name (init_state chars) with
      | VEnd tokens which st =>
        VL [VI 0%Z; ofNat which; ofNs (items_text tokens); result_toks_val (run_from default_table st); lx_val (lx st)]
      | VEof tokens => VL [VI 1%Z; ofNs (items_text tokens)]
      | VCrash => v_crash 0
      | VFuel => v_outoffuel
      end
    | _, _ => v_bad_input
    end
  | VL [VI 1%Z; chars] =>
    match getNs chars with
    | Some chars =>
      match verb_invoke (init_state chars) with
      | BEnd star (Tok _ d) content closed st =>
        VL [VI 0%Z; ofB star; ofNs d; ofNs (flat_map (fun t => match t with Tok _ x => x end) content); ofB closed;
            result_toks_val (run_from default_table st)]
      | BNoDelim star => VL [VI 2%Z; ofB star]
      | BCrash => v_crash 0
      end
    | None => v_bad_input
    end
  | _ => v_bad_input
  end.
