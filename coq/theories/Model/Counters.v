(* C08 -- Model of plasTeX's counters and automatic numbering, following the Python line by line:
     plasTeX/__init__.py   numToRoman, class Counter (stepcounter / setcounter / addtocounter / resetcounters and the
                           arabic / Roman / roman / Alph / alph / fnsymbol properties), TheCounter.invoke,
                           Macro.preParse / preArgument / postArgument / stepcounter / refstepcounter / postParse
     plasTeX/Context.py    Counters.__getitem__ (a missing counter is created), Context.newcounter
     Base/LaTeX            Numbering.py (\newcounter \setcounter \addtocounter \stepcounter \arabic ...), Lists.py (List.invoke,
                           List.item.invoke), Math.py (equation, eqnarray, eqnarray.EndRow, \nonumber), Floats.py (captions),
                           Definitions.py (\newtheorem), Sectioning.py; Packages/{article,report,book}.py through the regenerated
                           table Gen/ClassCounters.v.
   The code modelled is the code with the five C08 repairs applied (notes/C08/fix-*.diff).
   No proofs here.  [Fuel] results stand for a Python recursion that never ends, [Crash k] for a raised exception. *)
From Coq Require Import List ZArith Bool.
Import ListNotations.
From Verif Require Import Val CounterSyntax FormatParse ClassCounters.
Local Open Scope Z_scope.

Inductive res (A : Type) := Ok (a : A) | Crash (k : Z) | Fuel.
Arguments Ok {A} a.
Arguments Crash {A} k.
Arguments Fuel {A}.
Definition bind {A B} (m : res A) (f : A -> res B) : res B :=
  match m with Ok a => f a | Crash k => Crash k | Fuel => Fuel end.
Notation "'do' x <- m ; k" := (bind m (fun x => k)) (at level 200, x pattern, m at level 100, k at level 200).

Definition crash_index : Z := 1.      (* IndexError *)
Definition crash_attribute : Z := 2.  (* AttributeError *)

(* ---------------------------------------------------------------------------------------------- *)
(** * Representations of a counter value *)

(* Python sequence indexing with negative indices; None = IndexError *)
Definition py_index {A} (l : list A) (i : Z) : option A :=
  let n := Z.of_nat (length l) in
  if (i <? - n) || (i >=? n) then None
  else nth_error l (Z.to_nat (if i <? 0 then i + n else i)).

Fixpoint repeat_str (s : str) (n : nat) : str :=
  match n with O => [] | S n' => s ++ repeat_str s n' end.

(* numToRoman: the body after [n, number = divmod(x, 1000); roman = "M"*n] is a straight sequence of
   "if number >= k: roman += s; number -= k"  and  "while number >= k: roman += s; number -= k"  statements *)
Inductive rstep := RIf (k : Z) (s : str) | RWhile (k : Z) (s : str).

Definition roman_prog : list rstep :=
  [ RIf 900 [67; 77];   (* CM *)
    RWhile 500 [68];    (* D *)
    RIf 400 [67; 68];   (* CD *)
    RWhile 100 [67];    (* C *)
    RIf 90 [88; 67];    (* XC *)
    RWhile 50 [76];     (* L *)
    RIf 40 [88; 76];    (* XL *)
    RWhile 10 [88];     (* X *)
    RIf 9 [73; 88];     (* IX *)
    RWhile 5 [86];      (* V *)
    RIf 4 [73; 86];     (* IV *)
    RWhile 1 [73] ].    (* while number > 0: I   (number > 0 is number >= 1 on integers) *)

Fixpoint while_ge (fuel : nat) (k : Z) (s : str) (roman : str) (number : Z) : option (str * Z) :=
  if number >=? k then
    match fuel with
    | O => None
    | S f => while_ge f k s (roman ++ s) (number - k)
    end
  else Some (roman, number).

Definition run_rstep (st : rstep) (roman : str) (number : Z) : option (str * Z) :=
  match st with
  | RIf k s => if number >=? k then Some (roman ++ s, number - k) else Some (roman, number)
  | RWhile k s => while_ge (Z.to_nat number) k s roman number
  end.

Fixpoint run_rprog (p : list rstep) (roman : str) (number : Z) : option str :=
  match p with
  | [] => Some roman
  | st :: p' => match run_rstep st roman number with
                | Some (roman', number') => run_rprog p' roman' number'
                | None => None
                end
  end.

(* None = a while loop that does not end (never happens: [num_to_roman_total]) *)
Definition num_to_roman (x : Z) : option str :=
  let n := x / 1000 in           (* divmod: floor division, as Python's for a positive divisor *)
  let number := x mod 1000 in
  run_rprog roman_prog (repeat_str [77] (Z.to_nat n)) number.   (* "M"*n is '' for n <= 0 *)

Definition upper_c (c : Z) : Z := if (97 <=? c) && (c <=? 122) then c - 32 else c.
Definition lower_c (c : Z) : Z := if (65 <=? c) && (c <=? 90) then c + 32 else c.

(* str(int) *)
Fixpoint digits_aux (fuel : nat) (n : Z) (acc : str) : str :=
  match fuel with
  | O => acc
  | S f => if n <? 10 then (48 + n) :: acc else digits_aux f (n / 10) ((48 + n mod 10) :: acc)
  end.
Definition digits (n : Z) : str := digits_aux (S (Z.to_nat (Z.log2 n))) n [].
Definition arabic (z : Z) : str := if z <? 0 then 45 :: digits (- z) else digits z.

(* encoding.stringletters()[self.value - 1].upper() *)
Definition Alph_repr (v : Z) : option str :=
  match py_index gen_ascii_letters (v - 1) with Some c => Some [upper_c c] | None => None end.

Definition counter_repr (r : repr) (v : Z) : res str :=
  match r with
  | RArabic => Ok (arabic v)
  | RRoman => match num_to_roman v with Some s => Ok s | None => Fuel end
  | Rroman => match num_to_roman v with Some s => Ok (map lower_c s) | None => Fuel end
  | RAlph => match Alph_repr v with Some s => Ok s | None => Crash crash_index end
  | Ralph => match Alph_repr v with Some s => Ok (map lower_c s) | None => Crash crash_index end
  | RFnsymbol => Ok (repeat_str [42] (Z.to_nat v))
  | RUnknown => Crash crash_attribute
  end.

(* ---------------------------------------------------------------------------------------------- *)
(** * The counter store: context.counters, a dict in insertion order *)

Record counter := mkc { c_resetby : option name; c_value : Z }.
Definition store := list (name * counter).

Fixpoint lookup (n : name) (st : store) : option counter :=
  match st with
  | [] => None
  | (m, c) :: r => if name_eqb n m then Some c else lookup n r
  end.

Fixpoint set_value (n : name) (v : Z) (st : store) : store :=
  match st with
  | [] => []
  | (m, c) :: r => if name_eqb n m then (m, mkc (c_resetby c) v) :: r else (m, c) :: set_value n v r
  end.

(* Counters.__getitem__: a missing counter is created with resetby None, value 0 *)
Definition ensure (n : name) (st : store) : store :=
  match lookup n st with Some _ => st | None => st ++ [(n, mkc None 0)] end.

Definition value_of (n : name) (st : store) : Z :=
  match lookup n st with Some c => c_value c | None => 0 end.

Definition is_nil {A} (l : list A) : bool := match l with [] => true | _ => false end.

(* if counter.resetby and self.name and counter.resetby == self.name *)
Definition resets (c : counter) (self : name) : bool :=
  match c_resetby c with
  | Some r => negb (is_nil r) && negb (is_nil self) && name_eqb r self
  | None => false
  end.

(* for counter in list(self.counters.values()): if ...: counter.value = 0; counter.resetcounters()
   [snap] is the snapshot taken by list(...); [rec] is the recursive call *)
Fixpoint reset_loop (rec : name -> store -> option store) (self : name) (snap : store) (st : store) : option store :=
  match snap with
  | [] => Some st
  | (n, c) :: rest =>
      if resets c self then
        match rec n (set_value n 0 st) with
        | Some st' => reset_loop rec self rest st'
        | None => None
        end
      else reset_loop rec self rest st
  end.

Fixpoint resetcounters (fuel : nat) (self : name) (st : store) : option store :=
  match fuel with
  | O => None
  | S f => reset_loop (resetcounters f) self st st
  end.

(* Counter.stepcounter: self.value += 1; self.resetcounters().   None = unbounded recursion (cyclic reset graph) *)
Definition stepcounter (n : name) (st : store) : option store :=
  let st1 := ensure n st in
  let st2 := set_value n (value_of n st1 + 1) st1 in
  resetcounters (S (length st2)) n st2.

(* Counter.setcounter / addtocounter (repaired code: no reset, like LaTeX) *)
Definition setcounter (n : name) (v : Z) (st : store) : store := set_value n v (ensure n st).
Definition addtocounter (n : name) (v : Z) (st : store) : store :=
  let st1 := ensure n st in set_value n (value_of n st1 + v) st1.

(* ---------------------------------------------------------------------------------------------- *)
(** * \the<counter> macros and their expansion (TheCounter.invoke) *)

Definition thes := list (name * (fmt * bool)).     (* key = the counter part of the macro name "the<key>"; (format, trimLeft) *)

Fixpoint lookup_the (k : name) (th : thes) : option (fmt * bool) :=
  match th with
  | [] => None
  | (m, d) :: r => if name_eqb k m then Some d else lookup_the k r
  end.

Definition the_str : str := [116; 104; 101].
Definition starts_with_the (n : name) : bool :=
  match n with 116 :: 104 :: 101 :: _ => true | _ => false end.

(* while t.startswith("0."): t = t[2:] *)
Fixpoint trim_left (t : str) : str :=
  match t with
  | a :: b :: r => if (a =? 48) && (b =? 46) then trim_left r else t
  | _ => t
  end.

Fixpoint expand_pieces (rec : name -> res str) (st : store) (key : name) (f : fmt) : res str :=
  match f with
  | [] => Ok []
  | PLit s :: f' => do t <- expand_pieces rec st key f'; Ok (s ++ t)
  | PRef nm r :: f' =>
      (* if name.startswith('the') and name != re.sub(r'^the', '', self.__class__.__name__): invoke \name *)
      do h <- (if starts_with_the nm && negb (name_eqb nm key) then rec (skipn 3 nm)
               else counter_repr (match r with Some r' => r' | None => RArabic end) (value_of nm st));
      do t <- expand_pieces rec st key f';
      Ok (h ++ t)
  end.

(* an undefined \the<key> expands to nothing; Fuel = formats that refer to each other in a cycle *)
Fixpoint expand_the (fuel : nat) (st : store) (th : thes) (key : name) : res str :=
  match fuel with
  | O => Fuel
  | S f =>
      match lookup_the key th with
      | None => Ok []
      | Some (fm, trim) =>
          do t <- expand_pieces (expand_the f st th) st key fm;
          Ok (if trim then trim_left t else t)
      end
  end.

(* ---------------------------------------------------------------------------------------------- *)
(** * Interpreter state and the numbering done by Macro.parse *)

Record mstate := mkms {
  m_counters : store;
  m_thes : thes;
  m_envs : list (name * option name);   (* theorem-like environments: their counter attribute (None: no attribute) *)
  m_ldepth : Z                          (* List.depth *)
}.

Definition with_counters (ms : mstate) (st : store) : mstate := mkms st (m_thes ms) (m_envs ms) (m_ldepth ms).

Definition the_of (ms : mstate) (key : name) : res str :=
  expand_the (S (length (m_thes ms))) (m_counters ms) (m_thes ms) key.

(* Macro.numbered (repaired code) *)
Definition numbered (depth level : Z) : bool := (depth >=? level) || (level >? gen_endsections_level).

(* what parse() does about numbering for a macro with class attributes [counter], [level], called with or without a star:
   postArgument: a star sets self.counter = ''; refstepcounter -> stepcounter (if self.counter and self.numbered);
   postParse: self.ref = \the<counter> expanded (if self.counter and self.numbered) *)
Definition macro_number (depth : Z) (counter : option name) (level : Z) (starred : bool) (ms : mstate)
  : res (mstate * option str) :=
  let counter := if starred then Some [] else counter in
  match counter with
  | Some (ch :: ct) =>
      let c := ch :: ct in
      if numbered depth level then
        match stepcounter c (m_counters ms) with
        | None => Fuel
        | Some st =>
            let ms1 := with_counters ms st in
            do t <- the_of ms1 c;
            Ok (ms1, Some t)
        end
      else Ok (ms, None)
  | _ => Ok (ms, None)
  end.

(* Context.newcounter *)
Definition newcounter (nm : name) (resetby : option name) (f : fmt) (trim : bool) (ms : mstate) : mstate :=
  if existsb (fun p => name_eqb nm (fst p)) (m_counters ms) then ms
  else mkms (m_counters ms ++ [(nm, mkc resetby 0)]) ((nm, (f, trim)) :: m_thes ms) (m_envs ms) (m_ldepth ms).

(* format = '${%s}' % name, parsed as TheCounter.invoke parses it *)
Definition default_fmt (nm : name) : fmt := parse_format (default_format_string nm).

Fixpoint set_format (nm : name) (f : fmt) (th : thes) : thes :=
  match th with
  | [] => []
  | (m, (g, t)) :: r => if name_eqb nm m then (m, (f, t)) :: r else (m, (g, t)) :: set_format nm f r
  end.

Definition run_cop (op : cop) (ms : mstate) : mstate :=
  match op with
  | OpNew nm rb f tr => newcounter nm rb f tr ms
  | OpSetFormat nm f => mkms (m_counters ms) (set_format nm f (m_thes ms)) (m_envs ms) (m_ldepth ms)
  end.

Definition empty_state : mstate := mkms [] [] [] 0.
Definition init_state (cls : Z) : mstate :=
  fold_left (fun ms op => run_cop op ms)
            (if cls =? 0 then gen_class_ops_article else if cls =? 1 then gen_class_ops_book else gen_class_ops_report)
            empty_state.
Definition appendix_of (cls : Z) : appendix_def := if cls =? 0 then gen_appendix_article else gen_appendix_book.

(* ---------------------------------------------------------------------------------------------- *)
(** * Events of a document and what each does *)

Inductive event :=
| ESec (macro : name) (starred : bool)       (* \part ... \subsubparagraph, with or without * *)
| EEquation                                   (* \begin{equation} *)
| EEqnarray (rows : list bool)                (* \begin{eqnarray} row \\ row ... \end{eqnarray}; true = the row contains \nonumber *)
| EEqnarrayStar                               (* \begin{eqnarray*} ... : no counter attribute *)
| ECaption (table : bool)                     (* \caption inside a figure / table *)
| EThm (env : name)                           (* \begin{env} for an environment made by \newtheorem *)
| ENewTheorem (nm : name) (shared within : option name) (starred : bool)
| ENewCounter (nm : name) (within : option name)
| ESet (c : name) (v : Z)
| EAddTo (c : name) (v : Z)
| EStep (c : name)
| EBeginList (enumerate : bool)               (* enumerate / itemize, description: the same List class *)
| EEndList
| EItem
| EAppendix
| EPrint (r : option repr) (c : name).        (* \arabic{c} ... ; None = \the<c> *)

(* one observation: (kind of node, its ref: None = no number) *)
Definition out := (Z * option str)%type.
Definition k_sec := 0. Definition k_eq := 1. Definition k_row := 2. Definition k_cap := 3.
Definition k_thm := 4. Definition k_item := 5. Definition k_print := 6.

Fixpoint lookup_name {A} (n : name) (l : list (name * A)) : option A :=
  match l with
  | [] => None
  | (m, a) :: r => if name_eqb n m then Some a else lookup_name n r
  end.

Definition truthy (o : option name) : option name :=
  match o with Some (c :: r) => Some (c :: r) | _ => None end.

(* List.invoke (repaired): for i in range(first, len(List.counters)): counters[List.counters[i]].setcounter(0),
   inside try/except (IndexError, KeyError): pass *)
Fixpoint range_reset (n : nat) (i : Z) (st : store) : store :=
  match n with
  | O => st
  | S n' => match py_index gen_list_counters i with
            | None => st
            | Some c => range_reset n' (i + 1) (setcounter c 0 st)
            end
  end.
Definition list_reset (first : Z) (st : store) : store :=
  range_reset (Z.to_nat (Z.of_nat (length gen_list_counters) - first)) first st.

(* the rows of an eqnarray: [r] is the ref given to the current row by \begin{eqnarray} or by the preceding \\ *)
Fixpoint eqn_rows (depth : Z) (rows : list bool) (r : option str) (ms : mstate) (acc : list out) : res (mstate * list out) :=
  match rows with
  | [] => Ok (ms, acc)
  | nonum :: rest =>
      (* \nonumber: invoke: counters['equation'].addtocounter(-1); digest: row.ref = None *)
      let ms1 := if nonum then with_counters ms (addtocounter gen_equation_counter (-1) (m_counters ms)) else ms in
      let acc1 := acc ++ [(k_row, if nonum then None else r)] in
      match rest with
      | [] => Ok (ms1, acc1)
      | _ => (* \\ : eqnarray.EndRow, args '* [ space ]', counter 'equation' *)
          do (ms2, r2) <- macro_number depth (Some gen_endrow_counter) gen_command_level false ms1;
          eqn_rows depth rest r2 ms2 acc1
      end
  end.

Definition run_event (cls depth : Z) (e : event) (ms : mstate) : res (mstate * list out) :=
  match e with
  | ESec macro starred =>
      match lookup_name macro gen_sec_table with
      | None => Crash 0
      | Some (level, c) => do (ms1, r) <- macro_number depth (Some c) level starred ms; Ok (ms1, [(k_sec, r)])
      end
  | EEquation => do (ms1, r) <- macro_number depth (Some gen_equation_counter) gen_environment_level false ms; Ok (ms1, [(k_eq, r)])
  | EEqnarray rows =>
      do (ms1, r) <- macro_number depth (Some gen_eqnarray_counter) gen_environment_level false ms;
      eqn_rows depth rows r ms1 []
  | EEqnarrayStar => Ok (ms, [])
  | ECaption table =>
      do (ms1, r) <- macro_number depth (Some (if table then gen_table_counter else gen_figure_counter)) gen_command_level false ms;
      Ok (ms1, [(k_cap, r)])
  | EThm env =>
      match lookup_name env (m_envs ms) with
      | None => Crash 0
      | Some c => do (ms1, r) <- macro_number depth c gen_environment_level false ms; Ok (ms1, [(k_thm, r)])
      end
  | ENewTheorem nm shared within starred =>
      (* counter = attrs['counter']; if not counter and not star: counter = name; newcounter(...) *)
      let '(counter, ms1) :=
        match truthy shared, starred with
        | None, false =>
            (Some nm,
             match truthy within with
             | Some w => newcounter nm (Some w) (parse_format (theorem_format_string w nm)) false ms    (* format='${the%s}.${%s}' % (within, name) *)
             | None => newcounter nm None (default_fmt nm) false ms
             end)
        | c, _ => (c, ms)
        end in
      Ok (mkms (m_counters ms1) (m_thes ms1) ((nm, if starred then None else counter) :: m_envs ms1) (m_ldepth ms1), [])
  | ENewCounter nm within => Ok (newcounter nm within (default_fmt nm) false ms, [])
  | ESet c v => Ok (with_counters ms (setcounter c v (m_counters ms)), [])
  | EAddTo c v => Ok (with_counters ms (addtocounter c v (m_counters ms)), [])
  | EStep c => match stepcounter c (m_counters ms) with Some st => Ok (with_counters ms st, []) | None => Fuel end
  | EBeginList _ =>
      let d := m_ldepth ms + 1 in
      Ok (mkms (list_reset (d - 1) (m_counters ms)) (m_thes ms) (m_envs ms) d, [])
  | EEndList =>
      let d := m_ldepth ms - 1 in
      Ok (mkms (list_reset d (m_counters ms)) (m_thes ms) (m_envs ms) d, [])
  | EItem =>
      (* try: self.counter = List.counters[List.depth-1] ... except (KeyError, IndexError): pass   (class default otherwise) *)
      let c := match py_index gen_list_counters (m_ldepth ms - 1) with Some c => c | None => gen_item_counter end in
      do (ms1, r) <- macro_number depth (Some c) gen_command_level false ms; Ok (ms1, [(k_item, r)])
  | EAppendix =>
      let a := appendix_of cls in
      let st := fold_left (fun st z => setcounter z 0 st) (app_zero a) (m_counters ms) in
      Ok (mkms st ((app_key a, (app_fmt a, app_trim a)) :: m_thes ms) (m_envs ms) (m_ldepth ms), [])
  | EPrint None c => do t <- the_of ms c; Ok (ms, [(k_print, Some t)])
  | EPrint (Some r) c =>
      (* counters[name] creates a missing counter *)
      let ms1 := with_counters ms (ensure c (m_counters ms)) in
      do t <- counter_repr r (value_of c (m_counters ms1)); Ok (ms1, [(k_print, Some t)])
  end.

Fixpoint run_events (cls depth : Z) (es : list event) (ms : mstate) (acc : list out) : res (mstate * list out) :=
  match es with
  | [] => Ok (ms, acc)
  | e :: es' => do (ms1, o) <- run_event cls depth e ms; run_events cls depth es' ms1 (acc ++ o)
  end.

Definition number_doc (cls depth : Z) (es : list event) : res (mstate * list out) :=
  run_events cls depth es (init_state cls) [].
