(* Model of plasTeX's expansion ENGINE for the macro/conditional fragment (C02/C03 at program level):

     TeX.__iter__           the expansion loop: next token; a pushed-back macro instance is yielded; a token with a
                            macroName is looked up (Context.__getitem__ via createElement), invoked, and what invoke
                            returns is pushed back (None -> the instance itself); anything else is yielded
     TeX.pushToken(s)       cons / append in front of the input
     Context                lookup through the frames, push()/pop() of anonymous group frames, addLocal/addGlobal,
                            __getitem__ creating a global "unrecognized" class on a failed lookup (mirrors Model/Context.v
                            with macro names as strings and meanings carrying their token lists)
     bgroup/egroup.invoke   Base/TeX/Text.py
     DefCommand.invoke      Base/TeX/Primitives.py: name:Tok args:Args definition:nox, one level of ## reduction, newdef
     Definition.invoke      Model/Expand.v (definition_invoke: match_pattern, read_argument, expand_def)
     iftrue/iffalse/ifnum/ifcase  Base/TeX/Primitives.py + TeX.processIfContent (the loop of Model/IfScan.v on real tokens;
                            Proofs/EngineProofs.v proves that [classify] maps it onto IfScan.scan_go / select)
     TeX.readInteger        readOptionalSigns and the first digit through the expanding iterator ([next_exp]), the digit run
                            through readSequence (fixes 076499b, 9658874: unexpanded look, user macros expanded one step,
                            any other control sequence ends the run untouched), the one-token peek after the number (c654904)
     relax / else / fi / an unrecognized macro : Macro.invoke with no arguments = push(self); pop(self) (identity, C04)

   Stream.  TeX.inputs with one token-list input is one list (front = next token).  A macro instance that was pushed
   back ("element") is represented as a token whose category is >= 16: [Tok (16 + class) nodeName]; in the Python
   such an object has catcode 0 but is told apart by nodeType == ELEMENT_NODE, so every reader of Model/Expand.v
   (which only test categories 1, 2, 3, 6, 10 and token equality) treats it as the code does: an ordinary single token.

   What the Model does not follow is reported as [Unsupp] (never compared): octal/hex/character constants, a macro
   instance where \ifnum expects its relation, tokens whose text is not one character where a digit is tested. *)
From Coq Require Import List NArith ZArith Bool.
Import ListNotations.
From Verif Require Import Val Tokenizer Expand IfScan.
Local Open Scope N_scope.

(* ---- strings ---- *)
Fixpoint seqb (a b : list N) : bool :=
  match a, b with
  | [], [] => true
  | x :: a', y :: b' => (x =? y) && seqb a' b'
  | _, _ => false
  end.
Definition s_bgroup : list N := [98; 103; 114; 111; 117; 112].
Definition s_egroup : list N := [101; 103; 114; 111; 117; 112].
Definition s_def : list N := [100; 101; 102].
Definition s_gdef : list N := [103; 100; 101; 102].
Definition s_relax : list N := [114; 101; 108; 97; 120].
Definition s_else : list N := [101; 108; 115; 101].
Definition s_fi : list N := [102; 105].
Definition s_or : list N := [111; 114].
Definition s_newif : list N := [110; 101; 119; 105; 102].
Definition s_iftrue : list N := [105; 102; 116; 114; 117; 101].
Definition s_iffalse : list N := [105; 102; 102; 97; 108; 115; 101].
Definition s_ifnum : list N := [105; 102; 110; 117; 109].
Definition s_ifcase : list N := [105; 102; 99; 97; 115; 101].
Definition s_let : list N := [108; 101; 116].
Definition s_ifodd : list N := [105; 102; 111; 100; 100].
Definition s_value : list N := [118; 97; 108; 117; 101].
Definition s_stepcounter : list N := [115; 116; 101; 112; 99; 111; 117; 110; 116; 101; 114].
Definition s_setcounter : list N := [115; 101; 116; 99; 111; 117; 110; 116; 101; 114].
Definition s_addtocounter : list N := [97; 100; 100; 116; 111; 99; 111; 117; 110; 116; 101; 114].
Definition s_expandafter : list N := [101; 120; 112; 97; 110; 100; 97; 102; 116; 101; 114].
Definition s_newcommand : list N := [110; 101; 119; 99; 111; 109; 109; 97; 110; 100].
Definition s_renewcommand : list N := [114; 101; 110; 101; 119; 99; 111; 109; 109; 97; 110; 100].
Definition s_text : list N := [35; 116; 101; 120; 116].                        (* "#text" *)
Definition s_active (c : N) : list N := [97; 99; 116; 105; 118; 101; 58; 58; c]. (* "active::c" *)
Definition starts_if (n : list N) : bool := match n with 105 :: 102 :: _ => true | _ => false end.

(* ---- elements (macro instances in the stream) ---- *)
Definition E_BGROUP : N := 0.  Definition E_EGROUP : N := 1.  Definition E_DEF : N := 2.  Definition E_GDEF : N := 3.
Definition E_RELAX : N := 4.   Definition E_ELSE : N := 5.    Definition E_FI : N := 6.   Definition E_UNREC : N := 7.
Definition E_NEWCOMMAND : N := 9.  Definition E_RENEWCOMMAND : N := 10.  Definition E_LET : N := 11.  Definition E_NEWIF : N := 12.
Definition E_STEPCOUNTER : N := 13.  Definition E_SETCOUNTER : N := 14.  Definition E_ADDTOCOUNTER : N := 15.
Definition elem (cls : N) (name : list N) : tok := Tok (16 + cls) name.
Definition is_elem (t : tok) : bool := 16 <=? tcat t.

(* ---- meanings and the context ---- *)
Inductive prim := PBgroup | PEgroup | PDef (global : bool) | PRelax | PElse | PFi | PIftrue | PIffalse | PIfnum | PIfcase
                | PNewcommand (renew : bool) | PLet | PIfodd | PNewif
                | PValue | PStepcounter | PSetcounter | PAddtocounter | PExpandafter.
Inductive meaning :=
| MDef (args body : list tok)        (* a class made by Context.newdef *)
| MNew (nargs : nat) (opt : option (list tok)) (body : list tok)   (* a class made by Context.newcommand *)
| MPrim (p : prim)                   (* a Python macro class of the base context *)
| MUnrec (k : list N)                (* the class generated by Context.__getitem__ on a failed lookup of k *)
| MIf (cell : list N)                (* a NewIf class made by Context.newif; [cell] names its class attribute `state` *)
| MIfSet (cell : list N) (b : bool)  (* the IfTrue / IfFalse class that goes with it (ifclass = that class) *)
| MCell (b : bool)                   (* the value of a class attribute: kept in the bottom frame under a key no token can spell *)
| MCount (z : Z).                    (* the value of a LaTeX counter (Context.counters[name].value), kept the same way *)

Definition frame := list (list N * meaning).     (* a ContextItem's dict, newest binding first *)
Record state := { input : list tok;              (* the token buffer *)
                  ups : list frame;              (* Context.contexts[1:], top first *)
                  bottom : frame }.              (* Context.contexts[0] *)
Definition set_input (s : state) (i : list tok) : state := {| input := i; ups := ups s; bottom := bottom s |}.
Definition set_ups (s : state) (u : list frame) : state := {| input := input s; ups := u; bottom := bottom s |}.
Definition set_bottom (s : state) (b : frame) : state := {| input := input s; ups := ups s; bottom := b |}.

Fixpoint findm (k : list N) (f : frame) : option meaning :=
  match f with [] => None | (k', v) :: r => if seqb k k' then Some v else findm k r end.
(* ContextItem.__getitem__ through .parent *)
Fixpoint chain_get (fs : list frame) (b : frame) (k : list N) : option meaning :=
  match fs with
  | [] => findm k b
  | f :: r => match findm k f with Some v => Some v | None => chain_get r b k end
  end.
Definition lookup (s : state) (k : list N) : option meaning := chain_get (ups s) (bottom s) k.
Definition add_global (k : list N) (v : meaning) (s : state) : state := set_bottom s ((k, v) :: bottom s).
Definition add_local (k : list N) (v : meaning) (s : state) : state :=
  match ups s with f :: r => set_ups s (((k, v) :: f) :: r) | [] => add_global k v s end.
(* Context.__getitem__ *)
Definition getitem (k : list N) (s : state) : state * meaning :=
  match lookup s k with Some v => (s, v) | None => (add_global k (MUnrec k) s, MUnrec k) end.
(* Context.push() / Context.pop() with no object: every frame above the bottom one is an anonymous group frame here
   (the push(self)/pop(self) pairs of argument-less commands cancel), so pop() removes the top frame if there is one *)
Definition push_frame (s : state) : state := set_ups s ([] :: ups s).
Definition pop_frame (s : state) : state := set_ups s (tl (ups s)).

Definition push_tok (t : tok) (s : state) : state := set_input s (t :: input s).
Definition ros (s : state) : state := set_input s (read_optional_spaces (input s)).

(* Token.macroName *)
Definition macro_name (t : tok) : option (list N) :=
  let k := tcat t in
  if k =? CC_ESCAPE then Some (ttext t)
  else if k =? CC_BGROUP then Some s_bgroup
  else if k =? CC_EGROUP then Some s_egroup
  else if k =? CC_MATH then Some (s_active 36)
  else if k =? CC_ALIGN then Some (s_active 38)
  else if k =? CC_SUPER then Some (s_active 94)
  else if k =? CC_SUB then Some (s_active 95)
  else None.

(* ---- processIfContent on real tokens ---- *)
(* name = getattr(t, 'macroName', '') or '': the class attribute for a macro instance (else_ and def_ set one) *)
Definition scan_name (t : tok) : list N :=
  if is_elem t then
    (if tcat t =? 16 + E_ELSE then s_else else if tcat t =? 16 + E_DEF then s_def else [])
  else match macro_name t with Some n => n | None => [] end.
Definition classify (t : tok) : ctok :=
  let n := scan_name t in
  if seqb n s_newif then KNewif
  else if starts_if n then KIf 0
  else if seqb n s_fi then KFi
  else if seqb n s_else then KElse
  else if seqb n s_or then KOr
  else KTok 0.

Record tscanned := { tcases : list (list tok); telse : option nat; trest : list tok; tterm : bool }.

(* the loop of IfScan.scan_go, token for token *)
Fixpoint tscan_go (ts : list tok) (nesting : nat) (cur : list tok) (done : list (list tok)) (els : option nat)
  : option tscanned :=
  match ts with
  | [] => Some {| tcases := rev (rev cur :: done); telse := els; trest := []; tterm := false |}
  | t :: ts' =>
    match classify t with
    | KNewif =>
        match ts' with
        | nx :: ts'' => tscan_go ts'' nesting (nx :: t :: cur) done els
        | [] => None
        end
    | KIf _ => tscan_go ts' (S nesting) (t :: cur) done els
    | KFi =>
        match nesting with
        | O => Some {| tcases := rev (rev cur :: done); telse := els; trest := ts'; tterm := true |}
        | S n => tscan_go ts' n (t :: cur) done els
        end
    | KElse =>
        match nesting with
        | O => tscan_go ts' nesting [] (rev cur :: done) (Some (S (length done)))
        | S _ => tscan_go ts' nesting (t :: cur) done els
        end
    | KOr =>
        match nesting with
        | O => tscan_go ts' nesting [] (rev cur :: done) els
        | S _ => tscan_go ts' nesting (t :: cur) done els
        end
    | KTok _ => tscan_go ts' nesting (t :: cur) done els
    end
  end.
Definition tscan (ts : list tok) : option tscanned := tscan_go ts O [] [] None.

Definition tselect (w : which) (sc : tscanned) : list tok :=
  let '(cs, e) := match telse sc with
                  | Some e => (tcases sc, e)
                  | None => (tcases sc ++ [[]], length (tcases sc))
                  end in
  let idx := match w with
             | WBool true => O
             | WBool false => e
             | WCase z => if ((0 <=? z) && (z <? Z.of_nat e))%Z then Z.to_nat z else e
             end in
  nth idx cs [].
Definition tprocess (w : which) (ts : list tok) : option (list tok) :=
  match tscan ts with Some sc => Some (tselect w sc ++ trest sc) | None => None end.

(* ---- DefCommand helpers ---- *)
(* type Args: everything up to the first begin-group token, which stays in the stream *)
Fixpoint read_args (s : list tok) (acc : list tok) : list tok * list tok :=
  match s with
  | [] => (rev acc, [])
  | t :: r => if is_bgroup t then (rev acc, s) else read_args r (t :: acc)
  end.
(* "nested" = a parameter character directly followed by another one in the parameter text *)
Fixpoint has_nested (a : list tok) : bool :=
  match a with
  | [] => false
  | t :: r =>
    if is_param t then
      match r with
      | [] => false
      | t2 :: r2 => if is_param t2 then true else has_nested r2
      end
    else has_nested r
  end.
(* one level of # removed: in a run of two or more # followed by another token one # is dropped (newarg.pop()) *)
Fixpoint reduce_hashes (l : list tok) (params : nat) (acc : list tok) : list tok :=
  match l with
  | [] => rev acc
  | t :: r =>
    if is_param t then reduce_hashes r (S params) (t :: acc)
    else reduce_hashes r O (t :: (if Nat.ltb 1 params then tl acc else acc))
  end.
(* a['name'].nodeName *)
Definition def_name (t : tok) : list N :=
  if is_elem t then ttext t else if tcat t =? CC_ESCAPE then ttext t else s_text.

(* ---- outcomes ---- *)
Inductive outcome (A : Type) := Ret (a : A) | Crash (k : Z) | Fuel | Unsupp (k : Z).
Arguments Ret {A} a.  Arguments Crash {A} k.  Arguments Fuel {A}.  Arguments Unsupp {A} k.
Definition bind {A B} (x : outcome A) (f : A -> outcome B) : outcome B :=
  match x with Ret a => f a | Crash k => Crash k | Fuel => Fuel | Unsupp k => Unsupp k end.

Inductive stepres := SYield (t : tok) (st : state) | SCont (st : state) | SStop.

Definition text1 (t : tok) : option N := match ttext t with [c] => Some c | _ => None end.
Definition is_char (c : N) (t : tok) : bool := match text1 t with Some x => x =? c | None => false end.
Definition digits_value (cs : list N) : Z := fold_left (fun a c => (10 * a + (Z.of_N c - 48))%Z) cs 0%Z.

Section Invoke.
  (* one run of the expansion loop up to its first yield: `for t in self: ...; break` *)
  Context (nx : state -> outcome (option tok * state)).

  (* the loop of readOptionalSigns (after its readOptionalSpaces) *)
  Fixpoint read_signs (g : nat) (neg : bool) (st : state) : outcome (bool * state) :=
    match g with O => Fuel | S g' =>
    bind (nx st) (fun r =>
      match r with
      | (None, st') => Ret (neg, st')
      | (Some t, st') =>
          if is_elem t then Ret (neg, push_tok t st')
          else match text1 t with
               | None => Unsupp 2
               | Some c =>
                   if c =? 43 then read_signs g' neg st'
                   else if c =? 45 then read_signs g' (negb neg) st'
                   else if is_space t then read_signs g' neg st'
                   else Ret (neg, push_tok t st')
               end
      end)
    end.

  (* readSequence(string.digits, optspace=True): characters accumulated reversed.  Since fixes 076499b / 9658874 the next
     token is looked at unexpanded: a control sequence (or brace...) whose current meaning is a NewCommand / Definition
     (/ ParameterCommand / TheCounter: none in this Model) class is expanded ONE step (invoke, push the result back) and the
     loop looks again; any other one ends the digit run and stays where it is (`name in context` creates nothing).
     A character token or a macro instance is taken from the stream as it is. *)
  Fixpoint read_sequence (g : nat) (acc : list N) (st : state) : outcome (list N * state) :=
    match g with O => Fuel | S g' =>
    match input st with
    | [] => Ret (rev acc, st)
    | t :: r =>
      if is_elem t then Ret (rev acc, st)
      else match macro_name t with
           | Some nm =>
               match lookup st nm with
               | Some (MDef a b) =>
                   match definition_invoke a b r with
                   | Some i => read_sequence g' acc (set_input st i)
                   | None => Crash 1
                   end
               | Some (MNew n o b) =>
                   match newcommand_invoke n o b r with
                   | Some i => read_sequence g' acc (set_input st i)
                   | None => Crash 1
                   end
               | _ => Ret (rev acc, st)
               end
           | None =>
               match text1 t with
               | None => Unsupp 3
               | Some c =>
                   if (48 <=? c) && (c <=? 57) then read_sequence g' (c :: acc) (set_input st r)
                   else if is_space t then Ret (rev acc, set_input st r)
                   else Ret (rev acc, st)
               end
           end
    end end.

  (* TeX.readInteger *)
  Definition read_integer (g : nat) (st : state) : outcome (Z * state) :=
    bind (read_signs g false (ros st)) (fun r1 =>
    let '(neg, st1) := r1 in
    bind (nx st1) (fun r2 =>
      match r2 with
      | (None, _) => Crash 3                                   (* the warning formats an unbound local *)
      | (Some t, st2) =>
          if is_elem t then Ret (0%Z, push_tok t st2)          (* missing number, treated as 0 *)
          else match text1 t with
               | None => Unsupp 4
               | Some c =>
                   if (48 <=? c) && (c <=? 57) then
                     bind (read_sequence g [] st2) (fun r3 =>
                     let '(cs, st3) := r3 in
                     let v := digits_value (c :: cs) in
                     let v := if neg then (- v)%Z else v in
                     (* for t in self.itertokens(): self.pushToken(t); isregister ...; break
                        one unexpanded token is looked at and pushed back; it is expanded (and multiplies the constant) only when
                        it is a ParameterCommand instance or a control sequence whose meaning is a ParameterCommand class: none of
                        the meanings of this Model (definitions, the primitives of base_frame, unrecognized macros) is one, and
                        `name in context` creates nothing, so the stream and the context are unchanged *)
                     Ret (v, st3))
                   else if (c =? 39) || (c =? 34) || (c =? 96) then Unsupp 5
                   else Ret (0%Z, st2)                          (* the token is consumed; missing number = 0 *)
               end
      end)).

  Definition prim_elem (p : prim) : tok :=
    match p with
    | PBgroup => elem E_BGROUP s_bgroup | PEgroup => elem E_EGROUP s_egroup
    | PDef false => elem E_DEF s_def | PDef true => elem E_GDEF s_gdef
    | PRelax => elem E_RELAX s_relax | PElse => elem E_ELSE s_else | PFi => elem E_FI s_fi
    | PIftrue => elem 8 s_iftrue | PIffalse => elem 8 s_iffalse | PIfnum => elem 8 s_ifnum | PIfcase => elem 8 s_ifcase   (* never pushed *)
    | PNewcommand false => elem E_NEWCOMMAND s_newcommand | PNewcommand true => elem E_RENEWCOMMAND s_renewcommand
    | PLet => elem E_LET s_let
    | PIfodd => elem 8 s_ifodd
    | PNewif => elem E_NEWIF s_newif
    | PValue => elem 8 s_value
    | PStepcounter => elem E_STEPCOUNTER s_stepcounter
    | PSetcounter => elem E_SETCOUNTER s_setcounter
    | PAddtocounter => elem E_ADDTOCOUNTER s_addtocounter
    | PExpandafter => elem 8 s_expandafter      (* never pushed *)
    end.

  (* DefCommand.invoke followed by pushToken(obj) *)
  Definition def_invoke (global : bool) (st : state) : outcome state :=
    let st1 := ros st in
    match input st1 with
    | [] => Crash 5                                            (* a['name'] is None *)
    | nt :: r1 =>
      let st2 := ros (set_input st1 r1) in
      let '(args, r2) := read_args (input st2) [] in
      let st3 := ros (set_input st2 r2) in
      let nested := has_nested args in
      let args' := if nested then reduce_hashes args O [] else args in
      match read_token (input st3) with
      | (None, r3) =>
        (* end of input: a['definition'] is None.  `for t in None` raises when nested; otherwise the class gets
           definition = None, which expandDef treats as [] (and the input being exhausted, it is never instantiated) *)
        if nested then Crash 6 else
        let st5 := (if global then add_global else add_local) (def_name nt) (MDef args' []) (set_input st3 r3) in
        Ret (push_tok (prim_elem (PDef global)) st5)
      | (Some body, r3) =>
        let body' := if nested then reduce_hashes body O [] else body in
        let st4 := set_input st3 r3 in
        let st5 := (if global then add_global else add_local) (def_name nt) (MDef args' body') st4 in
        Ret (push_tok (prim_elem (PDef global)) st5)
      end
    end.

  (* readInternalType's clean-up: tokens are dropped up to and including the \relax it had pushed (its instance, once the
     number reader has executed it, or the token itself) *)
  Fixpoint drop_relax (s : list tok) : list tok :=
    match s with
    | [] => []
    | t :: r =>
      if (if is_elem t then seqb (ttext t) s_relax else match macro_name t with Some n => seqb n s_relax | None => false end)
      then r else drop_relax r
    end.
  Definition plainchar (t : tok) : bool := negb (is_elem t) && match macro_name t with None => true | Some _ => false end.

  (* newcommand.invoke (Base/LaTeX/Definitions.py): args = '* name:cs [ nargs:int ] [ opt:nox ] definition:nox', then
     Context.newcommand (always global; a name bound to a Python macro other than \relax is left alone), then pushToken(obj) *)
  Definition newcommand_def (g : nat) (renew : bool) (st : state) : outcome state :=
    (* '*' modifier: readCharacter('*') after optional spaces *)
    let st0 := ros st in
    match input st0 with
    | [] => Crash 7                                       (* name is None: type(None, ...) raises *)
    | t0 :: r0 =>
      if is_elem t0 then Unsupp 7 else
      let st1 := if seqb (ttext t0) [42] then set_input st0 r0 else st0 in
      (* name:cs -- one token or group, unexpanded; the first escape-category token of it *)
      let st2 := ros st1 in
      match read_token (input st2) with
      | (None, _) => Crash 7
      | (Some ntoks, r2) =>
        if existsb is_elem ntoks then Unsupp 7 else
        match filter (fun t => tcat t =? CC_ESCAPE) ntoks with
        | [] => Crash 8                                   (* [].pop(0) *)
        | nt :: _ =>
          (* [ nargs:int ]: the group is expanded (identity on character tokens) and read back as a number behind a \relax *)
          let '(og, r3) := read_optional r2 in
          let nres : outcome (Z * list tok) :=
            match og with
            | None => Ret (0%Z, r3)
            | Some ds =>
              if forallb plainchar ds then
                bind (read_integer g (set_input st2 (ds ++ Tok CC_ESCAPE s_relax :: r3))) (fun rz =>
                  let '(z, stz) := rz in Ret (z, drop_relax (input stz)))
              else Unsupp 8
            end in
          bind nres (fun rn =>
          let '(z, r4) := rn in
          (* [ opt:nox ] *)
          let '(oo, r5) := read_optional r4 in
          (* definition:nox *)
          let '(od, r6) := read_token (read_optional_spaces r5) in
          let body := match od with Some b => b | None => [] end in
          let name := ttext nt in
          let st6 := set_input st2 r6 in
          let st7 :=
            match lookup st6 name with
            | Some (MPrim PRelax) | Some (MDef _ _) | Some (MNew _ _ _) | Some (MUnrec _) | None =>
                add_global name (MNew (Z.to_nat z) oo body) st6
            | Some (MPrim _) | Some (MIf _) | Some (MIfSet _ _) | Some (MCell _) | Some (MCount _) => st6
            end in
          Ret (push_tok (prim_elem (PNewcommand renew)) st7))
        end
      end
    end.

  (* let.invoke: args = 'name:Tok = value:Tok', Context.let(name, value, local=True): a control sequence (or macro instance) as
     value binds the SAME class under the new name in the top frame (Context.__getitem__ on the value's name, which creates the
     unrecognized class when there is none); any other token only records a \let for the Tokenizer (.lets), which a
     token-list input never consults *)
  Definition let_invoke (st : state) : outcome state :=
    let st1 := ros st in
    match input st1 with
    | [] => Crash 9
    | nt :: r1 =>
      let st2 := ros (set_input st1 r1) in
      match input st2 with
      | [] => Crash 9
      | e1 :: r2 =>
        if is_elem e1 then Unsupp 9 else
        let st3 := ros (if seqb (ttext e1) [61] then set_input st2 r2 else st2) in
        match input st3 with
        | [] => Crash 9
        | vt :: r3 =>
          let st4 := set_input st3 r3 in
          let st5 := if is_elem vt || (tcat vt =? CC_ESCAPE)
                     then let '(st', cls) := getitem (def_name vt) st4 in add_local (def_name nt) cls st'
                     else st4 in
          Ret (push_tok (prim_elem PLet) st5)
        end
      end
    end.

  (* newif.invoke (Base/TeX/Registers.py): args = 'name:cs'; Context.newif(name): nothing if the name has a meaning; otherwise three
     global classes: \ifX (NewIf, state False), \Xtrue, \Xfalse (X = name[2:]).  The `state` class attribute gets a cell whose key
     starts with character 0 and the current size of the bottom frame, so that it is fresh and no control sequence reaches it. *)
  Definition s_true : list N := [116; 114; 117; 101].
  Definition s_false : list N := [102; 97; 108; 115; 101].
  Definition newif_invoke (st : state) : outcome state :=
    let st1 := ros st in
    match read_token (input st1) with
    | (None, _) => Crash 10
    | (Some ntoks, r1) =>
      if existsb is_elem ntoks then Unsupp 10 else
      match filter (fun t => tcat t =? CC_ESCAPE) ntoks with
      | [] => Crash 10
      | nt :: _ =>
        let name := ttext nt in
        let st2 := set_input st1 r1 in
        let st3 :=
          match lookup st2 name with
          | Some _ => st2
          | None =>
            let key := 0 :: N.of_nat (length (bottom st2)) :: name in
            add_global key (MCell false)
              (add_global (skipn 2 name ++ s_false) (MIfSet key false)
                 (add_global (skipn 2 name ++ s_true) (MIfSet key true)
                    (add_global name (MIf key) st2)))
          end in
        Ret (push_tok (prim_elem PNewif) st3)
      end
    end.
  (* ---- LaTeX counters (Base/LaTeX/Numbering.py): \value{c}, \stepcounter{c}, \setcounter{c}{n}, \addtocounter{c}{n} ----
     Context.counters is a dictionary that creates a counter (value 0) the first time a name is looked up; counters are not
     scoped.  A counter's value is kept in the bottom frame under the key 0 0 99 name.  Arguments: `name:str` = one token or group,
     EXPANDED and joined to a string (the Model follows plain character tokens only: expansion is the identity on them, the string
     is their text with outer blanks stripped), `value:int` = one token or group, expanded, read back as a number behind a \relax.
     \stepcounter also resets the counters declared "within" the stepped one: none for the names used here. *)
  Definition ckey (name : list N) : list N := 0 :: 0 :: 99 :: name.
  Definition counter_value (st : state) (name : list N) : Z :=
    match findm (ckey name) (bottom st) with Some (MCount z) => z | _ => 0%Z end.
  Definition set_counter (name : list N) (z : Z) (st : state) : state := add_global (ckey name) (MCount z) st.
  Fixpoint strip_sp (l : list tok) : list tok := match l with t :: r => if is_space t then strip_sp r else l | [] => [] end.
  Definition str_arg (st : state) : outcome (list N * state) :=
    let st1 := ros st in
    match read_token (input st1) with
    | (None, _) => Unsupp 12
    | (Some toks, r) =>
      if forallb (fun t => plainchar t && ((tcat t =? CC_LETTER) || (tcat t =? CC_OTHER) || (tcat t =? CC_SPACE))) toks
      then Ret (flat_map ttext (rev (strip_sp (rev (strip_sp toks)))), set_input st1 r)
      else Unsupp 12
    end.
  Definition int_arg (g : nat) (st : state) : outcome (Z * state) :=
    let st1 := ros st in
    match read_token (input st1) with
    | (None, _) => Unsupp 13
    | (Some toks, r) =>
      if forallb plainchar toks then
        bind (read_integer g (set_input st1 (toks ++ Tok CC_ESCAPE s_relax :: r))) (fun rz =>
          let '(z, stz) := rz in Ret (z, set_input stz (drop_relax (input stz))))
      else Unsupp 13
    end.
  (* str(value) as Other tokens *)
  Fixpoint digs_lsd (fuel : nat) (n : N) : list N :=
    match fuel with O => [] | S f => (48 + n mod 10) :: (if n <? 10 then [] else digs_lsd f (n / 10)) end.
  Definition arabic (z : Z) : list tok :=
    let n := Z.abs_N z in
    (if (z <? 0)%Z then [Tok CC_OTHER [45]] else []) ++ map (fun c => Tok CC_OTHER [c]) (rev (digs_lsd (S (N.to_nat (N.size n))) n)).

  Definition cell_value (st : state) (key : list N) : bool :=
    match findm key (bottom st) with Some (MCell b) => b | _ => false end.

  Definition if_invoke (w : bool) (st : state) : outcome state :=
    match tprocess (WBool w) (input st) with Some i => Ret (set_input st i) | None => Crash 2 end.

  (* expandafter.invoke: nexttok, aftertok = the next two tokens as they are; a control sequence aftertok is instantiated
     (createElement: Context.__getitem__) and invoked once; the result [nexttok] + (expanded or [aftertok]) is pushed back.
     Followed here when aftertok is not a control sequence, or is one whose class was made by \def and whose expansion is not
     empty (an empty expansion is "falsy": the instance itself would be pushed); other classes (primitives, \newcommand
     classes, unrecognized macros, instances already in the stream) are not followed *)
  Definition expandafter_invoke (st : state) : outcome state :=
    match input st with
    | [] | [_] => Crash 7                       (* next() on the exhausted token iterator *)
    | t1 :: t2 :: r =>
      if is_elem t2 then Unsupp 14
      else if tcat t2 =? CC_ESCAPE then
        let '(st1, m) := getitem (ttext t2) (set_input st r) in
        match m with
        | MDef [] [] => Unsupp 14
        | MDef [] b => Ret (set_input st1 (t1 :: b ++ r))
        | MDef a b =>
            match match_pattern a false false [None] r with
            | MOk params s' =>
                match expand_def b false params with
                | Some [] => Unsupp 14
                | Some o => Ret (set_input st1 (t1 :: o ++ s'))
                | None => Crash 1
                end
            | MCrash => Crash 1
            end
        | _ => Unsupp 14
        end
      else Ret st
    end.

  (* obj.invoke(tex) and the push-back of its result, for the class [m] found under the name [nm] *)
  Definition invoke (g : nat) (nm : list N) (m : meaning) (st : state) : outcome state :=
    match m with
    | MDef args body =>
        match definition_invoke args body (input st) with
        | Some i => Ret (set_input st i)
        | None => Crash 1
        end
    | MNew nargs opt body =>
        match newcommand_invoke nargs opt body (input st) with
        | Some i => Ret (set_input st i)
        | None => Crash 1
        end
    | MPrim (PNewcommand renew) => newcommand_def g renew st
    | MUnrec k => Ret (push_tok (elem E_UNREC k) st)     (* nodeName is the class name: the name first looked up *)
    | MPrim PLet => let_invoke st
    | MPrim PNewif => newif_invoke st
    | MIf key => if_invoke (cell_value st key) st                   (* tex.processIfContent(type(self).state); return [] *)
    | MIfSet key b => Ret (add_global key (MCell b) st)             (* type(self).ifclass.setTrue() / setFalse(); return [] *)
    | MCell _ | MCount _ => Unsupp 11
    | MPrim PValue =>
        bind (str_arg st) (fun rn => let '(name, st1) := rn in
        Ret (set_input st1 (arabic (counter_value st1 name) ++ input st1)))
    | MPrim PStepcounter =>
        bind (str_arg st) (fun rn => let '(name, st1) := rn in
        Ret (push_tok (prim_elem PStepcounter) (set_counter name (counter_value st1 name + 1) st1)))
    | MPrim PSetcounter =>
        bind (str_arg st) (fun rn => let '(name, st1) := rn in
        bind (int_arg g st1) (fun rz => let '(z, st2) := rz in
        Ret (push_tok (prim_elem PSetcounter) (set_counter name z st2))))
    | MPrim PAddtocounter =>
        bind (str_arg st) (fun rn => let '(name, st1) := rn in
        bind (int_arg g st1) (fun rz => let '(z, st2) := rz in
        Ret (push_tok (prim_elem PAddtocounter) (set_counter name (counter_value st2 name + z) st2))))
    | MPrim PExpandafter => expandafter_invoke st
    | MPrim PBgroup => Ret (push_tok (prim_elem PBgroup) (push_frame st))
    | MPrim PEgroup => Ret (push_tok (prim_elem PEgroup) (pop_frame st))
    | MPrim PRelax => Ret (push_tok (prim_elem PRelax) st)
    | MPrim PElse => Ret (push_tok (prim_elem PElse) st)
    | MPrim PFi => Ret (push_tok (prim_elem PFi) st)
    | MPrim (PDef gl) => def_invoke gl st
    | MPrim PIftrue => if_invoke true st
    | MPrim PIffalse => if_invoke false st
    | MPrim PIfodd =>
        (* tex.processIfContent(bool(tex.readNumber() % 2)) *)
        bind (read_integer g st) (fun rz => let '(z, st1) := rz in if_invoke (Z.odd z) st1)
    | MPrim PIfcase =>
        (* tex.processIfContent(tex.readNumber()) *)
        bind (read_integer g st) (fun rz =>
        let '(z, st1) := rz in
        match tprocess (WCase z) (input st1) with Some i => Ret (set_input st1 i) | None => Crash 2 end)
    | MPrim PIfnum =>
        bind (read_integer g (ros st)) (fun ra =>
        let '(a, st1) := ra in
        let st2 := ros st1 in
        match input st2 with
        | [] => Crash 4
        | rel :: r =>
          if is_elem rel then Unsupp 6 else
          bind (read_integer g (set_input st2 r)) (fun rb =>
          let '(b, st3) := rb in
          if seqb (ttext rel) [60] then if_invoke (a <? b)%Z st3
          else if seqb (ttext rel) [62] then if_invoke (b <? a)%Z st3
          else if seqb (ttext rel) [61] then if_invoke (a =? b)%Z st3
          else Crash 4)
        end)
    end.

  (* one iteration of the `while 1` of TeX.__iter__ *)
  Definition iter_step (g : nat) (st : state) : outcome stepres :=
    match input st with
    | [] => Ret SStop
    | t :: r =>
      let st1 := set_input st r in
      if is_elem t then Ret (SYield t st1)
      else match macro_name t with
           | None => Ret (SYield t st1)
           | Some nm =>
               let '(st2, m) := getitem nm st1 in
               bind (invoke g nm m st2) (fun st3 => Ret (SCont st3))
           end
    end.
End Invoke.

(* a fresh generator of TeX.__iter__ run up to its first yield *)
Fixpoint next_exp (fuel : nat) (st : state) : outcome (option tok * state) :=
  match fuel with O => Fuel | S f =>
  bind (iter_step (next_exp f) f st) (fun r =>
    match r with
    | SYield t st' => Ret (Some t, st')
    | SCont st' => next_exp f st'
    | SStop => Ret (None, st)
    end)
  end.

Inductive result := Done (st : state) (out : list tok) | Crashed (k : Z) | OutOfFuel | Unsupported (k : Z).

(* `for t in tex: out.append(t)`: the generator loop with the consumer fused in; [acc] is reversed *)
Fixpoint run (fuel : nat) (st : state) (acc : list tok) : result :=
  match fuel with O => OutOfFuel | S f =>
  match iter_step (next_exp f) f st with
  | Ret (SYield t st') => run f st' (t :: acc)
  | Ret (SCont st') => run f st' acc
  | Ret SStop => Done st (rev acc)
  | Crash k => Crashed k
  | Fuel => OutOfFuel
  | Unsupp k => Unsupported k
  end end.

(* the part of a fresh TeXDocument's context the fragment uses *)
Definition base_frame : frame :=
  [ (s_bgroup, MPrim PBgroup); (s_egroup, MPrim PEgroup); (s_def, MPrim (PDef false)); (s_gdef, MPrim (PDef true));
    (s_relax, MPrim PRelax); (s_else, MPrim PElse); (s_fi, MPrim PFi);
    (s_iftrue, MPrim PIftrue); (s_iffalse, MPrim PIffalse); (s_ifnum, MPrim PIfnum); (s_ifcase, MPrim PIfcase);
    (s_newcommand, MPrim (PNewcommand false)); (s_renewcommand, MPrim (PNewcommand true)); (s_let, MPrim PLet); (s_ifodd, MPrim PIfodd); (s_newif, MPrim PNewif);
    (s_value, MPrim PValue); (s_stepcounter, MPrim PStepcounter); (s_setcounter, MPrim PSetcounter); (s_addtocounter, MPrim PAddtocounter);
    (s_expandafter, MPrim PExpandafter) ].
Definition init (i : list tok) : state := {| input := i; ups := []; bottom := base_frame |}.

(* ---- wire ---- *)
Local Open Scope Z_scope.
Definition meaning_val (m : option meaning) : val :=
  match m with
  | Some (MDef a b) => VL [VI 0; toks_val a; toks_val b]
  | Some (MNew n o b) => VL [VI 4; ofNat n; VL (match o with Some x => [toks_val x] | None => [] end); toks_val b]
  | Some (MPrim _) => VL [VI 1]
  | Some (MUnrec _) => VL [VI 2]
  | Some (MIf _) => VL [VI 5]
  | Some (MIfSet _ b) => VL [VI 6; ofB b]
  | Some (MCell _) => VL [VI 7]
  | Some (MCount _) => VL [VI 7]
  | None => VL [VI 3]
  end.
Definition names_of (v : val) : option (list (list N)) := match v with VL l => mapM getNs l | _ => None end.

(* case: ((tok ...) (name ...)) -> (0 (yielded tokens) depth (meaning of each name at the end)) | crash | fuel | (-5 k) *)
Definition run_case (v : val) : val :=
  match v with
  | VL [ts; ns; cs] =>
    (* with counter names: their final values are observed too *)
    match toks_of ts, names_of ns, names_of cs with
    | Some ts, Some ns, Some cs =>
      match run (Nat.mul 100 100) (init ts) [] with
      | Done st out => VL [VI 0; toks_val out; ofNat (S (length (ups st)));
                            VL (map (fun k => match lookup st k with
                                              | Some (MIf key) => VL [VI 5; ofB (cell_value st key)]
                                              | m => meaning_val m
                                              end) ns);
                            VL (map (fun c => VI (counter_value st c)) cs)]
      | Crashed k => v_crash k
      | OutOfFuel => v_outoffuel
      | Unsupported k => VL [VI (-5); VI k]
      end
    | _, _, _ => v_bad_input
    end
  | VL [ts; ns] =>
    match toks_of ts, names_of ns with
    | Some ts, Some ns =>
      match run (Nat.mul 100 100) (init ts) [] with
      | Done st out => VL [VI 0; toks_val out; ofNat (S (length (ups st)));
                            VL (map (fun k => match lookup st k with
                                              | Some (MIf key) => VL [VI 5; ofB (cell_value st key)]
                                              | m => meaning_val m
                                              end) ns)]
      | Crashed k => v_crash k
      | OutOfFuel => v_outoffuel
      | Unsupported k => VL [VI (-5); VI k]
      end
    | _, _ => v_bad_input
    end
  | _ => v_bad_input
  end.
