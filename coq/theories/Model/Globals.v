(* Model/Globals.v -- C17: interpreter-wide cells of plasTeX and what a document does to them.

   PART 1 (bookkeeping, generic).  A *cell* is a class attribute or module variable (one row of Gen/GlobalCells.v, or one
   member of a row that stands for a family such as "<register>.value").  A document run is a history of primitive events on
   cells, with Python's semantics:
       c += d            EAdd   (TypeError when the cell holds a list)
       c  = v            ESet
       c.append(v)       EPush  (AttributeError when the cell holds an int)
       c.pop()           EPop   (IndexError on the empty list)
       result depends on c   ERead  (the document's result records the cell's value)
   A raising event aborts the document ([None]: the document was not processed to completion).
   [reset R init] is what creating a new document does: cells with [R c = true] get their initial value (Context.__init__ calling
   Context.resetParserState; classes re-created per document by Context.importMacros / newcount / newif), all others are kept.

   PART 2 (transcription of the code that writes the trackers), token by token:
       ParameterCommand.enable / disable            plasTeX/__init__.py
       TeX.readArgumentAndSource                    disable ... enable around every argument (C05 proves every path re-enables)
       ParameterCommand.invoke                      if enabled: enabled=False; value=parse(); enabled=True
       DimenCommand.setlength (via \setlength)      type(self).value = ...
       List.invoke                                  List.depth += 1 / -= 1 ; List.item.invoke reads List.depth
       MathShift.invoke                             the $ / $$ decision with one token of look-ahead on MathShift.inEnv
       BoxCommand.parse                             inEnv.append(None); parse; inEnv.pop()   (the pop also runs at end of input);
                                                    parse reads the box content as an argument: parameters are disabled inside
       ifthenelse.invoke                            disableMath = True; parse; disableMath = False on BeginMath and EndMath
       article.ProcessOptions etc.                  class patch: attribute assignment on a shared class
   Python's inEnv[-1] is the head of the list here (the stack is stored top first).

   SPEC (written from the property text, not from the code): [independent] -- whatever document B is processed after the
   completed documents As, its result equals the result of B processed alone; [restored] -- no cell that survives the creation
   of a new document differs from its initial value.

   No proofs in this file. *)
From Coq Require Import List ZArith Bool.
Import ListNotations.
From Verif Require Import Val GlobalCells.
Local Open Scope Z_scope.

(* ------------------------------------------------------------------------------------------------------------ *)
(* PART 1 *)

Definition cell := (Z * Z)%type.      (* (row id in Gen/GlobalCells.v, member of the family; 0 for a single cell) *)
Definition cell_eqb (a b : cell) : bool := Z.eqb (fst a) (fst b) && Z.eqb (snd a) (snd b).

Inductive cv := CI (z : Z) | CS (l : list Z).
Definition state := cell -> cv.
Definition upd (st : state) (c : cell) (v : cv) : state := fun c' => if cell_eqb c' c then v else st c'.

Inductive ev :=
| EAdd (c : cell) (d : Z)
| ESet (c : cell) (v : Z)
| EPush (c : cell) (v : Z)
| EPop (c : cell)
| ERead (c : cell).

Definition cell_of (e : ev) : cell := match e with EAdd c _ | ESet c _ | EPush c _ | EPop c | ERead c => c end.
Definition is_write (e : ev) : bool := match e with ERead _ => false | _ => true end.

(* one event on the value held by its cell *)
Definition apply1 (v : cv) (e : ev) : option cv :=
  match e with
  | EAdd _ d => match v with CI z => Some (CI (z + d)) | CS _ => None end
  | ESet _ w => Some (CI w)
  | EPush _ w => match v with CS l => Some (CS (w :: l)) | CI _ => None end
  | EPop _ => match v with CS (_ :: l) => Some (CS l) | _ => None end
  | ERead _ => Some v
  end.

Definition out1 (st : state) (e : ev) : list cv := match e with ERead c => [st c] | _ => [] end.

Definition exec1 (st : state) (e : ev) : option (state * list cv) :=
  match apply1 (st (cell_of e)) e with
  | None => None
  | Some v' => Some (upd st (cell_of e) v', out1 st e)
  end.

Fixpoint exec (st : state) (h : list ev) : option (state * list cv) :=
  match h with
  | [] => Some (st, [])
  | e :: h' =>
      match exec1 st e with
      | None => None
      | Some (st1, o1) => match exec st1 h' with None => None | Some (st2, o2) => Some (st2, o1 ++ o2) end
      end
  end.

(* the events of a history that concern one cell, replayed on that cell alone *)
Fixpoint replay (c : cell) (h : list ev) (v : cv) : option cv :=
  match h with
  | [] => Some v
  | e :: h' =>
      if cell_eqb (cell_of e) c
      then match apply1 v e with None => None | Some v' => replay c h' v' end
      else replay c h' v
  end.

Definition written (h : list ev) : list cell := map cell_of (filter is_write h).

(* a new document *)
Definition reset (R : cell -> bool) (init st : state) : state := fun c => if R c then init c else st c.
Definition process (R : cell -> bool) (init st : state) (h : list ev) : option (state * list cv) := exec (reset R init st) h.

Fixpoint run_seq (R : cell -> bool) (init st : state) (hs : list (list ev)) : option state :=
  match hs with
  | [] => Some st
  | h :: hs' => match process R init st h with None => None | Some (st', _) => run_seq R init st' hs' end
  end.

Definition result_alone (R : cell -> bool) (init : state) (h : list ev) : option (list cv) :=
  match process R init init h with None => None | Some (_, o) => Some o end.
Definition result_after (R : cell -> bool) (init : state) (hs : list (list ev)) (h : list ev) : option (list cv) :=
  match run_seq R init init hs with
  | None => None
  | Some st => match process R init st h with None => None | Some (_, o) => Some o end
  end.

(* SPEC *)
Definition independent (R : cell -> bool) (init : state) (hs : list (list ev)) : Prop :=
  forall B, result_after R init hs B = result_alone R init B.
Definition restored (R : cell -> bool) (init st : state) : Prop := forall c, R c = false -> st c = init c.

(* syntactic disciplines *)
Inductive balanced_int (c : cell) : list ev -> Prop :=
| bi_nil : balanced_int c []
| bi_other : forall e h, cell_eqb (cell_of e) c = false -> balanced_int c h -> balanced_int c (e :: h)
| bi_read : forall h, balanced_int c h -> balanced_int c (ERead c :: h)
| bi_app : forall h1 h2, balanced_int c h1 -> balanced_int c h2 -> balanced_int c (h1 ++ h2)
| bi_pair : forall d h, balanced_int c h -> balanced_int c (EAdd c d :: h ++ [EAdd c (- d)]).

Inductive balanced_stack (c : cell) : list ev -> Prop :=
| bs_nil : balanced_stack c []
| bs_other : forall e h, cell_eqb (cell_of e) c = false -> balanced_stack c h -> balanced_stack c (e :: h)
| bs_read : forall h, balanced_stack c h -> balanced_stack c (ERead c :: h)
| bs_app : forall h1 h2, balanced_stack c h1 -> balanced_stack c h2 -> balanced_stack c (h1 ++ h2)
| bs_pair : forall v h, balanced_stack c h -> balanced_stack c (EPush c v :: h ++ [EPop c]).

(* sum of the increments of a history that only adds to c *)
Fixpoint only_adds (c : cell) (h : list ev) : bool :=
  match h with
  | [] => true
  | e :: h' => (if cell_eqb (cell_of e) c then match e with EAdd _ _ | ERead _ => true | _ => false end else true) && only_adds c h'
  end.
Fixpoint sum_adds (c : cell) (h : list ev) : Z :=
  match h with
  | [] => 0
  | e :: h' => (if cell_eqb (cell_of e) c then match e with EAdd _ d => d | _ => 0 end else 0) + sum_adds c h'
  end.

(* ------------------------------------------------------------------------------------------------------------ *)
(* PART 2 *)

Record cells := { k_level : cell; k_enabled : cell; k_depth : cell; k_inenv : cell; k_dmb : cell; k_dme : cell }.

Inductive tok :=
| TChar                                (* anything that writes no cell *)
| TShift                               (* $ *)
| TBoxOpen | TBoxClose                 (* \mbox{ ... } : BoxCommand.parse *)
| TListBegin | TListEnd | TItem        (* \begin{itemize} \end{itemize} \item *)
| TMacro (n : nat)                     (* a macro reading n arguments *)
| TParam (c : cell) (v : Z)            (* \parindent=5pt : ParameterCommand.invoke *)
| TSetlen (c : cell) (v : Z)           (* \setlength{\parskip}{3pt} *)
| TPatch (c : cell) (v : Z)            (* attribute assignment on a shared class (document class / package) *)
| TRead (c : cell)                     (* the result of the document depends on the cell *)
| TIfthen.                             (* \ifthenelse{..}{..}{..} *)

Definition zge0 (z : Z) : Z := if 0 <=? z then 1 else 0.
Definition getI (v : cv) : Z := match v with CI z => z | CS _ => 0 end.
Definition getS (v : cv) : list Z := match v with CS l => l | CI _ => [] end.

(* readArgumentAndSource: ParameterCommand.disable() ... ParameterCommand.enable(); l is _enablelevel before the call *)
Definition ev_arg (K : cells) (l : Z) : list ev :=
  [EAdd (k_level K) (-1); ESet (k_enabled K) (zge0 (l - 1)); EAdd (k_level K) 1; ESet (k_enabled K) (zge0 l)].
Fixpoint ev_args (K : cells) (l : Z) (n : nat) : list ev :=
  match n with O => [] | S n' => ev_arg K l ++ ev_args K l n' end.

Definition top_is (k : Z) (env : list Z) : bool := match env with x :: _ => Z.eqb x k | [] => false end.

(* MathShift.invoke.  next: the following token is a math shift.  Returns the events and whether that token is consumed. *)
Definition ev_mathshift (K : cells) (env : list Z) (next : bool) : list ev * bool :=
  let '(cur, consumed) :=
    if next then (if top_is 1 env then (1, false) else (2, true)) else (1, false) in
  if top_is cur env then ([EPop (k_inenv K)], consumed) else ([EPush (k_inenv K) cur], consumed).

Definition tok_events (K : cells) (st : state) (t : tok) (next : bool) : list ev * bool :=
  let l := getI (st (k_level K)) in
  match t with
  | TChar => ([], false)
  | TShift => ev_mathshift K (getS (st (k_inenv K))) next
  | TBoxOpen => ([EPush (k_inenv K) 0; EAdd (k_level K) (-1); ESet (k_enabled K) (zge0 (l - 1))], false)
  | TBoxClose => ([EAdd (k_level K) 1; ESet (k_enabled K) (zge0 (l + 1)); EPop (k_inenv K)], false)
  | TListBegin => ([EAdd (k_depth K) 1], false)
  | TListEnd => ([EAdd (k_depth K) (-1)], false)
  | TItem => ([ERead (k_depth K)], false)
  | TMacro n => (ev_args K l n, false)
  | TParam c v =>
      if Z.eqb (getI (st (k_enabled K))) 0 then ([], false)
      else (ESet (k_enabled K) 0 :: ev_args K l 2 ++ [ESet c v; ESet (k_enabled K) 1], false)
  | TSetlen c v => (ev_args K l 2 ++ [ESet c v], false)
  | TPatch c v => ([ESet c v], false)
  | TRead c => ([ERead c], false)
  | TIfthen => ([ESet (k_dmb K) 1; ESet (k_dme K) 1] ++ ev_args K l 3 ++ [ESet (k_dmb K) 0; ESet (k_dme K) 0], false)
  end.

(* the input ends while ob boxes are still reading their argument: every readArgumentAndSource returns (enable), every
   BoxCommand.parse pops; l is _enablelevel at that moment *)
Fixpoint eof_events (K : cells) (l : Z) (ob : nat) : list ev :=
  match ob with
  | O => []
  | S n => [EAdd (k_level K) 1; ESet (k_enabled K) (zge0 (l + 1)); EPop (k_inenv K)] ++ eof_events K (l + 1) n
  end.

Definition next_is_shift (ts : list tok) : bool := match ts with TShift :: _ => true | _ => false end.
Definition boxes_after (t : tok) (ob : nat) : nat := match t with TBoxOpen => S ob | TBoxClose => pred ob | _ => ob end.

Definition res := option (state * list ev * list cv).
Definition pre (h : list ev) (o : list cv) (r : res) : res :=
  match r with None => None | Some (s, h2, o2) => Some (s, h ++ h2, o ++ o2) end.

(* the whole input.  ob: boxes whose argument is being read (their pop runs when the input ends); skip: this token was consumed
   by the look-ahead of the previous $ *)
Fixpoint run_toks (K : cells) (st : state) (ts : list tok) (ob : nat) (skip : bool) : res :=
  match ts with
  | [] => let h := eof_events K (getI (st (k_level K))) ob in
          match exec st h with None => None | Some (s, o) => Some (s, h, o) end
  | t :: ts' =>
      if skip then run_toks K st ts' ob false
      else
        let '(evs, consumed) := tok_events K st t (next_is_shift ts') in
        match exec st evs with
        | None => None
        | Some (st', o) => pre evs o (run_toks K st' ts' (boxes_after t ob) consumed)
        end
  end.

(* well-formed documents (NF-doc): every list, formula and box closed; formulas not empty *)
Inductive doc :=
| DNil
| DChar (r : doc)
| DMacro (n : nat) (r : doc)
| DParam (c : cell) (v : Z) (r : doc)
| DSetlen (c : cell) (v : Z) (r : doc)
| DPatch (c : cell) (v : Z) (r : doc)
| DRead (c : cell) (r : doc)
| DIfthen (r : doc)
| DList (body : doc) (r : doc)             (* \begin{itemize} \item ... \end{itemize} *)
| DMath (body : mdoc) (r : doc)            (* $ ... $ *)
| DDisplay (body : mdoc) (r : doc)         (* $$ ... $$ *)
with mdoc :=
| MEnd
| MSym (r : mdoc)
| MBox (body : doc) (r : mdoc).            (* \mbox{ text } inside a formula *)

Fixpoint pr_doc (d : doc) : list tok :=
  match d with
  | DNil => []
  | DChar r => TChar :: pr_doc r
  | DMacro n r => TMacro n :: pr_doc r
  | DParam c v r => TParam c v :: pr_doc r
  | DSetlen c v r => TSetlen c v :: pr_doc r
  | DPatch c v r => TPatch c v :: pr_doc r
  | DRead c r => TRead c :: pr_doc r
  | DIfthen r => TIfthen :: pr_doc r
  | DList b r => TListBegin :: TItem :: pr_doc b ++ TListEnd :: pr_doc r
  | DMath b r => TShift :: pr_mdoc b ++ TShift :: pr_doc r
  | DDisplay b r => TShift :: TShift :: pr_mdoc b ++ TShift :: TShift :: pr_doc r
  end
with pr_mdoc (m : mdoc) : list tok :=
  match m with
  | MEnd => []
  | MSym r => TChar :: pr_mdoc r
  | MBox b r => TBoxOpen :: pr_doc b ++ TBoxClose :: pr_mdoc r
  end.

Definition mnonempty (m : mdoc) : bool := match m with MEnd => false | _ => true end.

(* formulas are not empty; the cells written by the document are none of the trackers *)
Definition is_tracker (K : cells) (c : cell) : bool :=
  cell_eqb c (k_level K) || cell_eqb c (k_enabled K) || cell_eqb c (k_depth K) || cell_eqb c (k_inenv K)
  || cell_eqb c (k_dmb K) || cell_eqb c (k_dme K).

Fixpoint wf_doc (K : cells) (d : doc) : bool :=
  match d with
  | DNil => true
  | DChar r | DMacro _ r | DIfthen r => wf_doc K r
  | DParam c _ r | DSetlen c _ r | DPatch c _ r => negb (is_tracker K c) && wf_doc K r
  | DRead _ r => wf_doc K r
  | DList b r => wf_doc K b && wf_doc K r
  | DMath b r | DDisplay b r => mnonempty b && wf_mdoc K b && wf_doc K r
  end
with wf_mdoc (K : cells) (m : mdoc) : bool :=
  match m with
  | MEnd => true
  | MSym r => wf_mdoc K r
  | MBox b r => wf_doc K b && wf_mdoc K r
  end.

(* the six tracker cells are pairwise different *)
Definition cells_distinct (K : cells) : bool :=
  let l := [k_level K; k_enabled K; k_depth K; k_inenv K; k_dmb K; k_dme K] in
  (fix nodup (l : list cell) : bool :=
     match l with [] => true | x :: r => negb (existsb (cell_eqb x) r) && nodup r end) l.

(* processing one document given as tokens, in an interpreter whose cells are st *)
Definition process_toks (K : cells) (R : cell -> bool) (init st : state) (ts : list tok) : res :=
  run_toks K (reset R init st) ts 0 false.

Fixpoint run_docs (K : cells) (R : cell -> bool) (init st : state) (ds : list (list tok)) : option state :=
  match ds with
  | [] => Some st
  | ts :: ds' => match process_toks K R init st ts with None => None | Some (st', _, _) => run_docs K R init st' ds' end
  end.

Definition toks_alone (K : cells) (R : cell -> bool) (init : state) (ts : list tok) : option (list cv) :=
  match process_toks K R init init ts with None => None | Some (_, _, o) => Some o end.
Definition toks_after (K : cells) (R : cell -> bool) (init : state) (ds : list (list tok)) (ts : list tok) : option (list cv) :=
  match run_docs K R init init ds with
  | None => None
  | Some st => match process_toks K R init st ts with None => None | Some (_, _, o) => Some o end
  end.

(* ------------------------------------------------------------------------------------------------------------ *)
(* The regenerated cell table *)

Definition row_id (r : Z * Z * Z * Z * list Z) : Z := match r with (i, _, _, _, _) => i end.
Definition row_kind (r : Z * Z * Z * Z * list Z) : Z := match r with (_, k, _, _, _) => k end.
Definition row_iso (r : Z * Z * Z * Z * list Z) : Z := match r with (_, _, s, _, _) => s end.
Definition row_known (r : Z * Z * Z * Z * list Z) : Z := match r with (_, _, _, n, _) => n end.

Fixpoint find_row (i : Z) (rows : list (Z * Z * Z * Z * list Z)) : option (Z * Z * Z * Z * list Z) :=
  match rows with [] => None | r :: rs => if Z.eqb (row_id r) i then Some r else find_row i rs end.

(* isolation 1 (reset in Context.__init__) and 2 (owning class re-created per document): the cell starts every document with its
   initial value *)
Definition gen_R (c : cell) : bool :=
  match find_row (fst c) gen_cells with
  | Some r => Z.eqb (row_iso r) 1 || Z.eqb (row_iso r) 2
  | None => false
  end.

(* a row is accounted for when something isolates it or it is a recorded leak *)
Definition row_accounted (r : Z * Z * Z * Z * list Z) : bool := negb (Z.eqb (row_iso r) 0) || Z.eqb (row_known r) 1.
Definition gen_accounted : bool := forallb row_accounted gen_cells.
Fixpoint ids_increasing (prev : Z) (rows : list (Z * Z * Z * Z * list Z)) : bool :=
  match rows with [] => true | r :: rs => (prev <? row_id r) && ids_increasing (row_id r) rs end.

(* ------------------------------------------------------------------------------------------------------------ *)
(* Wire.
   case   = VL [ VL trackers(6 cells) ; VL inits ; VL docs ; doc ]        the last doc is B
   cell   = VL [VI row; VI member]
   inits  = VL [ VL [cell; value] ... ]          value = VI z (int cell) | VL [z...] (list cell); other cells start as CI 0
   doc    = VL [ tok ... ]
   tok    = VI 0 TChar | VI 1 TShift | VI 2 TBoxOpen | VI 3 TBoxClose | VI 4 TListBegin | VI 5 TListEnd | VI 6 TItem | VI 7 TIfthen
          | VL [VI 8; n] TMacro | VL [VI 9; cell; v] TParam | VL [VI 10; cell; v] TSetlen | VL [VI 11; cell; v] TPatch | VL [VI 12; cell] TRead
   answer = VL [ VI 0 ; VL per-document [VL [cell; value-after] for every cell of inits]  (documents of the sequence, B last; raw, before the next reset)
                ; VL leaking cells (cells of inits with gen_R false whose value after the sequence As differs from the initial one)
                ; VL outputs of B after As ; VL outputs of B alone ]
          | VL [VI (-2); VI k]     document k (0-based, B = number of As) raises
*)

Definition dec_cell (v : val) : option cell :=
  match v with VL [VI a; VI b] => Some (a, b) | _ => None end.
Definition dec_cv (v : val) : option cv :=
  match v with VI z => Some (CI z) | VL _ => match getZs v with Some l => Some (CS l) | None => None end end.
Definition enc_cell (c : cell) : val := VL [VI (fst c); VI (snd c)].
Definition enc_cv (v : cv) : val := match v with CI z => VI z | CS l => ofZs l end.
Definition cv_eqb (a b : cv) : bool :=
  match a, b with
  | CI x, CI y => Z.eqb x y
  | CS x, CS y => val_eqb (ofZs x) (ofZs y)
  | _, _ => false
  end.

Definition dec_tok (v : val) : option tok :=
  match v with
  | VI 0 => Some TChar | VI 1 => Some TShift | VI 2 => Some TBoxOpen | VI 3 => Some TBoxClose
  | VI 4 => Some TListBegin | VI 5 => Some TListEnd | VI 6 => Some TItem | VI 7 => Some TIfthen
  | VL [VI 8; VI n] => if n <? 0 then None else Some (TMacro (Z.to_nat n))
  | VL [VI 9; c; VI x] => match dec_cell c with Some c' => Some (TParam c' x) | None => None end
  | VL [VI 10; c; VI x] => match dec_cell c with Some c' => Some (TSetlen c' x) | None => None end
  | VL [VI 11; c; VI x] => match dec_cell c with Some c' => Some (TPatch c' x) | None => None end
  | VL [VI 12; c] => match dec_cell c with Some c' => Some (TRead c') | None => None end
  | _ => None
  end.
Definition dec_doc (v : val) : option (list tok) := match v with VL l => mapM dec_tok l | _ => None end.

Definition dec_init (v : val) : option (cell * cv) :=
  match v with
  | VL [c; x] => match dec_cell c, dec_cv x with Some c', Some x' => Some (c', x') | _, _ => None end
  | _ => None
  end.

Fixpoint mk_init (l : list (cell * cv)) : state :=
  match l with [] => (fun _ => CI 0) | (c, v) :: r => upd (mk_init r) c v end.

Definition dump (st : state) (cs : list cell) : val := VL (map (fun c => VL [enc_cell c; enc_cv (st c)]) cs).

(* run the documents one after the other, keeping the raw state after each *)
Fixpoint run_dump (K : cells) (R : cell -> bool) (init st : state) (cs : list cell) (ds : list (list tok)) (k : Z)
  : (list val * option state) + Z :=
  match ds with
  | [] => inl ([], Some st)
  | ts :: ds' =>
      match process_toks K R init st ts with
      | None => inr k
      | Some (st', _, _) =>
          match run_dump K R init st' cs ds' (k + 1) with
          | inl (l, s) => inl (dump st' cs :: l, s)
          | inr j => inr j
          end
      end
  end.

Definition run_case (v : val) : val :=
  match v with
  | VL [VL [c1; c2; c3; c4; c5; c6]; VL inits; VL docs; b] =>
      match dec_cell c1, dec_cell c2, dec_cell c3, dec_cell c4, dec_cell c5, dec_cell c6, mapM dec_init inits, mapM dec_doc docs, dec_doc b with
      | Some k1, Some k2, Some k3, Some k4, Some k5, Some k6, Some il, Some ds, Some bt =>
          let K := {| k_level := k1; k_enabled := k2; k_depth := k3; k_inenv := k4; k_dmb := k5; k_dme := k6 |} in
          let init := mk_init il in
          let cs := map fst il in
          match run_dump K gen_R init init cs ds 0 with
          | inr k => v_crash k
          | inl (dumps, None) => v_bad_input
          | inl (dumps, Some st) =>
              let leaks := filter (fun c => negb (gen_R c) && negb (cv_eqb (st c) (init c))) cs in
              match process_toks K gen_R init st bt, process_toks K gen_R init init bt with
              | Some (stb, _, o_after), Some (_, _, o_alone) =>
                  VL [VI 0; VL (dumps ++ [dump stb cs]); VL (map enc_cell leaks); VL (map enc_cv o_after); VL (map enc_cv o_alone)]
              | _, _ => v_crash (Z.of_nat (length ds))
              end
          end
      | _, _, _, _, _, _, _, _, _ => v_bad_input
      end
  | _ => v_bad_input
  end.
