(* C07 -- Model of plasTeX's digestion protocol, following the Python line by line.

   Mirrors (HEAD of /repo):
     TeX.parse + bufferediter                      (plasTeX/TeX.py)            -> [parse_top], [st], [next], [push]
     Macro.digest (pass), par.digest, egroup.digest                             -> KLeaf
     Environment.digest                           (plasTeX/__init__.py)        -> [env_loop], KEnv
     Macro.digestUntil                                                          -> [until_loop]
     Macro.paragraphs                                                           -> [paragraphs]
     Node.normalize / appendText, NoCharSubEnvironment.normalize, verb.normalize -> [normalize]
     SectionUtils.digest                          (Base/LaTeX/Sectioning.py)   -> [sec_loop], KSec
     bgroup.digest                                (Base/TeX/Text.py)           -> [bg_loop], KBgroup
     List.digest, List.item.digest                (Base/LaTeX/Lists.py)        -> [skip_loop], KList, KItem
     Array.digest (+ applyBorders' removal of border-only rows), ArrayRow.digest, ArrayCell.digest (Base/LaTeX/Arrays.py)
     verb.digest                                  (Base/LaTeX/Verbatim.py)     -> [verb_loop], KVerb

   The token stream is the bufferediter: a push-back stack [s_buf] in front of the expander's output [s_rest].
   [s_mm] is context.isMathMode as it stands when a digest method looks at it: the expander is lazy, so it is the
   value right after the last item that was pulled from the expander itself (not from the push-back stack).
   [s_log] is ghost state (nothing in the Python corresponds to it): every item that a digest method consumes without
   putting it into the tree is recorded there with the reason, so that "nothing but structural markers is dropped"
   can be stated.  Every loop of the Python is a function on explicit fuel; [OutOfFuel] is a distinguished outcome
   and Proofs/DigestProofs.v shows the fuel used by [parse_doc] always suffices.  No proofs here. *)
From Coq Require Import List ZArith Bool.
Import ListNotations.
From Verif Require Import Val DigestSpec.
Local Open Scope Z_scope.

Inductive outcome (A : Type) := Done (a : A) | OutOfFuel | Crashed (k : Z).
Arguments Done {A} a.
Arguments OutOfFuel {A}.
Arguments Crashed {A} k.

(* ---- the buffered token stream ------------------------------------------------------------------- *)

Record st := mkSt { s_buf : list tree; s_rest : list tree; s_mm : bool; s_log : list (Z * tree); s_ev : list (Z * tree) }.

Definition next (s : st) : option (tree * st) :=
  match s_buf s with
  | t :: b => Some (t, mkSt b (s_rest s) (s_mm s) (s_log s) (s_ev s))
  | [] =>
      match s_rest s with
      | t :: r => Some (t, mkSt [] r (h_mm (hd_of t)) (s_log s) (s_ev s))
      | [] => None
      end
  end.

Definition push (t : tree) (s : st) : st := mkSt (t :: s_buf s) (s_rest s) (s_mm s) (s_log s) (s_ev s).
Definition logd (k : Z) (t : tree) (s : st) : st := mkSt (s_buf s) (s_rest s) (s_mm s) ((k, t) :: s_log s) (s_ev s).
Definition logds (k : Z) (ts : list tree) (s : st) : st := fold_left (fun s t => logd k t s) ts s.

(* a second ghost list: events that are not drops.  They mark the two situations in which a sectioning node is handled
   in a way the sectioning clause of the property does not cover (NF-doc: sectioning commands only at the top level of the
   document body): a sectioning item met inside digestUntil (list item, table row, table cell), and a sectioning node that
   is pushed back after it has been digested.  Nothing is done with these marks except stating theorems. *)
Definition evd (k : Z) (t : tree) (s : st) : st := mkSt (s_buf s) (s_rest s) (s_mm s) (s_log s) ((k, t) :: s_ev s).
Definition low (l : Z) : bool := (DOC_LEVEL <? l) && (l <? PAR_LEVEL).
Definition ev_if (b : bool) (k : Z) (t : tree) (s : st) : st := if b then evd k t s else s.
Definition E_NESTEDSEC : Z := 1.
Definition E_REPUSH : Z := 2.

(* reasons in the ghost log *)
Definition R_END : Z := 1.        (* \end{x} / closing $ matching the environment being digested *)
Definition R_WS : Z := 2.         (* whitespace in front of the first \item / of an item's content *)
Definition R_SETCOUNTER : Z := 3. (* \setcounter in front of the first \item *)
Definition R_ENDROW : Z := 4.     (* \\ ending an ArrayRow (kept as row.endToken, not in the tree) *)
Definition R_CELLDELIM : Z := 5.  (* & ending an ArrayCell (kept as cell.endToken) *)
Definition R_VERBOPEN : Z := 6.   (* the delimiter after \verb *)
Definition R_VERBCLOSE : Z := 7.
Definition R_EMPTYPAR : Z := 8.   (* paragraph with no content / only whitespace, filtered by Macro.paragraphs *)
Definition R_BORDERROW : Z := 9.  (* table row consisting of rules and whitespace only, popped by Array.applyBorders *)
Definition R_EGROUP : Z := 10.    (* } / \endgroup closing the group being digested *)

(* ---- small observers ------------------------------------------------------------------------------ *)

Definition depth (t : tree) : Z := h_depth (hd_of t).
Definition is_block (t : tree) : bool := match t with Text _ _ => false | Node h _ => h_block h end.

(* isElementContentWhitespace: tokens and text nodes carry it in the head (merged text: computed when created);
   \par: "has no child nodes"; every other element: False *)
Definition is_ws (t : tree) : bool :=
  match t with Text h _ => h_ws h | Node h ch => h_wsk h && isnil ch end.

(* str.strip() leaves nothing: Python's Unicode whitespace *)
Definition is_space (c : Z) : bool :=
  ((9 <=? c) && (c <=? 13)) || ((28 <=? c) && (c <=? 32)) || (c =? 133) || (c =? 160) || (c =? 5760)
  || ((8192 <=? c) && (c <=? 8202)) || (c =? 8232) || (c =? 8233) || (c =? 8239) || (c =? 8287) || (c =? 12288).

Definition text_head (ws : bool) : head :=
  mkHead KText (-1) CHAR_LEVEL 0 0 false false ws false false (-1) false false false false false false false (-1) false [].

Definition mk_text (s : list Z) : tree := Text (text_head (forallb is_space s)) s.

Definition par_head (name : Z) (block : bool) : head :=
  mkHead KLeaf name PAR_LEVEL 1000 0 block false false true false (-2) false false false false false false false (-1) false [].

Fixpoint list_eqb (a b : list Z) : bool :=
  match a, b with
  | [], [] => true
  | x :: a', y :: b' => (x =? y) && list_eqb a' b'
  | _, _ => false
  end.

(* Token.__eq__: same category code and same string; an element is only equal to itself *)
Definition tok_eq (a b : tree) : bool :=
  match a, b with
  | Text ha sa, Text hb sb => (h_cat ha =? h_cat hb) && list_eqb sa sb
  | _, _ => false
  end.

(* ---- Node.normalize / appendText -------------------------------------------------------------------- *)

Definition flush (subs : list (list Z * list Z)) (pend : option (list Z)) : list tree :=
  match pend with None => [] | Some v => [mk_text (subst_all subs v)] end.

Definition pend_app (pend : option (list Z)) (s : list Z) : option (list Z) :=
  match pend with None => Some s | Some v => Some (v ++ s) end.

Fixpoint normalize (subs : list (list Z * list Z)) (t : tree) : tree :=
  match t with
  | Text _ _ => t                                    (* CharacterData.normalize: pass *)
  | Node h ch =>
      let subs' := if h_nosub h then [] else subs in   (* NoCharSubEnvironment.normalize / verb.normalize: charsubs=None *)
      Node h ((fix go (l : list tree) (pend : option (list Z)) : list tree :=
                 match l with
                 | [] => flush subs' pend
                 | Text _ s :: l' => go l' (pend_app pend s)
                 | (Node _ _ as c) :: l' => flush subs' pend ++ normalize subs' c :: go l' None
                 end) ch None)
  end.

(* ---- Macro.paragraphs ------------------------------------------------------------------------------- *)

Fixpoint find_parname (ch : list tree) : option Z :=
  match ch with
  | [] => None
  | c :: ch' => if level c =? PAR_LEVEL then Some (h_name (hd_of c)) else find_parname ch'
  end.

Definition add_child (p c : tree) : tree :=
  match p with Node h ch => Node h (ch ++ [c]) | Text _ _ => p end.   (* a PAR_LEVEL item is never a text node: level (Text) = 1001 *)

(* the "while self: item = self.pop(0)" loop; [acc] is newnodes reversed (its head is newnodes[-1]) *)
Fixpoint group (parname : Z) (ch : list tree) (acc : list tree) : list tree * list tree :=
  match ch with
  | [] => (rev acc, [])
  | item :: ch' =>
      if level item =? PAR_LEVEL then group parname ch' (item :: acc)
      else if level item <? PAR_LEVEL then (rev (item :: acc), ch')
      else if is_block item then
        group parname ch' (Node (par_head parname false) [] :: Node (par_head parname true) [item] :: acc)
      else
        match acc with
        | last :: acc' => group parname ch' (add_child last item :: acc')
        | [] => group parname ch' [item]      (* unreachable: newnodes starts as [par] *)
        end
  end.

Definition drop_par (t : tree) : bool :=
  (level t =? PAR_LEVEL) &&
  match t with Node _ [] => true | Node _ [c] => is_ws c | _ => false end.

(* returns the new child list and the paragraphs that were filtered out *)
Definition paragraphs (subs : list (list Z * list Z)) (parname0 : Z) (mm : bool) (force : bool) (h : head) (ch : list tree)
  : list tree * list tree :=
  let cs := if mm then [] else subs in
  match find_parname ch, force with
  | None, false => (children (normalize cs (Node h ch)), [])
  | pn, _ =>
      let parname := match pn with Some n => n | None => parname0 end in
      let '(newnodes, remaining) := group parname ch [Node (par_head parname false) []] in
      let newnodes' := map (fun t => if level t =? PAR_LEVEL then normalize cs t else t) newnodes in
      let all := newnodes' ++ remaining in
      (filter (fun t => negb (drop_par t)) all, filter drop_par all)
  end.

Definition do_paragraphs (subs : list (list Z * list Z)) (parname0 : Z) (force : bool) (h : head) (ch : list tree) (s : st)
  : tree * st :=
  let '(ch', dropped) := paragraphs subs parname0 (s_mm s) force h ch in
  (Node h ch', logds R_EMPTYPAR dropped s).

(* ---- Array.applyBorders: rows that only carry rules are popped ---------------------------------------- *)

(* iterating a node: its children; iterating a non-empty text yields str objects, on which the attribute lookup raises *)
Definition kids (t : tree) : option (list tree) :=
  match t with Text _ [] => Some [] | Text _ _ => None | Node _ ch => Some ch end.

Definition item_border (t : tree) : bool := is_ws t || match t with Node h _ => h_bd h | Text _ _ => false end.

(* Some true: border only; Some false: has content; None: AttributeError *)
Definition border_items (l : list tree) : bool := forallb item_border l.

Fixpoint border_pars (pars : list tree) : option bool :=
  match pars with
  | [] => Some true
  | p :: pars' =>
      match kids p with
      | None => None
      | Some items => if border_items items then border_pars pars' else Some false
      end
  end.

Fixpoint border_cells (cells : list tree) : option bool :=
  match cells with
  | [] => Some true
  | c :: cells' =>
      match kids c with
      | None => None
      | Some pars =>
          match border_pars pars with
          | Some true => border_cells cells'
          | r => r
          end
      end
  end.

Definition is_row (t : tree) : bool := match t with Node h _ => h_rw h | Text _ _ => false end.

(* returns kept rows and dropped rows, or None when isBorderOnly raises *)
Fixpoint drop_border_rows (rows : list tree) : option (list tree * list tree) :=
  match rows with
  | [] => Some ([], [])
  | r :: rows' =>
      if is_row r then
        match border_cells (children r), drop_border_rows rows' with
        | Some true, Some (k, d) => Some (k, r :: d)
        | Some false, Some (k, d) => Some (r :: k, d)
        | _, _ => None
        end
      else
        match drop_border_rows rows' with
        | Some (k, d) => Some (r :: k, d)
        | None => None
        end
  end.

(* ---- the digest methods ---------------------------------------------------------------------------- *)

Inductive until_sel := UItem | URow | UCell.
Definition endp (sel : until_sel) (t : tree) : bool :=
  match t with
  | Text _ _ => false
  | Node h _ => match sel with UItem => h_li h | URow => h_er h | UCell => h_cd h || h_er h end
  end.

Section Digest.
  Context (subs : list (list Z * list Z)) (parname0 : Z).

  (* "for tok in tokens: if tok.isElementContentWhitespace: continue; [elif setcounter: continue;] push; break" *)
  Fixpoint skip_loop (f : nat) (setc : bool) (s : st) : outcome st :=
    match f with
    | O => OutOfFuel
    | S f' =>
        match next s with
        | None => Done s
        | Some (t, s1) =>
            if is_ws t then skip_loop f' setc (logd R_WS t s1)
            else if setc && match t with Node h _ => h_sc h | Text _ _ => false end then skip_loop f' setc (logd R_SETCOUNTER t s1)
            else Done (push t s1)
        end
    end.

  (* verb.digest: "for tok in tokens: if tok == endpattern: break; self.appendChild(tok)" *)
  Fixpoint verb_loop (f : nat) (e : tree) (ch : list tree) (s : st) : outcome (list tree * st) :=
    match f with
    | O => OutOfFuel
    | S f' =>
        match next s with
        | None => Done (ch, s)
        | Some (t, s1) =>
            if tok_eq t e then Done (ch, logd R_VERBCLOSE t s1)
            else verb_loop f' e (ch ++ [t]) s1
        end
    end.

  Fixpoint digest (f : nat) (n : tree) (s : st) {struct f} : outcome (tree * st) :=
    match f with
    | O => OutOfFuel
    | S f' =>
        match n with
        | Text _ _ => Done (n, s)
        | Node h ch =>
            match h_kind h with
            | KText | KLeaf => Done (n, s)                       (* Macro.digest: pass *)
            | KUnknown => Crashed 9
            | KEnv => digest_env f' h ch s
            | KArray =>
                match digest_env f' h ch s with
                | Done (Node h' ch', s1) =>
                    match drop_border_rows ch' with
                    | Some (k, d) => Done (Node h' k, logds R_BORDERROW d s1)
                    | None => Crashed 2
                    end
                | r => r
                end
            | KList =>
                if h_mode h =? 2 then digest_env f' h ch s
                else match skip_loop f' true s with
                     | Done s1 => digest_env f' h ch s1
                     | OutOfFuel => OutOfFuel
                     | Crashed k => Crashed k
                     end
            | KSec =>
                match sec_loop f' h ch s with
                | Done (ch', s1) => Done (do_paragraphs subs parname0 true h ch' s1)
                | OutOfFuel => OutOfFuel
                | Crashed k => Crashed k
                end
            | KBgroup =>
                match bg_loop f' h ch s with
                | Done (ch', s1) => Done (do_paragraphs subs parname0 false h ch' s1)
                | OutOfFuel => OutOfFuel
                | Crashed k => Crashed k
                end
            | KItem =>
                match skip_loop f' false s with
                | Done s1 =>
                    match until_loop f' UItem h ch s1 with
                    | Done (ch', _, s2) =>
                        if h_force h then Done (do_paragraphs subs parname0 true h ch' s2) else Done (Node h ch', s2)
                    | OutOfFuel => OutOfFuel
                    | Crashed k => Crashed k
                    end
                | OutOfFuel => OutOfFuel
                | Crashed k => Crashed k
                end
            | KRow =>
                match until_loop f' URow h ch s with
                | Done (ch', Some e, s1) =>
                    (* next(tokens); self.endToken.digest(tokens) -- the end token stays outside the tree *)
                    match next s1 with
                    | Some (x, s2) =>
                        match digest f' x s2 with
                        | Done (x', s3) => Done (Node h ch', logd R_ENDROW x' s3)
                        | OutOfFuel => OutOfFuel
                        | Crashed k => Crashed k
                        end
                    | None => Crashed 3
                    end
                | Done (ch', None, s1) => Done (Node h ch', s1)
                | OutOfFuel => OutOfFuel
                | Crashed k => Crashed k
                end
            | KCell =>
                match until_loop f' UCell h ch s with
                | Done (ch', e, s1) =>
                    let after :=
                      match e with
                      | Some (Node he _) =>
                          if h_cd he then
                            match next s1 with
                            | Some (x, s2) =>
                                match digest f' x s2 with
                                | Done (x', s3) => Done (logd R_CELLDELIM x' s3)
                                | OutOfFuel => OutOfFuel
                                | Crashed k => Crashed k
                                end
                            | None => Crashed 3
                            end
                          else Done s1
                      | _ => Done s1
                      end in
                    match after with
                    | Done s4 => Done (do_paragraphs subs parname0 true h ch' s4)
                    | OutOfFuel => OutOfFuel
                    | Crashed k => Crashed k
                    end
                | OutOfFuel => OutOfFuel
                | Crashed k => Crashed k
                end
            | KVerb =>
                match next s with
                | None => Crashed 1                               (* next(iter(tokens)) raises StopIteration *)
                | Some (e, s1) =>
                    match verb_loop f' e ch (logd R_VERBOPEN e s1) with
                    | Done (ch', s2) => Done (Node h ch', s2)
                    | OutOfFuel => OutOfFuel
                    | Crashed k => Crashed k
                    end
                end
            end
        end
    end

  (* Environment.digest *)
  with digest_env (f : nat) (h : head) (ch : list tree) (s : st) {struct f} : outcome (tree * st) :=
    match f with
    | O => OutOfFuel
    | S f' =>
        if h_mode h =? 2 then Done (Node h ch, s)
        else
          match env_loop f' h ch (h_force h) s with
          | Done (ch', dopars, s1) =>
              if dopars then Done (do_paragraphs subs parname0 true h ch' s1) else Done (Node h ch', s1)
          | OutOfFuel => OutOfFuel
          | Crashed k => Crashed k
          end
    end

  with env_loop (f : nat) (h : head) (ch : list tree) (dopars : bool) (s : st) {struct f} : outcome (list tree * bool * st) :=
    match f with
    | O => OutOfFuel
    | S f' =>
        match next s with
        | None => Done (ch, dopars, s)
        | Some (t, s1) =>
            if level t =? PAR_LEVEL then env_loop f' h (ch ++ [t]) true s1
            else if level t <? h_level h then Done (ch, dopars, push t s1)
            else if is_elem t && (h_mode (hd_of t) =? 2) && (h_typ (hd_of t) =? h_typ h) then Done (ch, dopars, logd R_END t s1)
            else
              match (if is_elem t then digest f' t s1 else Done (t, s1)) with
              | Done (t', s2) =>
                  if (DOC_LEVEL <? h_level h) && (depth t' <? h_depth h)
                  then Done (ch, dopars, push t' (ev_if (low (level t')) E_REPUSH t' s2))
                  else env_loop f' h (ch ++ [t']) dopars s2
              | OutOfFuel => OutOfFuel
              | Crashed k => Crashed k
              end
        end
    end

  (* SectionUtils.digest *)
  with sec_loop (f : nat) (h : head) (ch : list tree) (s : st) {struct f} : outcome (list tree * st) :=
    match f with
    | O => OutOfFuel
    | S f' =>
        match next s with
        | None => Done (ch, s)
        | Some (t, s1) =>
            if level t <=? h_level h then Done (ch, push t s1)
            else
              match (if is_elem t then digest f' t s1 else Done (t, s1)) with
              | Done (t', s2) => sec_loop f' h (ch ++ [t']) s2
              | OutOfFuel => OutOfFuel
              | Crashed k => Crashed k
              end
        end
    end

  (* bgroup.digest *)
  with bg_loop (f : nat) (h : head) (ch : list tree) (s : st) {struct f} : outcome (list tree * st) :=
    match f with
    | O => OutOfFuel
    | S f' =>
        match next s with
        | None => Done (ch, s)
        | Some (t, s1) =>
            match t with
            | Text _ _ => bg_loop f' h (ch ++ [t]) s1
            | Node ht _ =>
                if h_level ht <? ENDSECTIONS_LEVEL then Done (ch, push t s1)
                else if h_eg ht then Done (ch, logd R_EGROUP t s1)
                else if h_depth ht <? h_depth h then Done (ch, push t s1)
                else
                  match digest f' t s1 with
                  | Done (t', s2) => bg_loop f' h (ch ++ [t']) s2
                  | OutOfFuel => OutOfFuel
                  | Crashed k => Crashed k
                  end
            end
        end
    end

  (* Macro.digestUntil *)
  with until_loop (f : nat) (sel : until_sel) (h : head) (ch : list tree) (s : st) {struct f}
    : outcome (list tree * option tree * st) :=
    match f with
    | O => OutOfFuel
    | S f' =>
        match next s with
        | None => Done (ch, None, s)
        | Some (t, s1) =>
            if endp sel t then Done (ch, Some t, push t s1)
            else
              match (if is_elem t then digest f' t (ev_if (low (level t)) E_NESTEDSEC t s1) else Done (t, s1)) with
              | Done (t', s2) =>
                  if depth t' <? h_depth h then Done (ch, None, push t' s2)
                  else until_loop f' sel h (ch ++ [t']) s2
              | OutOfFuel => OutOfFuel
              | Crashed k => Crashed k
              end
        end
    end.

  (* TeX.parse: "for item in tokens: if element: item.digest(tokens); output.append(item)" *)
  Fixpoint parse_top (f : nat) (out : list tree) (s : st) : outcome (list tree * st) :=
    match f with
    | O => OutOfFuel
    | S f' =>
        match next s with
        | None => Done (out, s)
        | Some (t, s1) =>
            match (if is_elem t then digest f' t s1 else Done (t, s1)) with
            | Done (t', s2) => parse_top f' (out ++ [t']) s2
            | OutOfFuel => OutOfFuel
            | Crashed k => Crashed k
            end
        end
    end.

  Definition init_st (ts : list tree) : st := mkSt [] ts false [] [].
  Definition fuel_for (ts : list tree) : nat := 3 * length ts + 4.
  Definition parse_doc (ts : list tree) : outcome (list tree * st) := parse_top (fuel_for ts) [] (init_st ts).
End Digest.

(* what the theorems about sectioning assume of every item the expander yields (checked by the harness on every real stream):
   existing children are well-formed; a PAR_LEVEL item is a plain command without children (\\par); an item of a sectioning
   level is digested by SectionUtils.digest, lies below ENDSECTIONS_LEVEL and has no children yet *)
Definition item_ok_b (t : tree) : bool :=
  match t with
  | Text _ _ => true
  | Node h ch =>
      forallb wf_sections_b ch &&
      (if h_level h =? PAR_LEVEL then match h_kind h with KLeaf | KText => isnil ch | _ => false end else true) &&
      (if low (h_level h) then match h_kind h with KSec => (h_level h <? ENDSECTIONS_LEVEL) && isnil ch | _ => false end else true)
  end.

(* ---- wire ------------------------------------------------------------------------------------------ *)

Definition kind_of (z : Z) : kind :=
  match z with
  | 0 => KText | 1 => KLeaf | 2 => KEnv | 3 => KSec | 4 => KBgroup | 5 => KList | 6 => KItem
  | 7 => KRow | 8 => KCell | 9 => KVerb | 10 => KArray | _ => KUnknown
  end.

Definition zb (z : Z) : bool := negb (z =? 0).

Definition words_of (v : val) : option (list (list Z)) :=
  match v with VL l => mapM getZs l | _ => None end.

(* element head: [kind name level depth mode block force wsk nosub typ eg li cd er sc bd rw mm] + args
   text:         [1 depth ws cat mm chars] *)
Definition head_of (fs : list Z) (args : list (list Z)) : option head :=
  match fs with
  | [k; name; lvl; dep; mode; block; force; wsk; nosub; typ; eg; li; cd; er; sc; bd; rw; mm] =>
      Some (mkHead (kind_of k) name lvl dep mode (zb block) (zb force) false (zb wsk) (zb nosub) typ (zb eg) (zb li) (zb cd) (zb er)
                   (zb sc) (zb bd) (zb rw) (-1) (zb mm) args)
  | _ => None
  end.

Fixpoint tree_of (fuel : nat) (v : val) : option tree :=
  match fuel with
  | O => None
  | S fuel' =>
      match v with
      | VL [VI 1; VI dep; VI ws; VI cat; VI mm; cs] =>
          match getZs cs with
          | Some s => Some (Text (mkHead KText (-1) CHAR_LEVEL dep 0 false false (zb ws) false false (-1) false false false false false
                                          false false cat (zb mm) []) s)
          | None => None
          end
      | VL [VI 0; fs; args; VL ch] =>
          match getZs fs, words_of args, mapM (tree_of fuel') ch with
          | Some fs, Some args, Some ch =>
              match head_of fs args with Some h => Some (Node h ch) | None => None end
          | _, _, _ => None
          end
      | _ => None
      end
  end.

Fixpoint val_of_tree (t : tree) : val :=
  match t with
  | Text _ s => VL [VI 1; ofZs s]
  | Node h ch => VL [VI 0; VI (h_name h); VL (map ofZs (h_args h)); VL (map val_of_tree ch)]
  end.

Definition subs_of (v : val) : option (list (list Z * list Z)) :=
  match v with
  | VL l => mapM (fun p => match p with VL [a; b] => match getZs a, getZs b with Some a, Some b => Some (a, b) | _, _ => None end | _ => None end) l
  | _ => None
  end.

(* letters and digits: the characters of the generated marker words *)
Definition keep_alnum (c : Z) : bool :=
  ((48 <=? c) && (c <=? 57)) || ((65 <=? c) && (c <=? 90)) || ((97 <=? c) && (c <=? 122)).

(* the hypotheses of the theorems about the table, as booleans (evaluated on the table of every run) *)
Definition unkept_b (keep : Z -> bool) (s : list Z) : bool := forallb (fun c => negb (keep c)) s.
Definition neutral_b (keep : Z -> bool) (subs : list (list Z * list Z)) : bool :=
  forallb (fun p => unkept_b keep (fst p) && unkept_b keep (snd p) && negb (isnil (fst p))) subs.

(* the nodes that the harness asks about in the node-level reading: everything except the structural markers, paragraph nodes
   and table rows / cells (rows of rules are removed with their cells) *)
Definition vis_std (h : head) : bool :=
  negb ((h_mode h =? 2) || h_eg h || h_cd h || h_er h || h_sc h || h_bd h || h_rw h || (h_level h =? PAR_LEVEL)
        || match h_kind h with KCell | KRow => true | _ => false end).

Definition node_names (l : list atom) : list Z :=
  flat_map (fun a => match a with ANode h => [h_name h] | _ => [] end) l.

Definition val_of_atoms (l : list atom) : val :=
  VL (map (fun a => match a with AWord w => VL [VI 0; ofZs w] | AChar c => VL [VI 1; VI c] | ANode h => VL [VI 2; VI (h_name h)] end) l).

Definition all_wf (l : list tree) : bool := forallb wf_sections_b l.

(* case:   [0, subs, parname, items, impl_forest]
   answer: [0, forest, words of the dropped items, words of the forest, words of the stream, wf(model forest),
            wf(implementation's forest), words of the implementation's forest, number of sectioning events, item_ok of every stream item,
            the table touches no letter or digit and has no empty source,
            no visible node (vis_std) and no word in the dropped items, the visible nodes of the forest are those of the stream in order] *)
Definition run_case (v : val) : val :=
  match v with
  | VL [VI 0; sv; VI parname; VL items; VL impl] =>
      match subs_of sv, mapM (tree_of 200) items, mapM (tree_of 200) impl with
      | Some subs, Some ts, Some impl =>
          match parse_doc subs parname ts with
          | Done (forest, s) =>
              VL [VI 0; VL (map val_of_tree forest);
                  val_of_atoms (words keep_alnum (flatten_forest (map snd (s_log s))));
                  val_of_atoms (words keep_alnum (flatten_forest forest));
                  val_of_atoms (words keep_alnum (flatten_forest ts));
                  ofB (all_wf forest); ofB (all_wf impl);
                  val_of_atoms (words keep_alnum (flatten_forest impl));
                  VI (Z.of_nat (length (s_ev s))); ofB (forallb item_ok_b ts); ofB (neutral_b keep_alnum subs);
                  ofB (isnil (reading_forest vis_std keep_alnum (map snd (s_log s))));
                  ofB (list_eqb (node_names (reading_forest vis_std keep_alnum forest)) (node_names (reading_forest vis_std keep_alnum ts)))]
          | OutOfFuel => v_outoffuel
          | Crashed k => v_crash k
          end
      | _, _, _ => v_bad_input
      end
  | _ => v_bad_input
  end.
