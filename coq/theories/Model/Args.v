(* C05 -- Model of argument reading: TeX.readToken / readCharacter / readGrouping / readArgumentAndSource / cast* /
   readInternalType (plasTeX/TeX.py) and Macro.arguments / Macro.parse (plasTeX/__init__.py), line by line, over the token
   lists of Model/Numeric.v.  The enable level (ParameterCommand._enablelevel) is threaded through every reader.

   Expansion of argument contents (TeX.expandTokens) is NOT modelled: the value of an untyped / string argument is the list of
   tokens that was delimited, and the harness flattens the fragment built by the implementation back into tokens
   (bgroup element = `{` children `}`).  Types whose cast has side effects on the document (label, id, ref, idref, url) are
   outside the Model (outcome Unmod).  No proofs in this file. *)
From Coq Require Import List ZArith Bool QArith Qabs.
From Verif Require Import Val Units Numeric.
Import ListNotations.
Local Open Scope Z_scope.

(* ---------------------------------------------------------------- delimiter readers (itertokens: nothing is expanded) *)

Definition cat_of (t : tok) : Z := match t with Ch cat _ => cat | Cs _ _ => 0 end.

(* the inner loop of readToken for a `{` group: level counting on category codes 1 / 2.
   End of input inside the group ends the loop silently (what was read is returned). *)
Fixpoint group_loop (level : nat) (s : list tok) : list tok * list tok :=
  match s with
  | [] => ([], [])
  | t :: r =>
      if cat_of t =? 1 then let '(a, b) := group_loop (S level) r in (t :: a, b)
      else if cat_of t =? 2 then
        match level with
        | O => ([], r)
        | S l => let '(a, b) := group_loop l r in (t :: a, b)
        end
      else let '(a, b) := group_loop level r in (t :: a, b)
  end.

(* $ ... $ : up to and including the next math shift *)
Fixpoint math_loop (s : list tok) : list tok * list tok :=
  match s with
  | [] => ([], [])
  | t :: r => if cat_of t =? 3 then ([t], r) else let '(a, b) := math_loop r in (t :: a, b)
  end.

(* readToken: None = end of input *)
Definition read_token (s : list tok) : option (list tok) * list tok :=
  match s with
  | [] => (None, [])
  | t :: r =>
      if cat_of t =? 1 then let '(a, b) := group_loop O r in (Some a, b)
      else if cat_of t =? 3 then let '(a, b) := math_loop r in (Some (t :: a), b)
      else (Some [t], r)
  end.

(* t == char : string comparison, whatever the category; an EscapeSequence named `char` compares equal too *)
Definition tok_is_char (t : tok) (c : Z) : bool :=
  match t with
  | Ch _ d => d =? c
  | Cs (KInert [d]) false => d =? c
  | _ => false
  end.

(* readCharacter *)
Definition read_character (c : Z) (s : list tok) : option tok * list tok :=
  match s with
  | t :: r => if tok_is_char t c then (Some t, r) else (None, s)
  | [] => (None, [])
  end.

(* t.catcode != CC_ESCAPE and (t == begin or str(t) == str(begin)) *)
Definition tok_is_delim (t : tok) (c : Z) : bool :=
  match t with
  | Ch cat d => negb (cat =? 0) && (d =? c)
  | Cs _ _ => false
  end.

(* the inner loop of readGrouping: level counting on the two delimiter characters only (braces are not tracked) *)
Fixpoint grouping_loop (o c : Z) (level : nat) (s : list tok) : list tok * list tok :=
  match s with
  | [] => ([], [])
  | t :: r =>
      if tok_is_delim t o then let '(a, b) := grouping_loop o c (S level) r in (t :: a, b)
      else if tok_is_delim t c then
        match level with
        | O => ([], r)
        | S l => let '(a, b) := grouping_loop o c l r in (t :: a, b)
        end
      else let '(a, b) := grouping_loop o c level r in (t :: a, b)
  end.

(* readGrouping: None = the next token is not the opening delimiter (it is pushed back), or end of input *)
Definition read_grouping (o c : Z) (s : list tok) : option (list tok) * list tok :=
  match s with
  | [] => (None, [])
  | t :: r => if tok_is_delim t o then let '(a, b) := grouping_loop o c O r in (Some a, b) else (None, s)
  end.

(* ---------------------------------------------------------------- values *)

Inductive aval :=
| VNone                                   (* argument absent: default *)
| VTrue                                   (* dictionary key without a value *)
| VToks (l : list tok)                    (* token list / document fragment / single element, flattened *)
| VTok (t : tok)                          (* a single token: modifier, Tok, cs *)
| VStr (s : list Z)
| VInt (z : Z)
| VQ (q : Q)
| VGlue (g : gluev)
| VList (l : list aval)
| VDict (l : list (aval * aval)).

Inductive ares := AOk (v : aval) (s : list tok) (lvl : Z) | ACrash (k : Z) (lvl : Z) | AUnmod.

(* ---------------------------------------------------------------- casts *)

(* characters whose expansion by expandTokens is not modelled: math shift, alignment, super/subscript, active *)
Definition unmodelled_char (t : tok) : bool :=
  match t with Ch cat _ => has_macro cat && negb (cat =? 1) && negb (cat =? 2) | _ => false end.

(* a token that stays a Text node under expansion *)
Definition is_plain (t : tok) : bool := match t with Ch cat _ => negb (has_macro cat) | _ => false end.

Definition is_ws (c : Z) : bool := (c =? 32) || ((9 <=? c) && (c <=? 13)).
Fixpoint lstrip (l : list Z) : list Z := match l with c :: r => if is_ws c then lstrip r else l | [] => [] end.
Definition strip (l : list Z) : list Z := rev (lstrip (rev (lstrip l))).

Definition code_of (t : tok) : Z := match t with Ch _ c => c | _ => 0 end.

(* TeX.normalize on a list of nodes: all Text -> the stripped string (group characters removed); otherwise the nodes *)
Definition normalize (l : list tok) : aval :=
  if forallb is_plain l then VStr (strip (map code_of l)) else VToks l.

(* castString: value = normalize(tokens); when normalize hands back a fragment or an element (a brace group or a macro in the
   argument) the value is its `.source`: the characters, `{` children `}` for a group, \name followed by one blank for a command
   without arguments (Macro.source).  Not stripped.  Registers (their names are not in the Model) and unbalanced braces (a group
   that was never closed still prints a closing brace) give no value here: outcome Unmod. *)
Definition source_tok (t : tok) : option (list Z) :=
  match t with
  | Ch _ c => Some [c]
  | Cs (KInert n) _ => Some (92 :: n ++ [32])
  | Cs (KGrp _ c) _ => Some [c]
  | _ => None
  end.

Fixpoint source_of (l : list tok) : option (list Z) :=
  match l with
  | [] => Some []
  | t :: r => match source_tok t, source_of r with Some a, Some b => Some (a ++ b) | _, _ => None end
  end.

Fixpoint braces_balanced (n : nat) (l : list tok) : bool :=
  match l with
  | [] => match n with O => true | S _ => false end
  | t :: r => if cat_of t =? 1 then braces_balanced (S n) r
              else if cat_of t =? 2 then match n with O => false | S m => braces_balanced m r end
              else braces_balanced n r
  end.

Definition cast_str (l : list tok) : option aval :=
  match normalize l with
  | VStr s => Some (VStr s)
  | _ => if braces_balanced O l then match source_of l with Some s => Some (VStr s) | None => None end else None
  end.

(* readInternalType: push \relax and the tokens, run the reader, then drop everything up to and including \relax *)
Definition kw_relax : list Z := [114; 101; 108; 97; 120].
Definition is_relax (t : tok) : bool :=
  match t with Cs (KInert n) _ => list_eqb n kw_relax | _ => false end.
Fixpoint drop_to_relax (s : list tok) : list tok :=
  match s with [] => [] | t :: r => if is_relax t then r else drop_to_relax r end.

Definition expand_for_cast (lvl : Z) (l : list tok) : option (list tok) :=
  mapM (fun t => match t with
                 | Ch cat _ => if has_macro cat then None else Some t     (* groups become elements with children: not modelled *)
                 | _ => expand1 lvl t
                 end) l.

Definition internal {A} (reader : list tok -> Z -> res A) (inj : A -> aval) (l : list tok) (s : list tok) (lvl : Z) : ares :=
  match expand_for_cast lvl l with
  | None => AUnmod
  | Some l' =>
      match reader (l' ++ Cs (KInert kw_relax) false :: s) lvl with
      | Ok v s' lvl' => AOk (inj v) (drop_to_relax s') lvl'
      | Crash k lvl' => ACrash k lvl'
      | Unmod => AUnmod
      end
  end.

(* type names *)
Inductive tycl :=
| TyNone | TyDimenP | TyMuDimenP | TyGlueP | TyMuGlueP | TyNumberP | TyTok | TyXTok | TyArgs | TyAny | TyCs
| TyStr | TyNox | TyList | TyDict | TyDimenC | TyNumberC | TyFloatC | TySide | TyUnknown.

Definition S_ (l : list Z) := l.
Definition str_in (x : list Z) (l : list (list Z)) : bool := existsb (list_eqb x) l.

Definition n_Dimen := [68;105;109;101;110]. Definition n_Length := [76;101;110;103;116;104]. Definition n_Dimension := [68;105;109;101;110;115;105;111;110].
Definition n_MuDimen := [77;117;68;105;109;101;110]. Definition n_MuLength := [77;117;76;101;110;103;116;104].
Definition n_Glue := [71;108;117;101]. Definition n_Skip := [83;107;105;112].
Definition n_MuGlue := [77;117;71;108;117;101]. Definition n_MuSkip := [77;117;83;107;105;112].
Definition n_Number := [78;117;109;98;101;114]. Definition n_Int := [73;110;116]. Definition n_Integer := [73;110;116;101;103;101;114].
Definition n_Token := [84;111;107;101;110]. Definition n_Tok := [84;111;107].
Definition n_XTok := [88;84;111;107]. Definition n_XToken := [88;84;111;107;101;110].
Definition n_Args := [65;114;103;115]. Definition n_any := [97;110;121]. Definition n_cs := [99;115].
Definition n_str := [115;116;114]. Definition n_chr := [99;104;114]. Definition n_char := [99;104;97;114].
Definition n_nox := [110;111;120]. Definition n_list := [108;105;115;116]. Definition n_dict := [100;105;99;116].
Definition n_dimen := [100;105;109;101;110]. Definition n_dimension := [100;105;109;101;110;115;105;111;110]. Definition n_length := [108;101;110;103;116;104].
Definition n_number := [110;117;109;98;101;114]. Definition n_count := [99;111;117;110;116]. Definition n_int := [105;110;116].
Definition n_float := [102;108;111;97;116]. Definition n_double := [100;111;117;98;108;101].
Definition n_label := [108;97;98;101;108]. Definition n_id := [105;100]. Definition n_idref := [105;100;114;101;102]. Definition n_ref := [114;101;102].
Definition n_url := [117;114;108].

(* the order of the `if type in [...]` tests of readArgumentAndSource, then the keys of TeX.argtypes *)
Definition classify (ty : option (list Z)) : tycl :=
  match ty with
  | None => TyNone
  | Some t =>
      if str_in t [n_Dimen; n_Length; n_Dimension] then TyDimenP
      else if str_in t [n_MuDimen; n_MuLength] then TyMuDimenP
      else if str_in t [n_Glue; n_Skip] then TyGlueP
      else if str_in t [n_MuGlue; n_MuSkip] then TyMuGlueP
      else if str_in t [n_Number; n_Int; n_Integer] then TyNumberP
      else if str_in t [n_Token; n_Tok] then TyTok
      else if str_in t [n_XTok; n_XToken] then TyXTok
      else if str_in t [n_Args] then TyArgs
      else if str_in t [n_any] then TyAny
      else if str_in t [n_cs] then TyCs
      else if str_in t [n_str; n_chr; n_char] then TyStr
      else if str_in t [n_nox] then TyNox
      else if str_in t [n_list] then TyList
      else if str_in t [n_dict] then TyDict
      else if str_in t [n_dimen; n_dimension; n_length] then TyDimenC
      else if str_in t [n_number; n_count; n_int] then TyNumberC
      else if str_in t [n_float; n_double] then TyFloatC
      else if str_in t [n_label; n_id; n_idref; n_ref; n_url] then TySide
      else TyUnknown
  end.

(* castList: split on the delimiter outside brace groups; a group is copied with its braces.
   level = 0: outside a group; level > 0: inside (the inner `while tokens` loop).  When the input ends inside a group the
   last token read is appended a second time (the `listarg[-1].append(current)` after the loop). *)
Fixpoint split_items (delim : Z) (s : list tok) (level : nat) (cur : list tok) : list (list tok) :=
  match s with
  | [] => match level with
          | O => [rev cur]
          | S _ => [rev (match cur with h :: _ => h :: cur | [] => cur end)]
          end
  | t :: r =>
      match level with
      | O =>
          if tok_is_char t delim then rev cur :: split_items delim r O []
          else if cat_of t =? 1 then split_items delim r 1%nat (t :: cur)
          else split_items delim r O (t :: cur)
      | S l =>
          if cat_of t =? 1 then split_items delim r (S (S l)) (t :: cur)
          else if cat_of t =? 2 then split_items delim r l (t :: cur)
          else split_items delim r (S l) (t :: cur)
      end
  end.

(* one item / one dictionary value under a subtype (only None, str, int and the numeric casts are modelled) *)
Definition cast_item (lvl : Z) (sub : option (list Z)) (l : list tok) : option aval :=
  match classify sub with
  | TyNone | TyNox | TyUnknown => Some (normalize l)
  | TyStr => cast_str l
  | TyNumberC =>
      match internal (read_integer true) VInt l [] lvl with AOk v _ _ => Some v | _ => None end
  | TyFloatC =>
      match internal read_decimal VQ l [] lvl with AOk v _ _ => Some v | _ => None end
  | TyDimenC =>
      match internal (read_dimen dimen_units) VQ l [] lvl with AOk v _ _ => Some v | _ => None end
  | _ => None
  end.

(* castDictionary on tokens without elements and without braces in key position *)
Fixpoint dict_set (k v : aval) (eq : aval -> aval -> bool) (d : list (aval * aval)) : list (aval * aval) :=
  match d with
  | [] => [(k, v)]
  | (k', v') :: r => if eq k k' then (k, v) :: r else (k', v') :: dict_set k v eq r
  end.

Definition key_eqb (a b : aval) : bool :=
  match a, b with VStr x, VStr y => list_eqb x y | _, _ => false end.

(* state: nesting level of the brace group being copied (0 = none), dict so far, current key (reversed),
   current value (None = no `=` seen yet; reversed).  Result None = a situation that is not modelled
   (elements, braces in key position: AttributeError, stray closing brace). *)
Fixpoint dict_loop (lvl : Z) (sub : option (list Z)) (delim : Z) (s : list tok) (level : nat)
         (d : list (aval * aval)) (key : list tok) (value : option (list tok)) : option (list (aval * aval)) :=
  let finish (d : list (aval * aval)) (key : list tok) (value : option (list tok)) : option (list (aval * aval)) :=
    match normalize (rev key) with
    | VStr k =>
        match value with
        | None => Some (dict_set (VStr k) VTrue key_eqb d)
        | Some v => match cast_item lvl sub (rev v) with
                    | Some x => Some (dict_set (VStr k) x key_eqb d)
                    | None => None
                    end
        end
    | _ => None
    end in
  match s with
  | [] =>
      let value' := match level, value with
                    | S _, Some (h :: v) => Some (h :: h :: v)
                    | _, _ => value
                    end in
      match key with [] => Some d | _ => finish d key value' end
  | t :: r =>
      match level with
      | S l =>
          match value with
          | None => None
          | Some v =>
              if cat_of t =? 1 then dict_loop lvl sub delim r (S (S l)) d key (Some (t :: v))
              else if cat_of t =? 2 then dict_loop lvl sub delim r l d key (Some (t :: v))
              else dict_loop lvl sub delim r (S l) d key (Some (t :: v))
          end
      | O =>
          if cat_of t =? 1 then
            match value with
            | None => None
            | Some v => dict_loop lvl sub delim r 1%nat d key (Some (t :: v))
            end
          else if negb (is_plain t) then None
          else
            let '(key1, value1) :=
              if tok_is_char t 61 then (key, Some [])
              else if tok_is_char t delim then (key, value)
              else match value with None => (t :: key, None) | Some v => (key, Some (t :: v)) end in
            if tok_is_char t delim || (match r with [] => true | _ => false end) then
              match finish d key1 value1 with
              | Some d' => dict_loop lvl sub delim r O d' [] None
              | None => None
              end
            else dict_loop lvl sub delim r O d key1 value1
      end
  end.

(* ---------------------------------------------------------------- compiled argument *)

Record arg := mkArg {
  a_name : list Z;
  a_spec : option (list Z);          (* None: next token or brace group; [c]: that character; [o; c]: o ... c grouping *)
  a_type : option (list Z);
  a_delim : option Z;
  a_subtype : option (list Z);
  a_expanded : bool
}.

Definition delim_of (a : arg) : Z := match a_delim a with Some d => d | None => 44 end.

(* TeX.cast *)
Definition cast (a : arg) (l : list tok) (s : list tok) (lvl : Z) : ares :=
  if existsb unmodelled_char l then AUnmod else
  match classify (a_type a) with
  | TyNone | TyNox | TyUnknown => AOk (VToks l) s lvl
  | TyStr => match cast_str l with Some v => AOk v s lvl | None => AUnmod end
  | TyCs => match filter (fun t => cat_of t =? 0) l with
            | t :: _ => AOk (VTok t) s lvl
            | [] => ACrash crash_index lvl
            end
  | TyNumberC => internal (read_integer true) VInt l s lvl
  | TyFloatC => internal read_decimal VQ l s lvl
  | TyDimenC => internal (read_dimen dimen_units) VQ l s lvl
  | TyList =>
      if existsb (fun t => match t with Cs _ _ => true | _ => false end) l then AUnmod else     (* elements in a list: not modelled *)
      match mapM (cast_item lvl (a_subtype a)) (split_items (delim_of a) l O []) with
      | Some items => AOk (VList items) s lvl
      | None => AUnmod
      end
  | TyDict =>
      match dict_loop lvl (a_subtype a) (delim_of a) l O [] [] None with
      | Some d => AOk (VDict d) s lvl
      | None => AUnmod
      end
  | _ => AUnmod
  end.

(* ---------------------------------------------------------------- readArgumentAndSource *)

Fixpoint until_bgroup (s : list tok) : list tok * list tok :=      (* type Args: up to a `{`, which is pushed back *)
  match s with
  | [] => ([], [])
  | t :: r => if cat_of t =? 1 then ([], s) else let '(a, b) := until_bgroup r in (t :: a, b)
  end.

Fixpoint until_space (s : list tok) : list tok * list tok :=       (* type any: up to a blank, which is consumed *)
  match s with
  | [] => ([], [])
  | t :: r => if cat_of t =? 10 then ([], r) else let '(a, b) := until_space r in (t :: a, b)
  end.

Definition of_res {A} (inj : A -> aval) (r : res A) : ares :=
  match r with
  | Ok v s l => AOk (inj v) s (l + 1)          (* ParameterCommand.enable() after the typed reader *)
  | Crash k l => ACrash k l
  | Unmod => AUnmod
  end.

(* the generic tail: delimit by the spec, cast, enable *)
Definition read_generic (a : arg) (s : list tok) (lvl : Z) : ares :=
  let finish (toks : option (list tok)) (s' : list tok) : ares :=
    match toks with
    | None => AOk VNone s' (lvl + 1)
    | Some l => match cast a l s' lvl with
                | AOk v s'' l' => AOk v s'' (l' + 1)
                | r => r
                end
    end in
  match a_spec a with
  | None => let '(t, s') := read_token s in finish t s'
  | Some [c] => match read_character c s with
                | (None, s') => AOk VNone s' (lvl + 1)
                | (Some t, s') => AOk (VTok t) s' (lvl + 1)        (* cast of a single token with no type *)
                end
  | Some [o; c] => let '(t, s') := read_grouping o c s in finish t s'
  | Some _ => ACrash crash_value lvl                               (* Unrecognized specifier *)
  end.

Definition read_argument (a : arg) (s0 : list tok) (lvl0 : Z) : ares :=
  let s := read_optional_spaces s0 in                              (* stripLeadingWhitespace *)
  let lvl := lvl0 - 1 in                                           (* ParameterCommand.disable() *)
  match classify (a_type a) with
  | TyDimenP => of_res VQ (read_dimen dimen_units s lvl)
  | TyMuDimenP => of_res VQ (read_dimen mudimen_units s lvl)
  | TyGlueP => of_res VGlue (read_glue dimen_units s lvl)
  | TyMuGlueP => of_res VGlue (read_glue mudimen_units s lvl)
  | TyNumberP => of_res VInt (read_integer true s lvl)
  | TyTok => match s with
             | t :: r => AOk (VTok t) r (lvl + 1)
             | [] => read_generic a s lvl                          (* the for loop does not run: falls through *)
             end
  | TyXTok => match s with
              | t :: r => if is_plain t then AOk (VTok t) r (lvl + 1) else AUnmod
              | [] => read_generic a s lvl
              end
  | TyArgs => let '(l, s') := until_bgroup s in AOk (VToks l) s' (lvl + 1)
  | TyAny => let '(l, s') := until_space s in
             if existsb unmodelled_char l || existsb (fun t => (cat_of t =? 1) || (cat_of t =? 2)) l
             then AUnmod                                      (* expansion of a run with (possibly unbalanced) braces: not modelled *)
             else AOk (VToks l) s' (lvl + 1)                  (* enable(): present after fix-1 *)
  | TySide => AUnmod
  | _ => read_generic a s lvl
  end.

(* ---------------------------------------------------------------- Macro.arguments: the signature compiler *)

Definition is_word (c : Z) : bool :=
  ((48 <=? c) && (c <=? 57)) || ((65 <=? c) && (c <=? 90)) || ((97 <=? c) && (c <=? 122)) || (c =? 95).
Definition is_letter (c : Z) : bool := ((65 <=? c) && (c <=? 90)) || ((97 <=? c) && (c <=? 122)).

Fixpoint span_word (s : list Z) : list Z * list Z :=
  match s with
  | c :: r => if is_word c then let '(a, b) := span_word r in (c :: a, b) else ([], s)
  | [] => ([], [])
  end.

(* one match of  \w+(?::\w+(?:\(\S\))?(?::\w+)?)?  at the head of s (s starts with a word character) *)
Definition lex_word (s : list Z) : list Z * list Z :=
  let '(w, r) := span_word s in
  match r with
  | 58 :: r1 =>
      let '(ty, r2) := span_word r1 in
      match ty with
      | [] => (w, r)
      | _ =>
          let '(dl, r3) := match r2 with
                           | 40 :: x :: 41 :: r3 => if is_ws x then ([], r2) else ([40; x; 41], r3)
                           | _ => ([], r2)
                           end in
          let '(sub, r4) := match r3 with
                            | 58 :: r4 => let '(st, r5) := span_word r4 in
                                          match st with [] => ([], r3) | _ => (58 :: st, r5) end
                            | _ => ([], r3)
                            end in
          (w ++ 58 :: ty ++ dl ++ sub, r4)
      end
  | _ => (w, r)
  end.

(* re.split(...) then strip and drop the empty strings *)
Fixpoint lex_sig (fuel : nat) (s : list Z) : list (list Z) :=
  match fuel with
  | O => []
  | S f =>
      match s with
      | [] => []
      | c :: r =>
          if is_word c then let '(w, r') := lex_word s in w :: lex_sig f r'
          else if is_ws c then lex_sig f r
          else [c] :: lex_sig f r
      end
  end.

Fixpoint split_colon (s : list Z) (cur : list Z) : list (list Z) :=
  match s with
  | [] => [rev cur]
  | c :: r => if c =? 58 then rev cur :: split_colon r [] else split_colon r (c :: cur)
  end.

(* re.search(r'(\w+)(?:\((\W)\))?', part).groups() *)
Fixpoint type_and_delim (fuel : nat) (p : list Z) : option (list Z * option Z) :=
  match fuel with
  | O => None
  | S f =>
      match p with
      | [] => None
      | c :: r =>
          if is_word c then
            let '(w, r') := span_word p in
            match r' with
            | 40 :: x :: 41 :: _ => if is_word x then Some (w, None) else Some (w, Some x)
            | _ => Some (w, None)
            end
          else type_and_delim f r
      end
  end.

Definition nm_modifier : list Z := [42;109;111;100;105;102;105;101;114;42].
Definition nm_equals : list Z := [42;101;113;117;97;108;115;42].

Definition closer (c : Z) : Z := if c =? 91 then 93 else if c =? 40 then 41 else if c =? 60 then 62 else 125.

Inductive sigres := SigOk (l : list arg) | SigErr (k : Z).

(* the loop over the items; spec = argdict.get('spec') *)
Fixpoint compile_items (items : list (list Z)) (spec : option (list Z)) (acc : list arg) : sigres :=
  match items with
  | [] => SigOk (rev acc)
  | it :: rest =>
      match it with
      | [c] =>
          if (c =? 42) || (c =? 43) || (c =? 45) then
            match spec with
            | Some _ => SigErr crash_value                                  (* Improperly placed *)
            | None => compile_items rest None (mkArg nm_modifier (Some [c]) None None None false :: acc)
            end
          else if c =? 61 then compile_items rest None (mkArg nm_equals (Some [c]) None None None false :: acc)
          else if (c =? 91) || (c =? 40) || (c =? 60) || (c =? 123) then compile_items rest (Some [c; closer c]) acc
          else if (c =? 93) || (c =? 41) || (c =? 62) || (c =? 125) then compile_items rest spec acc
          else if is_letter c then compile_items rest None (mkArg [c] spec None None None true :: acc)
          else SigErr crash_value
      | c :: _ =>
          if is_letter c then
            match split_colon it [] with
            | name :: [] => compile_items rest None (mkArg name spec None None None true :: acc)
            | name :: p :: ps =>
                match type_and_delim (S (length p)) p with
                | None => SigErr crash_type                                  (* re.search(...) is None: AttributeError *)
                | Some (ty, dl) =>
                    let sub := match ps with q :: _ => Some q | [] => None end in
                    let ex := negb (list_eqb ty n_cs || list_eqb ty n_nox) in
                    compile_items rest None (mkArg name spec (Some ty) dl sub ex :: acc)
                end
            | [] => SigErr crash_value
            end
          else SigErr crash_value
      | [] => compile_items rest spec acc
      end
  end.

Definition compile_sig (s : list Z) : sigres := compile_items (lex_sig (length s) s) None [].

(* ---------------------------------------------------------------- Macro.parse *)

Inductive pres := POk (binds : list (list Z * aval)) (s : list tok) (lvl : Z) | PCrash (k : Z) (lvl : Z) | PUnmod.

Fixpoint parse_args (args : list arg) (s : list tok) (lvl : Z) (acc : list (list Z * aval)) : pres :=
  match args with
  | [] => POk (rev acc) s lvl
  | a :: rest =>
      match read_argument a s lvl with
      | AOk v s' lvl' => parse_args rest s' lvl' ((a_name a, v) :: acc)
      | ACrash k lvl' => PCrash k lvl'
      | AUnmod => PUnmod
      end
  end.

(* ---------------------------------------------------------------- wire *)

Definition get_q (n d : val) : option Q :=
  match n, d with
  | VI n, VI d => if 0 <? d then Some (Qmake n (Z.to_pos d)) else None
  | _, _ => None
  end.

Definition get_oq (v : val) : option (option Q) :=
  match v with
  | VL [] => Some None
  | VL [n; d] => match get_q n d with Some q => Some (Some q) | None => None end
  | _ => None
  end.

Definition tok_of (v : val) : option tok :=
  match v with
  | VL [VI 0; VI cat; VI c] => Some (Ch cat c)
  | VL [VI 1; VI 0; name; VI e] => match getZs name with Some n => Some (Cs (KInert n) (negb (e =? 0))) | None => None end
  | VL [VI 1; VI 1; VI z; VI e] => Some (Cs (KCount z) (negb (e =? 0)))
  | VL [VI 1; VI 2; n; d; VI e] => match get_q n d with Some q => Some (Cs (KDimen q) (negb (e =? 0))) | None => None end
  | VL [VI 1; VI 3; n; d; st; sh; VI e] =>
      match get_q n d, get_oq st, get_oq sh with
      | Some q, Some a, Some b => Some (Cs (KGlue q a b) (negb (e =? 0)))
      | _, _, _ => None
      end
  | VL [VI 1; VI 4; VI o; VI c; VI e] => Some (Cs (KGrp (negb (o =? 0)) c) (negb (e =? 0)))
  | VL [VI 1; VI 5; name; VI e] => match getZs name with Some n => Some (Cs (KMacro n) (negb (e =? 0))) | None => None end
  | _ => None
  end.

Definition toks_of (v : val) : option (list tok) := match v with VL l => mapM tok_of l | _ => None end.

Definition out_q (q : Q) : val := let r := Qred q in VL [VI (Qnum r); VI (Zpos (Qden r))].
Definition out_oq (o : option Q) : val := match o with Some q => out_q q | None => VL [] end.
Definition out_tok (t : tok) : val :=
  let e (b : bool) := VI (if b then 1 else 0) in
  match t with
  | Ch cat c => VL [VI 0; VI cat; VI c]
  | Cs (KInert n) b => VL [VI 1; VI 0; ofZs n; e b]
  | Cs (KCount z) b => VL [VI 1; VI 1; VI z; e b]
  | Cs (KDimen q) b => VL [VI 1; VI 2; VI (Qnum q); VI (Zpos (Qden q)); e b]
  | Cs (KGlue q a c) b => VL [VI 1; VI 3; VI (Qnum q); VI (Zpos (Qden q)); out_oq a; out_oq c; e b]
  | Cs (KGrp o c) b => VL [VI 1; VI 4; e o; VI c; e b]
  | Cs (KMacro n) b => VL [VI 1; VI 5; ofZs n; e b]
  end.
Definition out_toks (l : list tok) : val := VL (map out_tok l).
Definition out_glue (g : gluev) : val := let '(d, st, sh) := g in VL [out_q d; out_oq st; out_oq sh].

Fixpoint out_aval (v : aval) : val :=
  match v with
  | VNone => VL [VI 0]
  | VTrue => VL [VI 1]
  | VToks l => VL [VI 2; out_toks l]
  | VTok t => VL [VI 3; out_tok t]
  | VStr s => VL [VI 4; ofZs s]
  | VInt z => VL [VI 5; VI z]
  | VQ q => VL [VI 6; out_q q]
  | VGlue g => VL [VI 7; out_glue g]
  | VList l => VL [VI 8; VL (map out_aval l)]
  | VDict d => VL [VI 9; VL (map (fun kv => VL [out_aval (fst kv); out_aval (snd kv)]) d)]
  end.

Definition v_unmod : val := VL [VI (-4)].
Definition out_res {A} (f : A -> val) (r : res A) : val :=
  match r with
  | Ok v s l => VL [VI 0; f v; out_toks s; VI l]
  | Crash k l => VL [VI (-2); VI k; VI l]
  | Unmod => v_unmod
  end.
Definition out_ares (r : ares) : val :=
  match r with
  | AOk v s l => VL [VI 0; out_aval v; out_toks s; VI l]
  | ACrash k l => VL [VI (-2); VI k; VI l]
  | AUnmod => v_unmod
  end.

Definition units_sel (k : Z) : list (list Z) :=
  if k =? 0 then dimen_units else if k =? 1 then mudimen_units else if k =? 2 then dimen_units ++ fil_units else mudimen_units ++ fil_units.

Definition get_ostr (v : val) : option (option (list Z)) :=
  match v with
  | VL [] => Some None
  | VL [s] => match getZs s with Some l => Some (Some l) | None => None end
  | _ => None
  end.

Definition arg_of (v : val) : option arg :=
  match v with
  | VL [name; spec; ty; dl; sub; VI ex] =>
      match getZs name, get_ostr spec, get_ostr ty, get_ostr sub with
      | Some n, Some sp, Some t, Some sb =>
          match dl with
          | VL [] => Some (mkArg n sp t None sb (negb (ex =? 0)))
          | VL [VI d] => Some (mkArg n sp t (Some d) sb (negb (ex =? 0)))
          | _ => None
          end
      | _, _, _, _ => None
      end
  | _ => None
  end.

Definition out_ostr (o : option (list Z)) : val := match o with Some s => VL [ofZs s] | None => VL [] end.
Definition out_arg (a : arg) : val :=
  VL [ofZs (a_name a); out_ostr (a_spec a); out_ostr (a_type a);
      match a_delim a with Some d => VL [VI d] | None => VL [] end; out_ostr (a_subtype a); ofB (a_expanded a)].

Definition out_opt_toks (o : option (list tok)) : val := match o with Some l => VL [out_toks l] | None => VL [] end.

(* cases
     (0 lvl toks optspace)      readInteger
     (1 lvl toks)               readDecimal
     (2 lvl toks units)         readDimen      units: 0 dimen 1 mu 2 dimen+fil 3 mu+fil
     (3 lvl toks units)         readGlue / readMuGlue
     (4 lvl toks units)         readUnitOfMeasure
     (10 toks)                  readToken
     (11 toks o c)              readGrouping
     (12 toks c)                readCharacter
     (13 lvl toks arg)          readArgumentAndSource
     (14 string)                Macro.arguments
     (15 lvl toks string)       Macro.parse *)
Definition run_case (v : val) : val :=
  match v with
  | VL [VI 0; VI lvl; ts; VI o] =>
      match toks_of ts with Some s => out_res VI (read_integer (negb (o =? 0)) s lvl) | None => v_bad_input end
  | VL [VI 1; VI lvl; ts] =>
      match toks_of ts with Some s => out_res out_q (read_decimal s lvl) | None => v_bad_input end
  | VL [VI 2; VI lvl; ts; VI u] =>
      match toks_of ts with Some s => out_res out_q (read_dimen (units_sel u) s lvl) | None => v_bad_input end
  | VL [VI 3; VI lvl; ts; VI u] =>
      match toks_of ts with Some s => out_res out_glue (read_glue (units_sel u) s lvl) | None => v_bad_input end
  | VL [VI 4; VI lvl; ts; VI u] =>
      match toks_of ts with Some s => out_res out_q (read_unit_of_measure (units_sel u) s lvl) | None => v_bad_input end
  | VL [VI 10; ts] =>
      match toks_of ts with Some s => let '(a, b) := read_token s in VL [out_opt_toks a; out_toks b] | None => v_bad_input end
  | VL [VI 11; ts; VI o; VI c] =>
      match toks_of ts with Some s => let '(a, b) := read_grouping o c s in VL [out_opt_toks a; out_toks b] | None => v_bad_input end
  | VL [VI 12; ts; VI c] =>
      match toks_of ts with
      | Some s => let '(a, b) := read_character c s in VL [match a with Some t => VL [out_tok t] | None => VL [] end; out_toks b]
      | None => v_bad_input end
  | VL [VI 13; VI lvl; ts; a] =>
      match toks_of ts, arg_of a with Some s, Some a => out_ares (read_argument a s lvl) | _, _ => v_bad_input end
  | VL [VI 14; str] =>
      match getZs str with
      | Some s => match compile_sig s with SigOk l => VL [VI 0; VL (map out_arg l)] | SigErr k => VL [VI (-2); VI k] end
      | None => v_bad_input end
  | VL [VI 15; VI lvl; ts; str] =>
      match toks_of ts, getZs str with
      | Some s, Some sg =>
          match compile_sig sg with
          | SigErr k => VL [VI (-2); VI k; VI lvl]
          | SigOk args =>
              match parse_args args s lvl [] with
              | POk b s' l => VL [VI 0; VL (map (fun nv => VL [ofZs (fst nv); out_aval (snd nv)]) b); out_toks s'; VI l]
              | PCrash k l => VL [VI (-2); VI k; VI l]
              | PUnmod => v_unmod
              end
          end
      | _, _ => v_bad_input end
  | _ => v_bad_input
  end.
