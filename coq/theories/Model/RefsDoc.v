(* C09 -- documents: the numbering machine of C08 (Model/Counters.v) and the label / reference events of Model/Refs.v in
   one history.  This file turns such a document into the event history of Model/Refs.v, following the order in which
   Macro.parse works (plasTeX/__init__.py):
       preArgument / postArgument : refstepcounter  ->  context.currentlabel = self      (if self.counter is not None)
       the arguments are read (labels and references written in a title, caption, optional argument)
       postParse                  : self.ref = \the<counter>                             (if self.counter and self.numbered)
   and for eqnarray rows (Math.py, eqnarray.EndRow.invoke): res[1].ref = self.ref ; context.currentlabel = res[1], then the
   row is read.  The numbering itself -- which objects an event creates, whether they have a counter attribute, what
   \the<counter> expands to -- is not modelled here: it is a step function handed in ([cstep]), instantiated with
   Counters.run_event at the end of the file.  No proofs here. *)
From Coq Require Import List ZArith Bool.
Import ListNotations.
From Verif Require Import Refs RefsSpec.
From Verif Require Counters CounterSyntax ClassCounters.
Local Open Scope Z_scope.

(* what is written between the numbered constructs *)
Inductive inl :=
| NLabel (l : str)                          (* \label{l} *)
| NRef (r : holder) (k : key) (l : str)     (* \ref{l} / \pageref{l}: holder r, key k *)
| NOpen | NClose.                           (* a group or environment begins / ends *)

Definition inl_event (i : inl) : event :=
  match i with
  | NLabel l => ELabel l None
  | NRef r k l => ERef r k l
  | NOpen => EOpen
  | NClose => EClose
  end.

(* one object made by a numbering event: does it become the current label (counter attribute is not None), is its row
   numbered before its content is read (eqnarray rows), its printed number *)
Record oinfo := mko { o_current : bool; o_numfirst : bool; o_number : option str }.

Section Joint.
  Context {CE CS : Type} (cstep : CE -> CS -> option (CS * list oinfo)).

  Inductive jevent :=
  | JNum (e : CE) (inner : list (list inl))   (* a numbering event; inner: for each object it makes, what is written in its arguments *)
  | JInl (i : inl).

  (* the events of the objects made by one numbering event; n = number of objects made so far = identity of the next one *)
  Fixpoint emit (n : nat) (os : list oinfo) (inner : list (list inl)) : list event :=
    match os with
    | [] => []
    | o :: os' =>
        let ins := map inl_event (hd [] inner) in
        let cur := if o_current o then [ECurrent (Z.of_nat n)] else [] in
        let num := [ENumber (Z.of_nat n) (o_number o)] in
        (if o_numfirst o then num ++ cur ++ ins else cur ++ ins ++ num) ++ emit (S n) os' (tl inner)
    end.

  Fixpoint translate (d : list jevent) (cs : CS) (n : nat) : option (list event * list oinfo) :=
    match d with
    | [] => Some ([], [])
    | JInl i :: t =>
        match translate t cs n with
        | Some (es, os) => Some (inl_event i :: es, os)
        | None => None
        end
    | JNum e inner :: t =>
        match cstep e cs with
        | None => None
        | Some (cs', os) =>
            match translate t cs' (n + length os)%nat with
            | Some (es, os2) => Some (emit n os inner ++ es, os ++ os2)
            | None => None
            end
        end
    end.

  (* the numbering events alone *)
  Fixpoint numbering_part (d : list jevent) : list CE :=
    match d with
    | [] => []
    | JNum e _ :: t => e :: numbering_part t
    | JInl _ :: t => numbering_part t
    end.

  (* the numbering machine run on its own *)
  Fixpoint run_numbering (es : list CE) (cs : CS) : option (list oinfo) :=
    match es with
    | [] => Some []
    | e :: t => match cstep e cs with
                | None => None
                | Some (cs', os) => match run_numbering t cs' with Some os2 => Some (os ++ os2) | None => None end
                end
    end.
End Joint.

(* ---- instance: the numbering machine of C08 ------------------------------------------------------ *)

(* refstepcounter makes the object current iff its counter attribute is not None: every construct of Counters.event has a
   counter attribute ('' when starred) except a theorem-like environment declared by \newtheorem* *)
Definition c08_current (e : Counters.event) (ms : Counters.mstate) : bool :=
  match e with
  | Counters.EThm env =>
      match Counters.lookup_name env (Counters.m_envs ms) with
      | Some (Some _) => true
      | _ => false
      end
  | _ => true
  end.

Definition c08_step (cls depth : Z) (e : Counters.event) (ms : Counters.mstate) : option (Counters.mstate * list oinfo) :=
  match Counters.run_event cls depth e ms with
  | Counters.Ok (ms', outs) =>
      Some (ms', map (fun o : Counters.out => mko (c08_current e ms) (Z.eqb (fst o) Counters.k_row) (snd o))
                     (filter (fun o : Counters.out => negb (Z.eqb (fst o) Counters.k_print)) outs))
  | _ => None
  end.

Definition c08_objects (outs : list Counters.out) : list Counters.out :=
  filter (fun o : Counters.out => negb (Z.eqb (fst o) Counters.k_print)) outs.

Definition translate_c08 (cls depth : Z) (d : list (@jevent Counters.event)) : option (list event * list oinfo) :=
  translate (c08_step cls depth) d (Counters.init_state cls) 0.
