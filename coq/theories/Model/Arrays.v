(* Model of plasTeX/Base/LaTeX/Arrays.py: ArrayRow.digest, ArrayCell.digest (phantom rows and cells that end at the
   next delimiter), the dispatch "tok.digest(tokens)" that ties the open recursion of Model/Lists.v,
   ArrayCell.borders, BorderCommand.applyBorders, ArrayRow.applyBorders, Array.applyBorders (with the removal of
   border-only rows), the numCols part of linkCells, and Array.compileColspec on the unexpanded tokens of the
   column specification.  The Model mirrors the code with the two repairs proposed in notes/C10 (fix-1: span
   counting in BorderCommand.applyBorders; fix-2: "@" always reads its argument).  No proofs here. *)
From Coq Require Import List ZArith Bool.
Import ListNotations.
From Verif Require Import Val Lists TableSpec.
Local Open Scope Z_scope.

(* ------------------------------------------------------------------------------------------------ *)
(* digestion                                                                                          *)

Definition is_cr_k (k : kind) : bool := match k with KCr => true | _ => false end.
Definition is_cell_end_k (k : kind) : bool := match k with KAmp | KCr => true | _ => false end.

(* ArrayRow.digest:
     self.endToken = self.digestUntil(tokens, Array.EndRow)
     if self.endToken is not None: next(tokens); self.endToken.digest(tokens)      (EndRow.digest does nothing) *)
Definition row_digest (dg : dig) (n : nat) (self : tree) (s : stream) : option (tree * stream) :=
  match until_loop dg is_cr_k n self s with
  | None => None
  | Some (self', Some _, s') => Some (self', tl s')
  | Some (self', None, s') => Some (self', s')
  end.

(* ArrayCell.digest:
     self.endToken = self.digestUntil(tokens, (Array.CellDelimiter, Array.EndRow))
     if isinstance(self.endToken, Array.CellDelimiter): next(tokens); self.endToken.digest(tokens)
     else: self.endToken = None
   (colspan / colspec / borders are read off the children afterwards: see [cell_view]; paragraphs() only wraps) *)
Definition cell_digest (dg : dig) (n : nat) (self : tree) (s : stream) : option (tree * stream) :=
  match until_loop dg is_cell_end_k n self s with
  | None => None
  | Some (self', Some (T KAmp _ _), s') => Some (self', tl s')
  | Some (self', _, s') => Some (self', s')
  end.

(* tok.digest(tokens): dispatch on the class of the token *)
Fixpoint dg (f : nat) (tok : tree) (s : stream) : option (tree * stream) :=
  match f with
  | O => None
  | S f' =>
    match kind_of tok with
    | KBegin (EList _) _ => list_digest (dg f') f' tok s      (* List.digest *)
    | KBegin _ _ => env_loop (dg f') f' tok s                 (* Environment.digest (Array.digest continues with applyBorders) *)
    | KItem _ => item_digest (dg f') f' tok s
    | KRow => row_digest (dg f') f' tok s
    | KCell => cell_digest (dg f') f' tok s
    | KBgroup => group_loop (dg f') f' tok s
    | _ => Some (tok, s)                                      (* Macro.digest: pass; MODE_END environments return at once *)
    end
  end.

Definition fuel_for (s : stream) : nat := 2 * length s + 4.

(* the first item of the stream digests the rest *)
Definition digest_top (s : stream) : option (tree * stream) :=
  match s with
  | [] => Some (leaf (KCmd 0) 0, [])
  | tok :: r => dg (fuel_for s) tok r
  end.

(* ------------------------------------------------------------------------------------------------ *)
(* what the border code sees of a digested cell                                                       *)

Definition rule_of (k : kind) : option rule :=
  match k with KHline => Some RH | KCline a b => Some (RC a b) | _ => None end.

(* for i in range(len(self)-1, -1, -1) / for item in self:
       if item.isElementContentWhitespace: continue
       if isinstance(item, Array.hline): horiz.append(item); continue
       break
   returns the rules met and whether the scan ran off the end without a break *)
Fixpoint scan_rules (l : list tree) : list rule * bool :=
  match l with
  | [] => ([], true)
  | t :: r =>
      if is_ws t then scan_rules r
      else match rule_of (kind_of t) with
           | Some ru => let (rs, e) := scan_rules r in (ru :: rs, e)
           | None => ([], false)
           end
  end.

(* for item in self: if item.attributes and 'colspan' in item.attributes: self.attributes['colspan'] = item.attributes['colspan']
                      if hasattr(item, 'colspec') and not isinstance(item, Array): self.colspec = item.colspec
   the last child that carries them wins.  Carriers: a \multicolumn, and an ArrayCell that took them from one of its own
   children (a cell directly inside a cell only arises from ill-formed streams) *)
Fixpoint multi_of (t : tree) : option (Z * colstyle) :=
  match t with
  | T (KMulti n col _) _ _ => Some (n, col)
  | T KCell _ ch => fold_left (fun acc c => match multi_of c with Some p => Some p | None => acc end) ch None
  | _ => None
  end.
Definition last_multi (l : list tree) : option (Z * colstyle) :=
  fold_left (fun acc c => match multi_of c with Some p => Some p | None => acc end) l None.

(* isBorderOnly: every item of every paragraph is whitespace or a BorderCommand; paragraphs() has put every child that is
   not itself a \par into some paragraph, so this is a test on the children *)
Definition border_only_item (t : tree) : bool :=
  is_ws t || (match kind_of t with KPar => true | _ => false end)
  || (match rule_of (kind_of t) with Some _ => true | None => false end).

Definition cell_view (cell : tree) : acell :=
  let ch := children cell in
  let (tr, all) := scan_rules (rev ch) in
  let (ld, _) := scan_rules ch in
  let m := last_multi ch in
  (* the same objects found by both scans end up with position BORDER_BEFORE *)
  mkA (match m with Some (n, _) => n | None => 1 end)
      (if all then tr ++ ld else ld)
      (if all then [] else tr)
      (forallb border_only_item ch)
      (match m with Some (_, col) => Some col | None => None end).

(* a row the border code can handle: every child is an ArrayCell *)
Definition is_cell (t : tree) : bool := match kind_of t with KCell => true | _ => false end.
Definition is_row (t : tree) : bool := match kind_of t with KRow => true | _ => false end.
Definition row_view (row : tree) : list acell := map cell_view (children row).

(* ------------------------------------------------------------------------------------------------ *)
(* BorderCommand.applyBorders(cells, location)   -- with fix-1                                         *)

Definition mark (top : bool) (st : cstyle) : cstyle :=
  if top then mkS true (s_bottom st) (s_left st) (s_right st) (s_align st)
  else mkS (s_top st) true (s_left st) (s_right st) (s_align st).

(* colnum = 1
   for cell in cells:
       colspan = cell.attributes.get('colspan', 1)
       if colnum + colspan - 1 < start or colnum > end: colnum += colspan; continue
       cell.style['border-<location>-...'] = ...
       colnum += colspan *)
Fixpoint apply_rule (r : rule) (top : bool) (colnum : Z) (spans : list Z) (sts : list cstyle) : list cstyle :=
  match spans, sts with
  | sp :: spans', st :: sts' =>
      (if covers colnum sp r then mark top st else st) :: apply_rule r top (colnum + sp) spans' sts'
  | _, _ => sts
  end.

(* ArrayRow.applyBorders(tocells, location): for cell in self: for border in horiz: border.applyBorders(tocells, location)
   location None = taken from the position of the rule in its cell (BEFORE -> top, AFTER -> bottom) *)
Definition apply_rules (top : bool) (rs : list rule) (spans : list Z) (sts : list cstyle) : list cstyle :=
  fold_left (fun acc r => apply_rule r top 1 spans acc) rs sts.

Definition apply_cell (loc : option bool) (c : acell) (spans : list Z) (sts : list cstyle) : list cstyle :=
  match loc with
  | Some top => apply_rules top (a_trail c) spans (apply_rules top (a_lead c) spans sts)
  | None => apply_rules false (a_trail c) spans (apply_rules true (a_lead c) spans sts)
  end.

Definition apply_row (loc : option bool) (src : list acell) (spans : list Z) (sts : list cstyle) : list cstyle :=
  fold_left (fun acc c => apply_cell loc c spans acc) src sts.

(* for spec, cell in zip(self.colspec, cells):  (cells = each cell repeated colspan times)
       spec = getattr(cell, 'colspec', spec); cell.style.update(spec.style) *)
Definition upd (st : cstyle) (spec : colstyle) : cstyle :=
  mkS (s_top st) (s_bottom st) (s_left st || c_left spec) (s_right st || c_right spec)
      (if c_align spec =? 0 then s_align st else c_align spec).

Fixpoint expand_cells (idx : nat) (row : list acell) : list (nat * option colstyle) :=
  match row with
  | [] => []
  | c :: r => repeat (idx, a_own c) (Z.to_nat (a_span c)) ++ expand_cells (S idx) r
  end.

Fixpoint upd_nth (i : nat) (spec : colstyle) (sts : list cstyle) : list cstyle :=
  match sts, i with
  | st :: r, O => upd st spec :: r
  | st :: r, S i' => st :: upd_nth i' spec r
  | [], _ => []
  end.

Fixpoint zip_specs (cols : list colstyle) (cells : list (nat * option colstyle)) (sts : list cstyle) : list cstyle :=
  match cols, cells with
  | spec :: cols', (i, own) :: cells' =>
      zip_specs cols' cells' (upd_nth i (match own with Some o => o | None => spec end) sts)
  | _, _ => sts
  end.

(* ------------------------------------------------------------------------------------------------ *)
(* Array.applyBorders                                                                                 *)

Definition set_nth {A} (i : nat) (x : A) (l : list A) : list A :=
  firstn i l ++ match skipn i l with [] => [] | _ :: r => x :: r end.

(* state: styles of every row (by index), which rows are marked for removal *)
Fixpoint ab_loop (cols : list colstyle) (all : list (list acell)) (lastrow : nat)
         (todo : list (list acell)) (i : nat) (prev : option nat)
         (sts : list (list cstyle)) (dead : list bool) : list (list cstyle) * list bool :=
  match todo with
  | [] => (sts, dead)
  | row :: rest =>
      if row_bonly row then
        let sts' :=
          if Nat.eqb i 0 && negb (Nat.eqb lastrow 0) then
            (* row.applyBorders(self[1], 'top') *)
            set_nth 1 (apply_row (Some true) row (map a_span (nth 1 all [])) (nth 1 sts [])) sts
          else match prev with
               | Some p => set_nth p (apply_row (Some false) row (map a_span (nth p all [])) (nth p sts [])) sts
               | None => sts
               end in
        ab_loop cols all lastrow rest (S i) prev sts' (dead ++ [true])
      else
        let own := apply_row None row (map a_span row) (nth i sts []) in
        let own' := match cols with [] => own | _ => zip_specs cols (expand_cells 0 row) own end in
        ab_loop cols all lastrow rest (S i) (Some i) (set_nth i own' sts) (dead ++ [false])
  end.

Definition apply_borders (cols : list colstyle) (rows : list (list acell)) : list (option (list cstyle)) :=
  let init := map (fun row => map (fun _ => s_empty) row) rows in
  let (sts, dead) := ab_loop cols rows (length rows - 1) rows 0 None init [] in
  map (fun p => if (snd p : bool) then None else Some (fst p)) (combine sts dead).

(* linkCells: self.numCols = max(sum of colspans per remaining row)   (-1: no row remains, numCols is not set) *)
Definition num_cols (rows : list (list acell)) (res : list (option (list cstyle))) : Z :=
  fold_left (fun m p => match snd p with Some _ => Z.max m (row_width (fst p)) | None => m end)
            (combine rows res) (-1).

(* ------------------------------------------------------------------------------------------------ *)
(* Array.compileColspec   -- with fix-2                                                               *)

Inductive cres := COk (cols : list colstyle) | CCrash | CUnmodelled | COutOfFuel.

Fixpoint skip_sp (s : list ctok) : list ctok :=
  match s with CSp :: r => skip_sp r | _ => s end.

(* TeX.readToken on unexpanded tokens, after the { : collect up to the matching } *)
Fixpoint read_group (level : nat) (s : list ctok) (acc : list ctok) : option (list ctok * list ctok) :=
  match s with
  | [] => None                                   (* would run into the sentinel: not modelled *)
  | CLb :: r => read_group (S level) r (acc ++ [CLb])
  | CRb :: r => match level with
                | O | S O => Some (acc, r)
                | S l' => read_group l' r (acc ++ [CRb])
                end
  | t :: r => read_group level r (acc ++ [t])
  end.

(* tex.readArgument(): optional blanks, then one token or one brace group *)
Definition read_arg (s : list ctok) : option (list ctok * list ctok) :=
  match skip_sp s with
  | [] => None
  | CLb :: r => read_group 1 r []
  | t :: r => Some ([t], r)
  end.

Fixpoint digits_val (l : list ctok) (acc : Z) : option Z :=
  match l with
  | [] => Some acc
  | CT c :: r => if (48 <=? c) && (c <=? 57) then digits_val r (10 * acc + (c - 48)) else None
  | _ => None
  end.

Definition set_right_last (out : list colstyle) : list colstyle :=
  match rev out with
  | c :: r => rev r ++ [mkCol (c_align c) (c_left c) true]
  | [] => []
  end.

Definition tok_code (t : ctok) : Z := match t with CT c => c | CLb => -1 | CRb => -2 | CSp => -3 end.
Definition tok_col (t : ctok) : colstyle := mkCol (align_of (tok_code t)) false false.
Definition takes_arg (t : ctok) : bool := argcol_char (tok_code t).

(* for tok in tex.itertokens(): ... ; the tokens pushed back by "*" are put in front of the remaining ones *)
Fixpoint compile (f : nat) (s : list ctok) (out : list colstyle) (left : bool) : cres :=
  match f with
  | O => COutOfFuel
  | S f' =>
    match s with
    | [] => if left then match out with
                         | c :: r => COk (mkCol (c_align c) true (c_right c) :: r)
                         | [] => CCrash                    (* output[0]: IndexError *)
                         end
            else COk out
    | t :: r =>
      let c := tok_code t in
      if c =? -3 then compile f' r out left                (* tok.isElementContentWhitespace *)
      else if c =? 124 then                                (* | *)
        match out with
        | [] => compile f' r out true
        | _ => compile f' r (set_right_last out) left
        end
      else if c =? 62 then                                 (* > : before = tex.readArgument() *)
        match read_arg r with Some (_, r') => compile f' r' out left | None => CUnmodelled end
      else if c =? 60 then                                 (* < : output[-1].after = tex.readArgument() *)
        match read_arg r with
        | Some (_, r') => match out with [] => CCrash | _ => compile f' r' out left end
        | None => CUnmodelled
        end
      else if c =? 64 then                                 (* @ : the argument is read whether or not a column precedes (fix-2) *)
        match read_arg r with Some (_, r') => compile f' r' out left | None => CUnmodelled end
      else if c =? 42 then                                 (* * : num copies of spec pushed back *)
        match read_arg r with
        | Some (num, r') =>
            match digits_val num 0, num with
            | Some n, _ :: _ =>
                match read_arg r' with
                | Some (spec, r'') => compile f' (rep (Z.to_nat n) spec ++ r'') out left
                | None => CUnmodelled
                end
            | _, _ => CUnmodelled
            end
        | None => CUnmodelled
        end
      else if takes_arg t then                             (* p, d: the width / delimiter argument *)
        match read_arg r with Some (_, r') => compile f' r' (out ++ [tok_col t]) left | None => CUnmodelled end
      else compile f' r (out ++ [tok_col t]) left
    end
  end.

Definition compile_fuel : nat := 5000.
Definition compile_colspec (s : list ctok) : cres := compile compile_fuel s [] false.

(* ------------------------------------------------------------------------------------------------ *)
(* observations                                                                                        *)

Definition obs_style (st : cstyle) : val :=
  VL [ofB (s_top st); ofB (s_bottom st); ofB (s_left st); ofB (s_right st); VI (s_align st)].

(* the table an Array node ends up as: per row either removed (0) or (1 (span style)...); [] when some child is not a
   row of cells (the border code is then outside what is modelled) *)
Definition obs_array (cols : list colstyle) (rows : list tree) : val :=
  if forallb (fun r => is_row r && forallb is_cell (children r)) rows then
    let views := map row_view rows in
    let res := apply_borders cols views in
    VL [VI 1; VI (num_cols views res);
        VL (map (fun p => match snd p with
                          | None => VL [VI 0]
                          | Some sts => VL [VI 1; VL (map (fun q => VL [VI (a_span (fst q)); obs_style (snd q)])
                                                         (combine (fst p) sts))]
                          end) (combine views res))]
  else VL [VI 0].

Fixpoint obs (t : tree) : val :=
  match t with
  | T k d ch =>
      VL [VL (obs_kind k);
          (match k with KBegin (EArr _) cols => obs_array cols ch | _ => VL [] end);
          VL (map obs ch)]
  end.

(* ------------------------------------------------------------------------------------------------ *)
(* wire                                                                                               *)

Definition get_ctok (v : val) : option ctok :=
  match v with
  | VI (-1) => Some CLb
  | VI (-2) => Some CRb
  | VI (-3) => Some CSp
  | VI c => Some (CT c)
  | _ => None
  end.
Definition get_ctoks (v : val) : option (list ctok) := match v with VL l => mapM get_ctok l | _ => None end.

Definition obs_cres (r : cres) : val :=
  match r with
  | COk cols => VL [VI 0; VL (map obs_col cols)]
  | CCrash => v_crash 0
  | CUnmodelled => VL [VI (-4)]
  | COutOfFuel => v_outoffuel
  end.

(* abstract documents on the wire; column specifications arrive as tokens and are compiled here, as Array.invoke and
   multicolumn.invoke do.  A specification that does not compile makes the whole case that outcome. *)
Inductive dres := DOk (c : content) | DBad | DSpec (r : cres).

Definition dmap {A} (f : A -> dres) (l : list A) : option (list content) + dres :=
  (fix go (l : list A) : option (list content) + dres :=
     match l with
     | [] => inl (Some [])
     | x :: xs => match f x with
                  | DOk c => match go xs with inl (Some cs) => inl (Some (c :: cs)) | other => other end
                  | e => inr e
                  end
     end) l.

Fixpoint get_content (v : val) : dres :=
  match v with
  | VL [VI 0; VL k] => match get_kind k with Some k' => DOk (CLeaf k') | None => DBad end
  | VL [VI 1; VL body] =>
      match dmap get_content body with inl (Some b) => DOk (CGroup b) | inr e => e | _ => DBad end
  | VL [VI 2; VL body] =>
      match dmap get_content body with inl (Some b) => DOk (CMath b) | inr e => e | _ => DBad end
  | VL [VI 6; VI c; VL body] =>
      match dmap get_content body with inl (Some b) => DOk (CDecl c b) | inr e => e | _ => DBad end
  | VL [VI 3; VI ak; spec; VL rows] =>
      match get_ctoks spec with
      | None => DBad
      | Some toks =>
        match compile_colspec toks with
        | COk cols =>
            let cell := fun c => match c with
                                 | VL body => dmap get_content body
                                 | _ => inr DBad end in
            let row := fun r => match r with
                                | VL cells =>
                                    (fix go (l : list val) : option (list (list content)) + dres :=
                                       match l with
                                       | [] => inl (Some [])
                                       | x :: xs => match cell x with
                                                    | inl (Some c) => match go xs with inl (Some cs) => inl (Some (c :: cs)) | other => other end
                                                    | inr e => inr e
                                                    | _ => inr DBad
                                                    end
                                       end) cells
                                | _ => inr DBad end in
            match (fix go (l : list val) : option (list (list (list content))) + dres :=
                     match l with
                     | [] => inl (Some [])
                     | x :: xs => match row x with
                                  | inl (Some c) => match go xs with inl (Some cs) => inl (Some (c :: cs)) | other => other end
                                  | inr e => inr e
                                  | _ => inr DBad
                                  end
                     end) rows with
            | inl (Some rs) => DOk (CTable ak cols rs)
            | inr e => e
            | _ => DBad
            end
        | r => DSpec r
        end
      end
  | VL [VI 4; VI lk; VL pre; VL items] =>
      match (fix go (l : list val) : option (list (option (list Z) * list content)) + dres :=
               match l with
               | [] => inl (Some [])
               | VL [VI 0; _; VL body] :: xs =>
                   match dmap get_content body with
                   | inl (Some b) => match go xs with inl (Some r) => inl (Some ((None, b) :: r)) | other => other end
                   | inr e => inr e
                   | _ => inr DBad
                   end
               | VL [VI 1; t; VL body] :: xs =>
                   match getZs t, dmap get_content body with
                   | Some t', inl (Some b) => match go xs with inl (Some r) => inl (Some ((Some t', b) :: r)) | other => other end
                   | _, inr e => inr e
                   | _, _ => inr DBad
                   end
               | _ => inr DBad
               end) items with
      | inl (Some its) => match mapM getB pre with Some pre' => DOk (CList lk pre' its) | None => DBad end
      | inr e => e
      | _ => DBad
      end
  (* \multicolumn{n}{spec}{text}: the specification is compiled and its first column kept (.pop(0)) *)
  | VL [VI 5; VI n; spec; body] =>
      match get_ctoks spec, getZs body with
      | Some toks, Some b =>
          match compile_colspec toks with
          | COk (col :: _) => DOk (CLeaf (KMulti n col b))
          | COk [] => DSpec CCrash
          | r => DSpec r
          end
      | _, _ => DBad
      end
  | _ => DBad
  end.

Definition obs_digest (r : option (tree * stream)) : val :=
  match r with
  | None => v_outoffuel
  | Some (t, rest) => VL [VI 0; obs t; VL (map (fun r => VL [obs_item r; obs r]) rest)]
  end.

(* cases:
   (0 content)        print the abstract document at depth 0 and digest it: (0 (items...) digest-observation demanded-tree)
   (1 (item...))      digest a raw item stream
   (2 (ctok...))      compile a column specification
   (3 cols rows)      apply borders to rows given directly as views (not used on the wire at present) *)
Definition run_case (v : val) : val :=
  match v with
  | VL [VI 0; c] =>
      match get_content c with
      | DOk c' => let s := print 0 c' in
                  VL [VI 0; VL (map obs_item s); obs_digest (digest_top s); obs (tree_of 0 c')]
      | DBad => v_bad_input
      | DSpec r => obs_cres r
      end
  | VL [VI 1; VL items] =>
      match mapM get_item items with
      | Some s => obs_digest (digest_top s)
      | None => v_bad_input
      end
  | VL [VI 2; toks] =>
      match get_ctoks toks with
      | Some s => obs_cres (compile_colspec s)
      | None => v_bad_input
      end
  | _ => v_bad_input
  end.
