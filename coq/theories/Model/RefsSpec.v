(* C09 -- Spec: what the property demands, written from the property text and LaTeX's rules, not from the
   Python.  It shares with the Model only the vocabulary (events, the name a label argument denotes).

   * The name a \label / \ref argument denotes is the argument without surrounding blanks ([strip]); an empty
     name labels / references nothing.
   * A label attaches to the object that is current where the label is written (or to the explicitly given
     node).  Two readings of "current":
       [attachments]      the most recently numbered object                        (flat rule)
       [attachments_tex]  LaTeX's rule: \@currentlabel is local to the TeX group, so at the end of a group /
                          environment the object that was current when it began is current again.
     They coincide on documents where no label follows the end of a group that numbered something
     ([well_placed]); the property text speaks of labels "written in a numbered object (or directly after a
     sectioning command)", for which LaTeX's rule is the reference.
   * Every reference (the last request made for a given holder / key) resolves to the object its label is
     attached to, wherever the label is in the document; otherwise to no object. *)
From Coq Require Import List ZArith Bool.
Import ListNotations.
From Verif Require Import Refs.
Local Open Scope Z_scope.

Definition name_of (l : str) : option str := let k := strip l in if is_empty k then None else Some k.

(* ---- which object does each label name: flat rule -------------------------------------------- *)
Fixpoint attach_flat (cur : option obj) (es : list event) : list (str * obj) :=
  match es with
  | [] => []
  | ECurrent o :: t => attach_flat (Some o) t
  | ELabel l node :: t =>
      match name_of l, (match node with Some n => Some n | None => cur end) with
      | Some k, Some o => (k, o) :: attach_flat cur t
      | _, _ => attach_flat cur t
      end
  | _ :: t => attach_flat cur t
  end.
Definition attachments (es : list event) : list (str * obj) := attach_flat None es.

(* ---- LaTeX's rule: the current object is local to the group ----------------------------------- *)
Fixpoint attach_tex (cur : option obj) (stk : list (option obj)) (es : list event) : list (str * obj) :=
  match es with
  | [] => []
  | ECurrent o :: t => attach_tex (Some o) stk t
  | EOpen :: t => attach_tex cur (cur :: stk) t
  | EClose :: t => match stk with c :: stk' => attach_tex c stk' t | [] => attach_tex cur [] t end
  | ELabel l node :: t =>
      match name_of l, (match node with Some n => Some n | None => cur end) with
      | Some k, Some o => (k, o) :: attach_tex cur stk t
      | _, _ => attach_tex cur stk t
      end
  | _ :: t => attach_tex cur stk t
  end.
Definition attachments_tex (es : list event) : list (str * obj) := attach_tex None [] es.

(* every label is written where both rules agree on the current object *)
Fixpoint well_placed_from (cf ct : option obj) (stk : list (option obj)) (es : list event) : bool :=
  match es with
  | [] => true
  | ECurrent o :: t => well_placed_from (Some o) (Some o) stk t
  | EOpen :: t => well_placed_from cf ct (ct :: stk) t
  | EClose :: t => match stk with c :: stk' => well_placed_from cf c stk' t | [] => well_placed_from cf ct [] t end
  | ELabel l node :: t =>
      match name_of l, node with
      | Some _, None => (match cf, ct with
                         | Some a, Some b => Z.eqb a b
                         | None, None => true
                         | _, _ => false
                         end) && well_placed_from cf ct stk t
      | _, _ => well_placed_from cf ct stk t
      end
  | _ :: t => well_placed_from cf ct stk t
  end.
Definition well_placed (es : list event) : bool := well_placed_from None None [] es.

Definition eff_labels (es : list event) : list str := map fst (attachments es).
Definition target (es : list event) (l : str) : option obj := dget str_eqb l (attachments es).
Definition target_tex (es : list event) (l : str) : option obj := dget str_eqb l (attachments_tex es).

(* ---- references ------------------------------------------------------------------------------ *)
(* the requests in document order: holder, key, label name *)
Fixpoint requests (es : list event) : list ((holder * key) * str) :=
  match es with
  | [] => []
  | ERef r k l :: t => match name_of l with Some n => ((r, k), n) :: requests t | None => requests t end
  | _ :: t => requests t
  end.
(* what holder r asks for under key k: its last request *)
Definition last_ref (es : list event) (r : holder) (k : key) : option str := dget hk_eqb (r, k) (rev (requests es)).

(* the resolution the property demands: an object, or no object *)
Inductive res := RObj (o : obj) | RNone (l : str).
Definition resolution (att : list (str * obj)) (es : list event) (r : holder) (k : key) : option res :=
  match last_ref es r k with
  | None => None
  | Some l => match dget str_eqb l att with Some o => Some (RObj o) | None => Some (RNone l) end
  end.
Definition res_of (v : tgt) : res := match v with TObj o => RObj o | TPlace _ l => RNone l end.

(* the identifier of an object: the last label attached to it *)
Definition swap (p : str * obj) : obj * str := (snd p, fst p).
Definition id_spec (es : list event) (o : obj) : option str := dget Z.eqb o (rev (map swap (attachments es))).

(* the number of an object: what was last assigned to it *)
Fixpoint numberings (es : list event) : list (obj * option str) :=
  match es with
  | [] => []
  | ENumber o n :: t => (o, n) :: numberings t
  | _ :: t => numberings t
  end.
Definition number_spec (es : list event) (o : obj) : option str :=
  match dget Z.eqb o (rev (numberings es)) with Some n => n | None => None end.

(* references only / everything else *)
Definition is_ref (e : event) : bool := match e with ERef _ _ _ => true | _ => false end.
Definition skeleton (es : list event) : list event := filter (fun e => negb (is_ref e)) es.

(* executable duplicate test for the judge *)
Fixpoint nodup_b (l : list str) : bool :=
  match l with
  | [] => true
  | x :: t => negb (existsb (str_eqb x) t) && nodup_b t
  end.
