(* Model of TeX.processIfContent (plasTeX/TeX.py): split the token stream of a conditional on \or / \else at
   nesting 0, stop at the matching \fi, push the selected case back. Faithful to the Python loop, including
   the "\newif skips the next token" rule and nesting counted on every macro whose name starts with "if". *)
From Coq Require Import List ZArith Bool.
Import ListNotations.
From Verif Require Import Val.
Local Open Scope Z_scope.

Inductive ctok :=
| KIf (name : Z)      (* any macro whose name starts with "if" *)
| KFi | KElse | KOr | KNewif
| KTok (n : Z).       (* anything else *)

Inductive which := WBool (b : bool) | WCase (z : Z).

(* result of the scanning loop: the cases (in order), the index of the \else case if one was seen,
   the tokens after the terminating \fi, and whether a terminating \fi was found *)
Record scanned := { cases : list (list ctok); elsecase : option nat; rest : list ctok; terminated : bool }.

(* cur : current case, reversed; done : finished cases, reversed *)
Fixpoint scan_go (ts : list ctok) (nesting : nat) (cur : list ctok) (done : list (list ctok)) (els : option nat)
  : option scanned :=
  match ts with
  | [] => Some {| cases := rev (rev cur :: done); elsecase := els; rest := []; terminated := false |}
  | t :: ts' =>
    match t with
    | KNewif =>
        match ts' with
        | nx :: ts'' => scan_go ts'' nesting (nx :: t :: cur) done els
        | [] => None                       (* next(iterator) on an exhausted iterator raises *)
        end
    | KIf _ => scan_go ts' (S nesting) (t :: cur) done els
    | KFi =>
        match nesting with
        | O => Some {| cases := rev (rev cur :: done); elsecase := els; rest := ts'; terminated := true |}
        | S n => scan_go ts' n (t :: cur) done els
        end
    | KElse =>
        match nesting with
        | O => scan_go ts' nesting [] (rev cur :: done) (Some (S (length done)))
        | S _ => scan_go ts' nesting (t :: cur) done els
        end
    | KOr =>
        match nesting with
        | O => scan_go ts' nesting [] (rev cur :: done) els
        | S _ => scan_go ts' nesting (t :: cur) done els
        end
    | KTok _ => scan_go ts' nesting (t :: cur) done els
    end
  end.

Definition scan (ts : list ctok) : option scanned := scan_go ts O [] [] None.

(* after the loop: add the empty else case when no \else was seen; False and out-of-range selectors pick the else case *)
Definition select (w : which) (sc : scanned) : list ctok :=
  let '(cs, e) := match elsecase sc with
                  | Some e => (cases sc, e)
                  | None => (cases sc ++ [[]], length (cases sc))
                  end in
  let idx := match w with
             | WBool true => O
             | WBool false => e
             | WCase z => if (0 <=? z) && (z <? Z.of_nat e) then Z.to_nat z else e
             end in
  nth idx cs [].

(* processIfContent: the token stream afterwards = selected case pushed back in front of the rest *)
Definition process (w : which) (ts : list ctok) : option (list ctok) :=
  match scan ts with
  | Some sc => Some (select w sc ++ rest sc)
  | None => None
  end.

(* ---- wire ---- *)
Definition ctok_of (v : val) : option ctok :=
  match v with
  | VL [VI 0; VI n] => Some (KIf n) | VI 1 => Some KFi | VI 2 => Some KElse | VI 3 => Some KOr | VI 4 => Some KNewif
  | VL [VI 5; VI n] => Some (KTok n) | _ => None
  end.
Definition ctok_val (t : ctok) : val :=
  match t with KIf n => VL [VI 0; VI n] | KFi => VI 1 | KElse => VI 2 | KOr => VI 3 | KNewif => VI 4 | KTok n => VL [VI 5; VI n] end.
Definition which_of (v : val) : option which :=
  match v with VL [VI 0; VI b] => Some (WBool (negb (b =? 0))) | VL [VI 1; VI z] => Some (WCase z) | _ => None end.

(* case: (which (tok ...)) -> (0 (tok ...)) | crash *)
Definition run_scan_case (v : val) : val :=
  match v with
  | VL [w; VL ts] =>
    match which_of w, mapM ctok_of ts with
    | Some w, Some ts => match process w ts with Some out => VL [VI 0; VL (map ctok_val out)] | None => v_crash 0 end
    | _, _ => v_bad_input
    end
  | _ => v_bad_input
  end.
