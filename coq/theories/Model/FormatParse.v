(* C08 -- Model of the two regular-expression passes of TheCounter.invoke (plasTeX/__init__.py):

     format = re.sub(r'\$(\w+)', r'${\1}', self.format)
     t = re.sub(r'\$\{\s*(\w+)(?:\.(\w+))?\s*\}', counterValue, format)

   as a deterministic scanner producing the parsed format ([fmt]: literal text and ${name} / ${name.attr} references).
   The character classes \w, \s and the literals $ { } . are pairwise disjoint, so the backtracking of Python's re never
   finds a match the left-to-right greedy scan misses.  ASCII only: a code point above 127 is neither \w nor \s here. *)
From Coq Require Import List ZArith Bool.
Import ListNotations.
From Verif Require Import CounterSyntax.
Local Open Scope Z_scope.

Definition is_word (c : Z) : bool :=
  ((48 <=? c) && (c <=? 57)) || ((65 <=? c) && (c <=? 90)) || ((97 <=? c) && (c <=? 122)) || (c =? 95).
(* str patterns: \s is [ \t\n\r\f\v] and the separators FS GS RS US *)
Definition is_space (c : Z) : bool := (c =? 32) || ((9 <=? c) && (c <=? 13)) || ((28 <=? c) && (c <=? 31)).

Definition starts_word (s : str) : bool := match s with c :: _ => is_word c | [] => false end.

(* pass 1: every $word becomes ${word}; [inword]: a "${" has been written and the word is still running *)
Fixpoint pass1 (inword : bool) (s : str) : str :=
  match s with
  | [] => if inword then [125] else []
  | c :: r =>
      if inword && is_word c then c :: pass1 true r
      else (if inword then [125] else [])
           ++ (if (c =? 36) && starts_word r then 36 :: 123 :: pass1 true r else c :: pass1 false r)
  end.

(* \w* : the longest run of word characters, and what follows *)
Fixpoint take_word (s : str) : str * str :=
  match s with
  | c :: r => if is_word c then let '(w, r') := take_word r in (c :: w, r') else ([], s)
  | [] => ([], [])
  end.

Fixpoint skip_space (s : str) : str :=
  match s with
  | c :: r => if is_space c then skip_space r else s
  | [] => []
  end.

(* the text after "${":  \s*(\w+)(?:\.(\w+))?\s*\}  ->  (name, attribute, text after the brace) *)
Definition match_ref (s : str) : option (name * option str * str) :=
  let '(nm, s2) := take_word (skip_space s) in
  match nm with
  | [] => None
  | _ :: _ =>
      let '(attr, s3) :=
        match s2 with
        | 46 :: r => let '(a, r') := take_word r in
                     match a with [] => (None, s2) | _ :: _ => (Some a, r') end
        | _ => (None, s2)
        end in
      match skip_space s3 with
      | 125 :: rest => Some (nm, attr, rest)
      | _ => None
      end
  end.

Definition attr_arabic : str := [97; 114; 97; 98; 105; 99].
Definition attr_Roman : str := [82; 111; 109; 97; 110].
Definition attr_roman : str := [114; 111; 109; 97; 110].
Definition attr_Alph : str := [65; 108; 112; 104].
Definition attr_alph : str := [97; 108; 112; 104].
Definition attr_fnsymbol : str := [102; 110; 115; 121; 109; 98; 111; 108].

(* getattr(counter, attr): the six properties of class Counter; anything else raises AttributeError
   (value, name, resetby, counters ... are attributes too, but not strings: they are outside the Model, RUnknown) *)
Definition repr_of_attr (a : str) : repr :=
  if str_eqb a attr_arabic then RArabic else if str_eqb a attr_Roman then RRoman else if str_eqb a attr_roman then Rroman
  else if str_eqb a attr_Alph then RAlph else if str_eqb a attr_alph then Ralph else if str_eqb a attr_fnsymbol then RFnsymbol
  else RUnknown.

Definition flush (lit : str) (tail : fmt) : fmt :=
  match lit with [] => tail | _ :: _ => PLit (rev lit) :: tail end.

(* pass 2: [skip] characters are still part of the last match; [lit] is the literal text collected so far, reversed *)
Fixpoint scan (skip : nat) (lit : str) (s : str) : fmt :=
  match s with
  | [] => flush lit []
  | c :: r =>
      match skip with
      | S k => scan k lit r
      | O =>
          match (if c =? 36 then match r with
                                 | 123 :: r2 => match match_ref r2 with
                                                | Some (nm, attr, rest) => Some (nm, attr, S (length r2 - length rest))
                                                | None => None
                                                end
                                 | _ => None
                                 end
                 else None) with
          | Some (nm, attr, k) =>
              flush lit (PRef nm (match attr with Some a => Some (repr_of_attr a) | None => None end) :: scan k [] r)
          | None => scan O (c :: lit) r
          end
      end
  end.

Definition parse_format (s : str) : fmt := scan O [] (pass1 false s).

(* the strings Context.newcounter and \newtheorem build *)
Definition default_format_string (nm : name) : str := [36; 123] ++ nm ++ [125].                                  (* '${%s}' % name *)
Definition theorem_format_string (within nm : name) : str :=
  [36; 123; 116; 104; 101] ++ within ++ [125; 46; 36; 123] ++ nm ++ [125].                                       (* '${the%s}.${%s}' % (within, name) *)

(* writing a parsed format back *)
Definition attr_name (r : repr) : str :=
  match r with
  | RArabic => attr_arabic | RRoman => attr_Roman | Rroman => attr_roman | RAlph => attr_Alph | Ralph => attr_alph
  | RFnsymbol => attr_fnsymbol | RUnknown => []
  end.
Definition print_piece (p : piece) : str :=
  match p with
  | PLit s => s
  | PRef nm None => [36; 123] ++ nm ++ [125]
  | PRef nm (Some r) => [36; 123] ++ nm ++ [46] ++ attr_name r ++ [125]
  end.
Fixpoint print_fmt (f : fmt) : str :=
  match f with [] => [] | p :: f' => print_piece p ++ print_fmt f' end.

(* equality of parsed formats (used to compare with the table regenerated by the translator, which applies Python's re) *)
Definition repr_eqb (a b : repr) : bool :=
  match a, b with
  | RArabic, RArabic | RRoman, RRoman | Rroman, Rroman | RAlph, RAlph | Ralph, Ralph | RFnsymbol, RFnsymbol | RUnknown, RUnknown => true
  | _, _ => false
  end.
Definition piece_eqb (p q : piece) : bool :=
  match p, q with
  | PLit a, PLit b => str_eqb a b
  | PRef n None, PRef m None => str_eqb n m
  | PRef n (Some a), PRef m (Some b) => str_eqb n m && repr_eqb a b
  | _, _ => false
  end.
Fixpoint fmt_eqb (f g : fmt) : bool :=
  match f, g with
  | [], [] => true
  | p :: f', q :: g' => piece_eqb p q && fmt_eqb f' g'
  | _, _ => false
  end.
