(* Model of plasTeX/Tokenizer.py (Tokenizer.iterchars, Tokenizer.__iter__) and of the category-code
   table in plasTeX/Context.py (whichCode, catcode, setVerbatimCatcodes).
   The default/verbatim tables, the order of the whichCode chain and the token-class table are
   regenerated from the source on every run (Gen/Catcodes.v).

   Input = pushed-back characters ++ unread source, as one list (pushChar = cons): since
   Tokenizer.readline drains the push-back buffer first, the two are indistinguishable. *)
From Coq Require Import List NArith ZArith Bool.
Import ListNotations.
From Verif Require Import Val Catcodes.
Local Open Scope N_scope.

(* category codes, numbered as in Token.CC_* *)
Definition cat := N.
Definition CC_ESCAPE : cat := 0.   Definition CC_BGROUP : cat := 1.   Definition CC_EGROUP : cat := 2.
Definition CC_MATH : cat := 3.     Definition CC_ALIGN : cat := 4.    Definition CC_EOL : cat := 5.
Definition CC_PARAM : cat := 6.    Definition CC_SUPER : cat := 7.    Definition CC_SUB : cat := 8.
Definition CC_IGNORED : cat := 9.  Definition CC_SPACE : cat := 10.   Definition CC_LETTER : cat := 11.
Definition CC_OTHER : cat := 12.   Definition CC_ACTIVE : cat := 13.  Definition CC_COMMENT : cat := 14.
Definition CC_INVALID : cat := 15.

(* Context.categories: 16 strings *)
Definition table := list (list N).
Definition mem (c : N) (l : list N) : bool := existsb (N.eqb c) l.
Definition cls (t : table) (k : N) : list N := nth (N.to_nat k) t [].

(* Context.whichCode: the chain of `if char in c[k]: return k`, then CC_OTHER *)
Fixpoint which_chain (t : table) (c : N) (ks : list N) : cat :=
  match ks with
  | [] => CC_OTHER
  | k :: ks' => if mem c (cls t k) then k else which_chain t c ks'
  end.
Definition which_code (t : table) (c : N) : cat := which_chain t c gen_chain.

(* Context.catcode(char, code): copy, remove char from all 16 strings, append to c[code] unless code = 12 *)
Definition remove_char (c : N) (l : list N) : list N := filter (fun x => negb (N.eqb x c)) l.
Fixpoint append_at (k : nat) (c : N) (t : table) : table :=
  match t, k with
  | [], _ => []
  | l :: t', O => (l ++ [c]) :: t'
  | l :: t', S k' => l :: append_at k' c t'
  end.
Definition set_catcode (t : table) (c : N) (k : cat) : table :=
  let t' := map (remove_char c) t in
  if k =? CC_OTHER then t' else append_at (N.to_nat k) c t'.

Definition default_table : table := gen_default_table.
Definition verbatim_table : table := gen_verbatim_table.

(* ---- iterchars: next significant character, ^^X decoded, ignored/invalid dropped ---- *)
Inductive cres := CEnd | CChar (k : cat) (c : N) (rest : list N).
Definition flip64 (x : N) : N := if 64 <=? x then x - 64 else x + 64.
Definition dropped (k : cat) : bool := (k =? CC_IGNORED) || (k =? CC_INVALID).

Fixpoint next_char (t : table) (l : list N) : cres :=
  match l with
  | [] => CEnd
  | c :: r =>
    let k := which_code t c in
    if k =? CC_SUPER then
      match r with
      | c2 :: r2 =>
        if c2 =? c then
          match r2 with
          | x :: r3 => let c' := flip64 x in
                       let k' := which_code t c' in
                       if dropped k' then next_char t r3 else CChar k' c' r3
          | [] => CChar k c [c]           (* "^^" at the very end: pushChar(token) *)
          end
        else CChar k c r                  (* pushChar(next_char) *)
      | [] => CChar k c []
      end
    else if dropped k then next_char t r else CChar k c r
  end.

(* ---- tokens ---- *)
Inductive tok := Tok (k : cat) (text : list N).
Definition tok_eqb (a b : tok) : bool :=
  match a, b with Tok k1 t1, Tok k2 t2 => (k1 =? k2) && (if list_eq_dec N.eq_dec t1 t2 then true else false) end.
Definition par_tok : tok := Tok CC_ESCAPE [112; 97; 114].
Definition space_tok : tok := Tok CC_SPACE [32].
Definition active_prefix : list N := [97; 99; 116; 105; 118; 101; 58; 58].   (* "active::" *)

(* tokenClasses[code](char): the token carries the category of the registered class; None = TypeError *)
Definition class_tok (k : cat) (c : N) : option tok :=
  match nth (N.to_nat k) gen_token_class_cat None with
  | Some k' => Some (Tok k' [c])
  | None => None
  end.

(* Tokenizer.readline: drop characters through the first '\n' (no decoding, no categories) *)
Fixpoint readline (l : list N) : list N :=
  match l with [] => [] | c :: r => if c =? 10 then r else readline r end.

(* the inner loop of a control word: letters are appended, the first non-letter is pushed back (decoded) *)
Fixpoint cw_fuel (n : nat) (t : table) (acc : list N) (l : list N) : option (list N * list N) :=
  match n with
  | O => None
  | S n' =>
    match next_char t l with
    | CEnd => Some (rev acc, [])
    | CChar k c rest => if k =? CC_LETTER then cw_fuel n' t (c :: acc) rest else Some (rev acc, c :: rest)
    end
  end.

Inductive lst := SN | SM | SS.
Record tst := { lx : lst; prev : option tok; inp : list N }.
Inductive sres := Emit (t : tok) (s : tst) | Skip (s : tst) | Done | Crash.

Definition prev_is (p : option tok) (t : tok) : bool :=
  match p with Some q => tok_eqb q t | None => false end.

(* one turn of the `while 1` loop of Tokenizer.__iter__ (token buffer empty) *)
Definition step (t : table) (s : tst) : sres :=
  match next_char t (inp s) with
  | CEnd => Done
  | CChar k c rest =>
    let emit st tk := Emit tk {| lx := st; prev := Some tk; inp := rest |} in
    if (k =? CC_LETTER) || (k =? CC_OTHER) then
      match class_tok k c with Some tk => emit SM tk | None => Crash end
    else if k =? CC_SPACE then
      match lx s with
      | SM => emit SS space_tok
      | _ => Skip {| lx := lx s; prev := prev s; inp := rest |}
      end
    else if k =? CC_EOL then
      match lx s with
      | SS => Skip {| lx := SN; prev := prev s; inp := rest |}
      | SM => emit SN space_tok
      | SN => let rest' := if c =? 10 then rest else readline rest in
              if prev_is (prev s) par_tok then Skip {| lx := SN; prev := prev s; inp := rest' |}
              else Emit par_tok {| lx := SN; prev := Some par_tok; inp := rest' |}
      end
    else if k =? CC_ESCAPE then
      match next_char t rest with
      | CEnd => let tk := Tok CC_ESCAPE [] in Emit tk {| lx := SM; prev := Some tk; inp := [] |}
      | CChar k1 c1 rest1 =>
        if k1 =? CC_LETTER then
          match cw_fuel (S (length rest1)) t [c1] rest1 with
          | None => Crash
          | Some (w, rest2) => let tk := Tok CC_ESCAPE w in Emit tk {| lx := SS; prev := Some tk; inp := rest2 |}
          end
        else if k1 =? CC_EOL then Emit space_tok {| lx := SS; prev := Some space_tok; inp := rest1 |}
        else let tk := Tok CC_ESCAPE [c1] in Emit tk {| lx := SM; prev := Some tk; inp := rest1 |}
      end
    else if k =? CC_COMMENT then Skip {| lx := SN; prev := prev s; inp := readline rest |}
    else if k =? CC_ACTIVE then emit SM (Tok CC_ESCAPE (active_prefix ++ [c]))
    else match class_tok k c with Some tk => emit SM tk | None => Crash end
  end.

Inductive result := RToks (l : list tok) | RCrash (l : list tok) | RFuel (l : list tok).

(* the consumer may change the table between two pulls: [chg n] = the table after the n-th token *)
Fixpoint run_sched (fuel : nat) (chg : nat -> table -> table) (n : nat) (t : table) (s : tst) (acc : list tok) : result :=
  match fuel with
  | O => RFuel (rev acc)
  | S f =>
    match step t s with
    | Done => RToks (rev acc)
    | Crash => RCrash (rev acc)
    | Emit tk s' => run_sched f chg (S n) (chg (S n) t) s' (tk :: acc)
    | Skip s' => run_sched f chg n t s' acc
    end
  end.

Definition init_state (l : list N) : tst := {| lx := SN; prev := None; inp := l |}.
Definition tokenize_sched (chg : nat -> table -> table) (t : table) (l : list N) : result :=
  run_sched (S (length l)) chg 0 t (init_state l) [].
Definition tokenize (t : table) (l : list N) : result := tokenize_sched (fun _ t => t) t l.

(* ---- wire format ----
   case: (base ((c k) ...) (chars ...) ((n c k) ...))
     base 0 = default table, 1 = verbatim table; then catcode assignments applied in order;
     the string; catcode assignments made after the n-th token has been pulled.
   answer: (0 ((k (chars)) ...)) | (-2 0 tokens-so-far) *)
Definition apply_ops (t : table) (ops : list (N * N)) : table :=
  fold_left (fun t ck => set_catcode t (fst ck) (snd ck)) ops t.

Definition pair_of (v : val) : option (N * N) :=
  match v with VL [a; b] => match getN a, getN b with Some a, Some b => Some (a, b) | _, _ => None end | _ => None end.
Definition triple_of (v : val) : option (nat * (N * N)) :=
  match v with
  | VL [n; a; b] => match getN n, getN a, getN b with Some n, Some a, Some b => Some (N.to_nat n, (a, b)) | _, _, _ => None end
  | _ => None
  end.

Definition sched_of (l : list (nat * (N * N))) : nat -> table -> table :=
  fun n t => apply_ops t (map snd (filter (fun e => Nat.eqb (fst e) n) l)).

Definition tok_val (t : tok) : val := match t with Tok k text => VL [ofN k; ofNs text] end.
Definition result_val (r : result) : val :=
  match r with
  | RToks l => VL [VI 0; VL (map tok_val l)]
  | RCrash l => VL [VI (-2); VI 0; VL (map tok_val l)]
  | RFuel l => VL [VI (-3); VL (map tok_val l)]
  end.

Definition valid_code (k : N) : bool := k <? 16.

(* category tables under grouping (Context.push / Context.pop around \catcode assignments): an assignment changes the table
   of the innermost group only, leaving a group brings back the table that was in force when it was entered.
   ops: (c, k) with k < 16 assigns; k = 16 enters a group; k = 17 leaves one (ignored at the outer level). *)
Fixpoint apply_gops (stack : list table) (cur : table) (ops : list (N * N)) : table :=
  match ops with
  | [] => cur
  | (c, k) :: r =>
    if k =? 16 then apply_gops (cur :: stack) cur r
    else if k =? 17 then match stack with s :: st => apply_gops st s r | [] => apply_gops [] cur r end
    else apply_gops stack (set_catcode cur c k) r
  end.
(* [bal d ops]: starting inside d open groups, ops never leaves more groups than are open and ends with all of them left *)
Fixpoint bal (d : nat) (ops : list (N * N)) : bool :=
  match ops with
  | [] => Nat.eqb d 0
  | (_, k) :: r => if k =? 16 then bal (S d) r else if k =? 17 then match d with S d' => bal d' r | O => false end else bal d r
  end.

Definition run_case (v : val) : val :=
  match v with
  | VL [VI base; VL ops; chars; VL sched] =>
    match mapM pair_of ops, getNs chars, mapM triple_of sched with
    | Some ops, Some chars, Some sched =>
      if forallb (fun ck => valid_code (snd ck)) ops && forallb (fun e => valid_code (snd (snd e))) sched then
        let t0 := if (base =? 0)%Z then default_table else verbatim_table in
        result_val (tokenize_sched (sched_of sched) (apply_ops t0 ops) chars)
      else v_bad_input
    | _, _, _ => v_bad_input
    end
  | VL [VI 8; VL ops; VL cs] =>
    (* table algebra with groups: (8 ops chars) -> which_code of each char after the grouped assignments *)
    match mapM pair_of ops, mapM getN cs with
    | Some ops, Some cs =>
      if forallb (fun ck => snd ck <? 18) ops then
        VL (map (fun c => ofN (which_code (apply_gops [] default_table ops) c)) cs)
      else v_bad_input
    | _, _ => v_bad_input
    end
  | VL [VI 9; VL ops; VL cs] =>
    (* table algebra only: (9 ops chars) -> which_code of each char under default+ops *)
    match mapM pair_of ops, mapM getN cs with
    | Some ops, Some cs =>
      if forallb (fun ck => valid_code (snd ck)) ops then
        VL (map (fun c => ofN (which_code (apply_ops default_table ops) c)) cs)
      else v_bad_input
    | _, _ => v_bad_input
    end
  | _ => v_bad_input
  end.
