(* Model of the LaTeX-source reconstruction of plasTeX (the text handed to MathJax / to the image generator):
     plasTeX/Tokenizer.py        Token.source, EscapeSequence.source
     plasTeX/__init__.py         Macro.source (all three macro modes), sourceChildren, sourceArguments (= argSource,
                                 the concatenated sources of the parsed argument pieces, Macro.parse / TeX.readToken / readGrouping)
     plasTeX/Base/TeX/Text.py    bgroup.source
     plasTeX/Base/LaTeX/Math.py  math.source, displaymath.source, AngleReplacingDelimiter.invoke (argSource rewritten)
     plasTeX/Base/LaTeX/Arrays.py Array.source = Macro.source of a \begin node over the cells' children and the
                                 cell / row end tokens in document order (the tree below carries them flattened)
   A node of the digested document is a tree; [src] is its .source property. *)
From Coq Require Import List NArith ZArith Bool Arith.
Import ListNotations.
From Verif Require Import Val Catcodes Tokenizer Verbatim.
Local Open Scope N_scope.

Inductive mmode := MNone | MBegin | MEnd.        (* Macro.MODE_NONE / MODE_BEGIN / MODE_END *)

Inductive node :=
| NTok (c : N)                                   (* character token of any category: Token.source is the character *)
| NEsc (name : list N)                           (* unexpanded EscapeSequence token *)
| NMacro (mode : mmode) (name : list N) (selfarg : bool) (args : list node) (body : list node)
    (* Macro instance: nodeName, "'self' in attributes", the pieces whose sources make up argSource, childNodes *)
| NGroup (endit : bool) (body : list node)       (* bgroup *)
| NMath (body : list node)                       (* math *)
| NDisplay (mode : mmode) (body : list node).    (* displaymath *)

(* encoding.stringletters() *)
Definition letterb (c : N) : bool := mem c gen_letters.

(* '::' in name *)
Fixpoint has_sep (l : list N) : bool :=
  match l with
  | c :: r => match r with c2 :: _ => ((c =? 58) && (c2 =? 58)) || has_sep r | [] => false end
  | [] => false
  end.
(* name.split('::').pop(): non-overlapping separators from the left, the last piece *)
Fixpoint after_last_sep (l : list N) (cur : list N) : list N :=
  match l with
  | [] => rev cur
  | c :: r =>
    match r with
    | c2 :: r2 => if (c =? 58) && (c2 =? 58) then after_last_sep r2 [] else after_last_sep r (c :: cur)
    | [] => rev (c :: cur)
    end
  end.

Definition s_par : list N := [112; 97; 114].
Definition s_begin : list N := [98; 101; 103; 105; 110].
Definition s_langle : list N := [92; 108; 97; 110; 103; 108; 101; 32].     (* r'\langle ' *)
Definition s_rangle : list N := [92; 114; 97; 110; 103; 108; 101; 32].     (* r'\rangle ' *)

(* EscapeSequence.source *)
Definition esc_source (name : list N) : list N :=
  if nlist_eqb name s_par then [10; 10]
  else if has_sep name then after_last_sep name []
  else 92 :: name ++ [32].

(* Macro.source: name = self.nodeName; if '::' in name: name = name.split('::').pop(); escape = '' *)
Definition esc_of (name : list N) : list N := if has_sep name then [] else [92].
Definition base_of (name : list N) : list N := if has_sep name then after_last_sep name [] else name.

(* len(name) == 1 and name[0] not in letters *)
Definition single_nonletter (base : list N) : bool :=
  match base with [x] => negb (letterb x) | _ => false end.

(* argSource = sourceArguments(self); if not argSource: ' ';  elif argSource[0] in letters and not (...): ' ' + argSource *)
Definition sep_args (base argsrc : list N) : list N :=
  match argsrc with
  | [] => [32]
  | c :: _ => if letterb c && negb (single_nonletter base) then 32 :: argsrc else argsrc
  end.

(* AngleReplacingDelimiter.invoke: a '<' / '>' argument is replaced, argSource becomes r'\langle ' / r'\rangle ' *)
Definition angle_names : list (list N) :=
  [ [108;101;102;116]; [114;105;103;104;116];                                     (* left right *)
    [98;105;103]; [98;105;103;108]; [98;105;103;114]; [66;105;103;108]; [66;105;103;114];   (* big bigl bigr Bigl Bigr *)
    [98;105;103;103;108]; [98;105;103;103;114]; [66;105;103;103;108]; [66;105;103;103;114]; (* biggl biggr Biggl Biggr *)
    [66;105;103]; [98;105;103;103]; [66;105;103;103] ].                           (* Big bigg Bigg *)
Definition angle_name (name : list N) : bool := existsb (nlist_eqb name) angle_names.
Definition angle_src (name argsrc : list N) : list N :=
  if angle_name name then
    if nlist_eqb argsrc [60] then s_langle else if nlist_eqb argsrc [62] then s_rangle else argsrc
  else argsrc.

Definition begin_of (esc base : list N) : list N := esc ++ s_begin ++ [123] ++ base ++ [125].
Definition end_of (esc base : list N) : list N := esc ++ s_end ++ [123] ++ base ++ [125].

Definition is_nil {A} (l : list A) : bool := match l with [] => true | _ => false end.

Fixpoint src (n : node) : list N :=
  match n with
  | NTok c => [c]
  | NEsc name => esc_source name
  | NMacro mode name selfarg args body =>
    let esc := esc_of name in
    let base := base_of name in
    let argsrc := angle_src name (flat_map src args) in        (* sourceArguments *)
    let kids := flat_map src body in                           (* sourceChildren *)
    match mode with
    | MBegin =>
      begin_of esc base ++ (if is_nil argsrc then [32] else argsrc)
        ++ (if is_nil body then [] else kids ++ end_of esc base)
    | MEnd => end_of esc base
    | MNone => esc ++ base ++ sep_args base argsrc ++ (if selfarg then [] else kids)
    end
  | NGroup endit body =>
    if is_nil body then (if endit then [123; 125] else [123]) else 123 :: flat_map src body ++ [125]
  | NMath body =>
    if is_nil body then [36] else 36 :: flat_map src body ++ [36]
  | NDisplay mode body =>
    if is_nil body then (match mode with MEnd => [92; 93] | _ => [92; 91] end)
    else [92; 91; 32] ++ flat_map src body ++ [32; 92; 93]
  end.

(* TeX.source(tokens) / sourceChildren *)
Definition src_list (l : list node) : list N := flat_map src l.

(* mathjax_lt_gt: s.replace('<', r'\lt ').replace('>', r'\gt ') *)
Definition mathjax_lt_gt (s : list N) : list N :=
  flat_map (fun c => if c =? 60 then [92; 108; 116; 32] else if c =? 62 then [92; 103; 116; 32] else [c]) s.

(* ---- wire ----
   node:  (0 c) | (1 (name)) | (2 mode (name) selfarg (args) (body)) | (3 endit (body)) | (4 (body)) | (5 mode (body))
   case:  (2 node)   ->  (0 (source chars) (mathjax_source chars))
   cases (0 ..) and (1 ..) are Verbatim.run_verbatim_case *)
Definition mode_of (z : Z) : option mmode :=
  match z with 0%Z => Some MNone | 1%Z => Some MBegin | 2%Z => Some MEnd | _ => None end.

Fixpoint node_of (v : val) : option node :=
  let nodes_of := fix go (l : list val) : option (list node) :=
    match l with
    | [] => Some []
    | x :: r => match node_of x, go r with Some n, Some ns => Some (n :: ns) | _, _ => None end
    end in
  match v with
  | VL [VI 0%Z; c] => match getN c with Some c => Some (NTok c) | None => None end
  | VL [VI 1%Z; name] => match getNs name with Some name => Some (NEsc name) | None => None end
  | VL [VI 2%Z; VI m; name; sa; VL args; VL body] =>
    match mode_of m, getNs name, getB sa, nodes_of args, nodes_of body with
    | Some m, Some name, Some sa, Some args, Some body => Some (NMacro m name sa args body)
    | _, _, _, _, _ => None
    end
  | VL [VI 3%Z; e; VL body] =>
    match getB e, nodes_of body with Some e, Some body => Some (NGroup e body) | _, _ => None end
  | VL [VI 4%Z; VL body] => match nodes_of body with Some body => Some (NMath body) | None => None end
  | VL [VI 5%Z; VI m; VL body] =>
    match mode_of m, nodes_of body with Some m, Some body => Some (NDisplay m body) | _, _ => None end
  | _ => None
  end.

(* math.mathjax_source (inline: r'\({}\)' around the children, '' without children) and
   MathEnvironment.mathjax_source = mathjax_lt_gt(self.source) for the others *)
Definition mathjax_source (n : node) : list N :=
  match n with
  | NMath body => if is_nil body then [] else [92; 40] ++ mathjax_lt_gt (src_list body) ++ [92; 41]
  | _ => mathjax_lt_gt (src n)
  end.

Definition run_source_case (v : val) : val :=
  match node_of v with
  | Some n => VL [VI 0%Z; ofNs (src n); ofNs (mathjax_source n)]
  | None => v_bad_input
  end.

Definition run_case (v : val) : val :=
  match v with
  | VL [VI 2%Z; n] => run_source_case n
  | _ => run_verbatim_case v
  end.
