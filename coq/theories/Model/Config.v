(* Model of plasTeX/ConfigManager.py (ConfigOption and its subclasses, ConfigSection, ConfigManager.read,
   InterpolationWrapper), of the option classes declared inside plasTeX/Config.py (LinksOption, CountersOption,
   ImageScaleOption, LogOption), plasTeX/Renderers/HTML5/Config.py (MacrosOption) and of the layering order of
   plasTeX/client.py main():   defaultConfig() + renderer sections -> parse_args -> read(files) -> updateFromDict.

   The plasTeX code is followed line by line.  The standard library pieces it calls are *modelled*:
     int() / float() / str.strip / str.lower on ASCII input, shlex.split (posix, whitespace_split, no comments),
     "%"-formatting with a mapping for the directives %%, %(key)s, %(key)d, argparse on the subset of its
     features that the registered options use, configparser at the level of its parsed result.
   Whatever lies outside the modelled subset gives the outcome [Unmodelled] (never a guessed value).

   Strings are lists of code points (Z).  No proofs in this file. *)
From Coq Require Import Strings.String Strings.Ascii.
From Coq Require Import List ZArith Bool.
Import ListNotations.
From Verif Require Import Val.
Local Open Scope Z_scope.

Definition str := list Z.

Definition lit (s : String.string) : str :=
  map (fun a => Z.of_N (Ascii.N_of_ascii a)) (String.list_ascii_of_string s).
Arguments lit s%string.
(* the literals used below, evaluated here so that the extracted program does not mention Coq's string type *)
Definition L_zero : str := Eval compute in lit "0".
Definition L_one : str := Eval compute in lit "1".
Definition L_config : str := Eval compute in lit "config".
Definition L_false : str := Eval compute in lit "false".
Definition L_inf : str := Eval compute in lit "inf".
Definition L_infinity : str := Eval compute in lit "infinity".
Definition L_nan : str := Eval compute in lit "nan".
Definition L_no : str := Eval compute in lit "no".
Definition L_off : str := Eval compute in lit "off".
Definition L_on : str := Eval compute in lit "on".
Definition L_true : str := Eval compute in lit "true".
Definition L_yes : str := Eval compute in lit "yes".
Definition L_True : str := Eval compute in lit "True".
Definition L_False : str := Eval compute in lit "False".
Definition L_mh : str := Eval compute in lit "-h".
Definition L_mmhelp : str := Eval compute in lit "--help".
Definition L_mmconfig : str := Eval compute in lit "--config".
Definition L_mc : str := Eval compute in lit "-c".
Definition L_mtitle : str := Eval compute in lit "-title".
Definition L_murl : str := Eval compute in lit "-url".

Fixpoint str_eqb (a b : str) : bool :=
  match a, b with
  | [], [] => true
  | x :: a', y :: b' => (x =? y) && str_eqb a' b'
  | _, _ => false
  end.

(* ---- outcomes ----------------------------------------------------------------------------------------- *)
(* crash kinds: the exception class the implementation raises *)
Definition ValueError : Z := 1.
Definition KeyError : Z := 2.
Definition TypeError : Z := 3.
Definition SystemExit : Z := 4.          (* argparse: parser.error / --help *)
Definition ArgumentTypeError : Z := 5.   (* LinksOption.updateFromDict *)
Definition ParsingError : Z := 6.        (* configparser refuses the file *)

Inductive res (A : Type) :=
| Ok (a : A)
| Crash (k : Z)
| Unmodelled
| OutOfFuel.
Arguments Ok {A} a.
Arguments Crash {A} k.
Arguments Unmodelled {A}.
Arguments OutOfFuel {A}.

Definition bind {A B} (r : res A) (f : A -> res B) : res B :=
  match r with Ok a => f a | Crash k => Crash k | Unmodelled => Unmodelled | OutOfFuel => OutOfFuel end.
Notation "x <- r ;; k" := (bind r (fun x => k)) (at level 61, r at next level, right associativity).

Fixpoint mapR {A B} (f : A -> res B) (l : list A) : res (list B) :=
  match l with
  | [] => Ok []
  | x :: xs => y <- f x ;; ys <- mapR f xs ;; Ok (y :: ys)
  end.

(* for x in l: st = f st x      (left to right, stops at the first exception) *)
Fixpoint foldR {A S} (f : S -> A -> res S) (l : list A) (st : S) : res S :=
  match l with
  | [] => Ok st
  | x :: xs => st' <- f st x ;; foldR f xs st'
  end.

(* ---- association lists (Python dicts keyed by str, in insertion order) ---------------------------------- *)
Fixpoint assoc {A} (k : str) (l : list (str * A)) : option A :=
  match l with
  | [] => None
  | (k', v) :: l' => if str_eqb k k' then Some v else assoc k l'
  end.

(* d[k] = v for a key that is present: the first binding is replaced *)
Fixpoint assoc_set {A} (k : str) (v : A) (l : list (str * A)) : list (str * A) :=
  match l with
  | [] => []
  | (k', v') :: l' => if str_eqb k k' then (k', v) :: l' else (k', v') :: assoc_set k v l'
  end.

(* d[k] = v in general: replaced in place, or appended *)
Fixpoint dset {A} (k : str) (v : A) (l : list (str * A)) : list (str * A) :=
  match l with
  | [] => [(k, v)]
  | (k', v') :: l' => if str_eqb k k' then (k', v) :: l' else (k', v') :: dset k v l'
  end.

(* ---- characters and the string functions of the runtime that the code relies on -------------------------- *)
Definition is_space (c : Z) : bool := (c =? 32) || ((9 <=? c) && (c <=? 13)) || ((28 <=? c) && (c <=? 31)).
Definition is_digit (c : Z) : bool := (48 <=? c) && (c <=? 57).
Definition is_ascii (c : Z) : bool := (0 <=? c) && (c <? 128).
Definition lower (c : Z) : Z := if (65 <=? c) && (c <=? 90) then c + 32 else c.

Fixpoint lstrip (s : str) : str :=
  match s with c :: s' => if is_space c then lstrip s' else s | [] => [] end.
Definition strip (s : str) : str := rev (lstrip (rev (lstrip s))).
(* int() and float() of an ASCII string skip only the C blanks: \x1c-\x1f are blanks for str.strip but not here *)
Definition is_cspace (c : Z) : bool := (c =? 32) || ((9 <=? c) && (c <=? 13)).
Fixpoint clstrip (s : str) : str :=
  match s with c :: s' => if is_cspace c then clstrip s' else s | [] => [] end.
Definition cstrip (s : str) : str := rev (clstrip (rev (clstrip s))).

(* str.split(sep) for a one-character separator: always at least one field *)
Fixpoint split_on (sep : Z) (s : str) (cur : str) : list str :=
  match s with
  | [] => [rev cur]
  | c :: s' => if c =? sep then rev cur :: split_on sep s' [] else split_on sep s' (c :: cur)
  end.

(* str.split(sep, maxsplit=1) *)
Fixpoint split_once (sep : Z) (s : str) (cur : str) : list str :=
  match s with
  | [] => [rev cur]
  | c :: s' => if c =? sep then [rev cur; s'] else split_once sep s' (c :: cur)
  end.

Fixpoint starts_with (p s : str) : bool :=
  match p, s with
  | [], _ => true
  | x :: p', y :: s' => (x =? y) && starts_with p' s'
  | _ :: _, [] => false
  end.

(* decimal spelling of an integer: str(int) *)
Fixpoint digits_fuel (fuel : nat) (n : Z) (acc : str) : str :=
  match fuel with
  | O => acc
  | S f => let acc' := (48 + n mod 10) :: acc in
           if n / 10 =? 0 then acc' else digits_fuel f (n / 10) acc'
  end.
Definition str_of_Z (z : Z) : str :=
  let a := Z.abs z in
  let d := digits_fuel (S (Z.to_nat (Z.log2 a))) a [] in
  if z <? 0 then 45 :: d else d.

(* underscores are allowed between digits only (PEP 515); returns the string without them *)
Fixpoint strip_underscores (s : str) (prev_digit : bool) : option str :=
  match s with
  | [] => Some []
  | c :: s' =>
      if c =? 95 then
        if prev_digit then
          match s' with
          | d :: _ => if is_digit d then strip_underscores s' false else None
          | [] => None
          end
        else None
      else match strip_underscores s' (is_digit c) with Some r => Some (c :: r) | None => None end
  end.

Fixpoint read_digits (s : str) (acc : Z) (n : nat) : Z * nat * str :=
  match s with
  | c :: s' => if is_digit c then read_digits s' (acc * 10 + (c - 48)) (S n) else (acc, n, s)
  | [] => (acc, n, [])
  end.

Definition read_sign (s : str) : bool * str :=
  match s with
  | 45 :: s' => (true, s')
  | 43 :: s' => (false, s')
  | _ => (false, s)
  end.

(* int(s), base 10 *)
Definition parse_int (s : str) : res Z :=
  if negb (forallb is_ascii s) then Unmodelled else
  let '(neg, body) := read_sign (cstrip s) in
  match strip_underscores body false with
  | None => Crash ValueError
  | Some b =>
      let '(v, n, rest) := read_digits b 0 0 in
      match n, rest with
      | S _, [] => Ok (if neg then - v else v)
      | _, _ => Crash ValueError
      end
  end.

(* float(s): the decimal it denotes, as mantissa * 10^exponent.  inf / nan spellings are not modelled. *)
Definition parse_float (s : str) : res (Z * Z) :=
  if negb (forallb is_ascii s) then Unmodelled else
  let '(neg, body) := read_sign (cstrip s) in
  let lw := map lower body in
  if str_eqb lw L_inf || str_eqb lw L_infinity || str_eqb lw L_nan then Unmodelled else
  match strip_underscores body false with
  | None => Crash ValueError
  | Some b =>
      let '(ip, n1, r1) := read_digits b 0 0 in
      let '(m, n2, r2) := match r1 with
                          | 46 :: r => let '(m, n2, r2) := read_digits r ip 0 in (m, n2, r2)
                          | _ => (ip, O, r1)
                          end in
      match (n1 + n2)%nat with
      | O => Crash ValueError
      | _ =>
          let sgn := fun m : Z => if neg then - m else m in
          match r2 with
          | [] => Ok (sgn m, - Z.of_nat n2)
          | c :: r3 =>
              if (c =? 101) || (c =? 69) then
                let '(eneg, r4) := read_sign r3 in
                let '(e, n3, r5) := read_digits r4 0 0 in
                match n3, r5 with
                | S _, [] => Ok (sgn m, (if eneg then - e else e) - Z.of_nat n2)
                | _, _ => Crash ValueError
                end
              else Crash ValueError
          end
      end
  end.

(* shlex.split(s): posix, whitespace_split, commenters = '' *)
Inductive shstate :=
| ShWs                        (* state ' ' *)
| ShWord                      (* state 'a' *)
| ShQuote (q : Z)             (* state in quotes *)
| ShEsc (escapedstate : option Z).   (* state in escape; None = 'a', Some q = inside the quote q *)

Definition sh_ws (c : Z) : bool := (c =? 32) || (c =? 9) || (c =? 13) || (c =? 10).
Definition sh_quote (c : Z) : bool := (c =? 39) || (c =? 34).

(* tok is kept reversed; quoted is the flag of read_token; acc the tokens so far, reversed *)
Fixpoint shlex_go (s : str) (st : shstate) (tok : str) (quoted : bool) (acc : list str) : res (list str) :=
  match s with
  | [] =>
      match st with
      | ShWs => Ok (rev acc)
      | ShWord => Ok (rev (if negb (str_eqb tok []) || quoted then rev tok :: acc else acc))
      | ShQuote _ => Crash ValueError     (* No closing quotation *)
      | ShEsc _ => Crash ValueError       (* No escaped character *)
      end
  | c :: s' =>
      match st with
      | ShWs =>
          if sh_ws c then shlex_go s' ShWs [] false acc
          else if c =? 92 then shlex_go s' (ShEsc None) [] false acc
          else if sh_quote c then shlex_go s' (ShQuote c) [] false acc
          else shlex_go s' ShWord [c] false acc
      | ShWord =>
          if sh_ws c then
            shlex_go s' ShWs [] false (if negb (str_eqb tok []) || quoted then rev tok :: acc else acc)
          else if sh_quote c then shlex_go s' (ShQuote c) tok quoted acc
          else if c =? 92 then shlex_go s' (ShEsc None) tok quoted acc
          else shlex_go s' ShWord (c :: tok) quoted acc
      | ShQuote q =>
          if c =? q then shlex_go s' ShWord tok true acc
          else if (c =? 92) && (q =? 34) then shlex_go s' (ShEsc (Some q)) tok true acc
          else shlex_go s' (ShQuote q) (c :: tok) true acc
      | ShEsc None => shlex_go s' ShWord (c :: tok) quoted acc
      | ShEsc (Some q) =>
          let tok' := if negb (c =? 92) && negb (c =? q) then 92 :: tok else tok in
          shlex_go s' (ShQuote q) (c :: tok') quoted acc
      end
  end.
Definition shlex_split (s : str) : res (list str) := shlex_go s ShWs [] false [].

(* ---- option values and option classes -------------------------------------------------------------------- *)
Inductive entry := EStr (s : str) | EInt (z : Z) | EFloat (m e : Z).
Inductive value :=
| VStr (s : str)
| VInt (z : Z)
| VFloat (m e : Z)       (* the float nearest to m * 10^e *)
| VBool (b : bool)
| VList (l : list str)
| VDict (d : list (str * entry)).

Inductive ekind := EKStr | EKInt | EKFloat.       (* entryFromString = identity / int / float *)
Inductive dstyle :=
| DPairs      (* registerArgparse: action=append, nargs=2; updateFromDict of DictOption *)
| DLinks.     (* LinksOption: action=append, nargs='+', its own updateFromDict *)
Inductive cls :=
| CStr | CInt | CFloat      (* StringOption, IntegerOption, FloatOption: "pass" subclasses of ConfigOption *)
| CBool
| CMulti
| CDict (ek : ekind) (st : dstyle).

(* what does not change after construction *)
Record ostatic := mkStatic {
  o_name : str;              (* options[0].lstrip("-") *)
  o_flags : list str;        (* options = options.split(" ") *)
  o_cls : cls }.
Record opt := mkOpt { o_static : ostatic; o_value : value }.

Definition section := list (str * opt).        (* ConfigSection.data *)
Definition config := list (str * section).     (* ConfigManager *)

Definition set_value (o : opt) (v : value) : opt := mkOpt (o_static o) v.

Definition is_dict_cls (c : cls) : bool := match c with CDict _ _ => true | _ => false end.

(* BooleanOption.setFromString.
   fixed = false : the code before the repair, inherited ConfigOption.setFromString = bool(string)
   fixed = true  : ConfigParser.BOOLEAN_STATES[string.lower()], ValueError otherwise *)
Definition bool_of_string (fixed : bool) (s : str) : res bool :=
  if fixed then
    let w := map lower s in
    if str_eqb w L_one || str_eqb w L_yes || str_eqb w L_true || str_eqb w L_on then Ok true
    else if str_eqb w L_zero || str_eqb w L_no || str_eqb w L_false || str_eqb w L_off then Ok false
    else Crash ValueError
  else Ok (negb (str_eqb s [])).

(* type(self.value)(string) *)
Definition convert_like (fixed : bool) (v : value) (s : str) : res value :=
  match v with
  | VStr _ => Ok (VStr s)
  | VInt _ => z <- parse_int s ;; Ok (VInt z)
  | VFloat _ _ => me <- parse_float s ;; Ok (VFloat (fst me) (snd me))
  | VBool _ => Ok (VBool (negb (str_eqb s [])))
  | VList _ => Ok (VList (map (fun c => [c]) s))        (* list(string) *)
  | VDict _ => if str_eqb s [] then Ok (VDict []) else Crash ValueError   (* dict(string) *)
  end.

Definition entry_from_string (ek : ekind) (s : str) : res entry :=
  match ek with
  | EKStr => Ok (EStr s)
  | EKInt => z <- parse_int s ;; Ok (EInt z)
  | EKFloat => me <- parse_float s ;; Ok (EFloat (fst me) (snd me))
  end.

(* DictOption.set *)
Definition dict_set (o : opt) (k v : str) : res opt :=
  match o_cls (o_static o), o_value o with
  | CDict ek _, VDict d => e <- entry_from_string ek v ;; Ok (set_value o (VDict (dset k e d)))
  | _, _ => Unmodelled
  end.

(* setFromString, by class *)
Definition set_from_string (fixed : bool) (o : opt) (s : str) : res opt :=
  match o_cls (o_static o) with
  | CStr | CInt | CFloat => v <- convert_like fixed (o_value o) s ;; Ok (set_value o v)
  | CBool =>
      if fixed then b <- bool_of_string true s ;; Ok (set_value o (VBool b))
      else v <- convert_like fixed (o_value o) s ;; Ok (set_value o v)
  | CMulti =>
      match o_value o with
      | VList l => ws <- shlex_split s ;; Ok (set_value o (VList (l ++ ws)))
      | _ => Unmodelled
      end
  | CDict _ _ =>
      (* for entry in string.split(","): key, val = entry.split("=", maxsplit=1); self.set(key.strip(), val.strip()) *)
      foldR (fun o entry =>
               match split_once 61 entry [] with
               | [k; v] => dict_set o (strip k) (strip v)
               | _ => Crash ValueError
               end) (split_on 44 s []) o
  end.

(* ---- ConfigManager.read --------------------------------------------------------------------------------- *)
(* what configparser returns for one file name *)
Inductive file :=
| FMissing                                         (* unreadable: silently ignored by ConfigParser.read *)
| FBad                                             (* configparser raises *)
| FParsed (secs : list (str * list (str * str))).  (* data.sections() with data.items(section) *)

Definition opt_at (cfg : config) (sec key : str) : option opt :=
  match assoc sec cfg with Some opts => assoc key opts | None => None end.
Definition set_at (cfg : config) (sec key : str) (o : opt) : config :=
  match assoc sec cfg with Some opts => assoc_set sec (assoc_set key o opts) cfg | None => cfg end.

(* next((x for x in self[section].data.values() if isinstance(x, DictOption)), None) -- by its key *)
Fixpoint first_dict (opts : section) : option str :=
  match opts with
  | [] => None
  | (k, o) :: opts' => if is_dict_cls (o_cls (o_static o)) then Some k else first_dict opts'
  end.

Definition read_item (fixed : bool) (sec : str) (dict_key : option str) (cfg : config) (kv : str * str) : res config :=
  let '(key, val) := kv in
  match opt_at cfg sec key with
  | Some o => o' <- set_from_string fixed o val ;; Ok (set_at cfg sec key o')
  | None =>
      match dict_key with
      | Some dk =>
          match opt_at cfg sec dk with
          | Some dobj => o' <- dict_set dobj key val ;; Ok (set_at cfg sec dk o')
          | None => Unmodelled
          end
      | None => Ok cfg          (* print("Unrecognized config: ...") *)
      end
  end.

Definition read_section (fixed : bool) (cfg : config) (s : str * list (str * str)) : res config :=
  let '(sec, items) := s in
  match assoc sec cfg with
  | None => Ok cfg              (* print("Unrecognized section: ..."); continue *)
  | Some opts => foldR (read_item fixed sec (first_dict opts)) items cfg
  end.

Definition read_file (fixed : bool) (cfg : config) (f : file) : res config :=
  match f with
  | FMissing => Ok cfg
  | FBad => Crash ParsingError
  | FParsed secs => foldR (read_section fixed) secs cfg
  end.

Definition read (fixed : bool) (cfg : config) (files : list file) : res config := foldR (read_file fixed) files cfg.

(* ---- argparse, as far as registerArgparse uses it --------------------------------------------------------- *)
Inductive nargs := N0 | N1 | N2 | NStar | NPlus.
Inductive sty := TStr | TInt | TFloat | TOther.     (* type= of a store action *)
Inductive act :=
| AStore (dest : str) (t : sty)        (* add_argument of the option strings, dest=, type= *)
| ATrue (dest : str)                   (* action='store_true', default=None *)
| AFalse (dest : str)                  (* action='store_false', default=None *)
| AAppend (dest : str) (n : nargs)     (* action='append', nargs = None (N1) / 2 / '*' / '+' *)
| AHelp.

Inductive argval :=
| DStr (s : str) | DInt (z : Z) | DFloat (m e : Z) | DBool (b : bool)
| DStrs (l : list str)            (* append with nargs=None: a list of strings *)
| DLists (l : list (list str)).   (* append with nargs given: a list of lists *)
Definition data := list (str * argval).     (* vars(parser.parse_args(argv)); a missing key stands for None *)

Definition act_nargs (a : act) : nargs :=
  match a with AStore _ _ => N1 | ATrue _ | AFalse _ | AHelp => N0 | AAppend _ n => n end.

(* BooleanOption.registerArgparse: enables / disables *)
Definition is_disable (f : str) : bool := match f with 33 :: _ => true | _ => false end.
Definition drop1 (f : str) : str := match f with _ :: r => r | [] => [] end.

Definition sty_of (v : value) : sty :=
  match v with VStr _ => TStr | VInt _ => TInt | VFloat _ _ => TFloat | _ => TOther end.

(* the (option string, action) pairs one option registers, in registration order *)
Definition opt_actions (o : opt) : list (str * act) :=
  let st := o_static o in
  match o_cls st with
  | CStr | CInt | CFloat => map (fun f => (f, AStore (o_name st) (sty_of (o_value o)))) (o_flags st)
  | CBool =>
      map (fun f => (f, ATrue (o_name st))) (filter (fun f => negb (is_disable f)) (o_flags st)) ++
      map (fun f => (drop1 f, AFalse (o_name st))) (filter is_disable (o_flags st))
  | CMulti => map (fun f => (f, AAppend (o_name st) NStar)) (o_flags st)
  | CDict _ DPairs => map (fun f => (f, AAppend (o_name st) N2)) (o_flags st)
  | CDict _ DLinks => map (fun f => (f, AAppend (o_name st) NPlus)) (o_flags st)
  end.

(* client.main: ArgumentParser (-h/--help), --config/-c, then config.registerArgparse(parser) *)
Definition all_actions (cfg : config) : list (str * act) :=
  [(L_mh, AHelp); (L_mmhelp, AHelp);
   (L_mmconfig, AAppend L_config N1); (L_mc, AAppend L_config N1)] ++
  flat_map (fun s => flat_map (fun ko => opt_actions (snd ko)) (snd s)) cfg.

Inductive tokc :=
| TA (s : str)                          (* 'A' *)
| TO (a : act) (explicit : option str)  (* 'O' with a recognised option *)
| TUnknown.                             (* 'O', no such option: ends in "unrecognized arguments" *)

(* '^-\d+$|^-\d*\.\d+$' *)
Definition negative_number_like (s : str) : bool :=
  match s with
  | 45 :: r =>
      let '(_, n1, r1) := read_digits r 0 0 in
      match r1 with
      | [] => negb (Nat.eqb n1 0)
      | 46 :: r2 => let '(_, n2, r3) := read_digits r2 0 0 in negb (Nat.eqb n2 0) && str_eqb r3 []
      | _ => false
      end
  | _ => false
  end.

(* ArgumentParser._parse_optional *)
Definition parse_optional (tbl : list (str * act)) (t : str) : res tokc :=
  match t with
  | [] => Ok (TA t)
  | c :: _ =>
      if negb (c =? 45) then Ok (TA t) else
      if negb (forallb is_ascii t) then Unmodelled else
      match assoc t tbl with
      | Some a => Ok (TO a None)
      | None =>
          match t with
          | [_] => Ok (TA t)                                   (* "-" *)
          | _ :: 45 :: [] => Unmodelled                        (* "--" *)
          | _ :: 45 :: _ =>
              let parts := split_once 61 t [] in
              let pre := match parts with p :: _ => p | [] => t end in
              let expl := match parts with [_; e] => Some e | _ => None end in
              match expl, assoc pre tbl with
              | Some e, Some a => Ok (TO a (Some e))
              | _, _ =>
                  match filter (fun fa => starts_with pre (fst fa)) tbl with
                  | [] => if existsb (fun c => c =? 32) t then Ok (TA t) else Ok TUnknown
                  | [(_, a)] => Ok (TO a expl)
                  | _ => Crash SystemExit                       (* ambiguous option *)
                  end
              end
          | _ =>
              (* a single-dash string that is not a registered option string: only the negative numbers
                 are modelled (no negative-number-like option strings are registered) *)
              if negative_number_like t && negb (existsb (fun fa => starts_with t (fst fa)) tbl)
              then Ok (TA t) else Unmodelled
          end
      end
  end.

Definition convert_arg (t : sty) (s : str) : res argval :=
  match t with
  | TStr => Ok (DStr s)
  | TInt => match parse_int s with Ok z => Ok (DInt z) | Crash _ => Crash SystemExit | Unmodelled => Unmodelled | OutOfFuel => OutOfFuel end
  | TFloat => match parse_float s with Ok me => Ok (DFloat (fst me) (snd me)) | Crash _ => Crash SystemExit | Unmodelled => Unmodelled | OutOfFuel => OutOfFuel end
  | TOther => Unmodelled
  end.

(* take_action *)
Definition take_action (a : act) (args : list str) (d : data) : res data :=
  match a with
  | AStore dest t =>
      match args with
      | [s] => v <- convert_arg t s ;; Ok (dset dest v d)
      | _ => Crash SystemExit
      end
  | ATrue dest => Ok (dset dest (DBool true) d)
  | AFalse dest => Ok (dset dest (DBool false) d)
  | AAppend dest N1 =>
      match args, assoc dest d with
      | [s], None => Ok (dset dest (DStrs [s]) d)
      | [s], Some (DStrs l) => Ok (dset dest (DStrs (l ++ [s])) d)
      | [_], Some _ => Unmodelled
      | _, _ => Crash SystemExit
      end
  | AAppend dest _ =>
      match assoc dest d with
      | None => Ok (dset dest (DLists [args]) d)
      | Some (DLists l) => Ok (dset dest (DLists (l ++ [args])) d)
      | Some _ => Unmodelled
      end
  | AHelp => Crash SystemExit      (* prints the help and exits *)
  end.

Definition can_take (n : nargs) (got : nat) : bool :=
  match n with N0 => false | N1 => Nat.ltb got 1 | N2 => Nat.ltb got 2 | NStar | NPlus => true end.
Definition enough (n : nargs) (got : nat) : bool :=
  match n with N0 => Nat.eqb got 0 | N1 => Nat.eqb got 1 | N2 => Nat.eqb got 2 | NStar => true | NPlus => Nat.leb 1 got end.

(* the option whose arguments are being collected (consume_optional matching its nargs pattern greedily) *)
Definition finish (pending : option (act * list str)) (d : data) : res data :=
  match pending with
  | None => Ok d
  | Some (a, got) => if enough (act_nargs a) (length got) then take_action a got d else Crash SystemExit
  end.

(* npos: number of 'A' strings left to the positionals; exactly one ("file") must remain *)
Fixpoint consume (cl : list tokc) (pending : option (act * list str)) (d : data) (npos : nat) : res data :=
  match cl with
  | [] => d' <- finish pending d ;; if Nat.eqb npos 1 then Ok d' else Crash SystemExit
  | TA s :: cl' =>
      match pending with
      | Some (a, got) =>
          if can_take (act_nargs a) (length got) then consume cl' (Some (a, got ++ [s])) d npos
          else d' <- finish pending d ;; consume cl' None d' (S npos)
      | None => consume cl' None d (S npos)
      end
  | TUnknown :: _ => Crash SystemExit          (* extras: "unrecognized arguments", whatever else happens *)
  | TO a None :: cl' => d' <- finish pending d ;; consume cl' (Some (a, [])) d' npos
  | TO a (Some e) :: cl' =>
      d' <- finish pending d ;;
      match act_nargs a with
      | N1 | NStar | NPlus => d'' <- take_action a [e] d' ;; consume cl' None d'' npos
      | N0 | N2 => Crash SystemExit        (* ignored explicit argument / expected 2 arguments *)
      end
  end.

Definition parse_args (tbl : list (str * act)) (argv : list str) : res data :=
  cl <- mapR (parse_optional tbl) argv ;; consume cl None [] 0.

(* ---- updateFromDict ------------------------------------------------------------------------------------- *)
Definition value_of_argval (a : argval) : res value :=
  match a with
  | DStr s => Ok (VStr s) | DInt z => Ok (VInt z) | DFloat m e => Ok (VFloat m e) | DBool b => Ok (VBool b)
  | DStrs _ | DLists _ => Unmodelled
  end.

Definition update_opt (d : data) (o : opt) : res opt :=
  let st := o_static o in
  match o_cls st with
  | CStr | CInt | CFloat | CBool =>
      (* value = data.get(self.name); if value is not None: self.value = value *)
      match assoc (o_name st) d with
      | None => Ok o
      | Some a => v <- value_of_argval a ;; Ok (set_value o v)
      end
  | CMulti =>
      match assoc (o_name st) d with
      | None => Ok o
      | Some (DLists ll) =>
          match o_value o with
          | VList l => Ok (set_value o (VList (l ++ concat ll)))     (* for entry in value: self.value.extend(entry) *)
          | _ => Unmodelled
          end
      | Some _ => Unmodelled
      end
  | CDict _ DPairs =>
      match assoc (o_name st) d with
      | None => Ok o
      | Some (DLists ll) =>
          foldR (fun o e => match e with [k; v] => dict_set o k v | _ => Crash ValueError end) ll o
      | Some _ => Unmodelled
      end
  | CDict _ DLinks =>
      match assoc (o_name st) d with
      | None => Ok o
      | Some (DLists ll) =>
          foldR (fun o e =>
                   match e with
                   | [a; b] => dict_set o (a ++ L_mtitle) b
                   | [a; b; c] => o1 <- dict_set o (a ++ L_murl) b ;; dict_set o1 (a ++ L_mtitle) c
                   | _ => Crash ArgumentTypeError
                   end) ll o
      | Some _ => Unmodelled
      end
  end.

(* for section in self.values(): for option in section.data.values(): option.updateFromDict(data) *)
Definition update_section (d : data) (opts : section) : res section :=
  mapR (fun ko => o' <- update_opt d (snd ko) ;; Ok (fst ko, o')) opts.
Definition update_from_dict (d : data) (cfg : config) : res config :=
  mapR (fun s => opts' <- update_section d (snd s) ;; Ok (fst s, opts')) cfg.

(* ---- client.main ---------------------------------------------------------------------------------------- *)
Definition fs := list (str * file).
Definition fs_lookup (f : fs) (name : str) : file := match assoc name f with Some x => x | None => FMissing end.

Definition config_files (f : fs) (d : data) : res (list file) :=
  match assoc L_config d with
  | None => Ok []
  | Some (DStrs names) => Ok (map (fs_lookup f) names)
  | Some _ => Unmodelled
  end.

Definition layer (fixed : bool) (cfg : config) (f : fs) (d : data) : res config :=
  files <- config_files f d ;;
  cfg1 <- read fixed cfg files ;;
  update_from_dict d cfg1.

Definition main (fixed : bool) (cfg : config) (f : fs) (argv : list str) : res config :=
  d <- parse_args (all_actions cfg) argv ;; layer fixed cfg f d.

(* ---- ConfigSection.__getitem__ with InterpolationWrapper --------------------------------------------------- *)
Inductive istate :=
| IText
| IPct                                  (* after '%' *)
| IKey (depth : nat) (key : str)        (* inside %( ... ; key reversed *)
| IConv (v : value).                    (* after %(key) : the looked-up value, waiting for the conversion *)

Definition fmt_s (v : value) : res str :=
  match v with
  | VStr s => Ok s
  | VInt z => Ok (str_of_Z z)
  | VBool b => Ok (if b then L_True else L_False)
  | _ => Unmodelled                     (* repr of floats, lists, dicts *)
  end.
Definition fmt_d (v : value) : res str :=
  match v with
  | VInt z => Ok (str_of_Z z)
  | VBool b => Ok (if b then L_one else L_zero)
  | VFloat _ _ => Unmodelled
  | _ => Crash TypeError
  end.

(* value % wrapper, [L] being wrapper.__getitem__ ; out reversed *)
Fixpoint interp (L : str -> res value) (s : str) (st : istate) (out : str) : res str :=
  match s with
  | [] =>
      match st with
      | IText => Ok (rev out)
      | _ => Crash ValueError           (* incomplete format / incomplete format key *)
      end
  | c :: s' =>
      match st with
      | IText => if c =? 37 then interp L s' IPct out else interp L s' IText (c :: out)
      | IPct =>
          if c =? 37 then interp L s' IText (37 :: out)
          else if c =? 40 then interp L s' (IKey 1 []) out
          else Unmodelled
      | IKey depth key =>
          if c =? 41 then
            match depth with
            | S O | O => v <- L (rev key) ;; interp L s' (IConv v) out
            | S d => interp L s' (IKey d (c :: key)) out
            end
          else if c =? 40 then interp L s' (IKey (S depth) (c :: key)) out
          else interp L s' (IKey depth (c :: key)) out
      | IConv v =>
          if c =? 115 then t <- fmt_s v ;; interp L s' IText (rev t ++ out)
          else if c =? 100 then t <- fmt_d v ;; interp L s' IText (rev t ++ out)
          else Unmodelled
      end
  end.

Definition is_keyerror {A} (r : res A) : bool := match r with Crash k => k =? KeyError | _ => false end.

(* ConfigSection.__getitem__ ; fuel = remaining depth of nested interpolation (RecursionError = OutOfFuel) *)
Fixpoint sget (fuel : nat) (cfg : config) (opts : section) (key : str) : res value :=
  match fuel with
  | O => OutOfFuel
  | S fuel' =>
      match assoc key opts with
      | None => Crash KeyError
      | Some o =>
          (* InterpolationWrapper.__getitem__: first section whose __getitem__ does not raise KeyError *)
          let wrapper := fun k =>
            (fix wr (secs : config) : res value :=
               match secs with
               | [] => Crash KeyError
               | (_, so) :: secs' => let r := sget fuel' cfg so k in if is_keyerror r then wr secs' else r
               end) cfg in
          match o_value o with
          | VStr s => t <- interp wrapper s IText [] ;; Ok (VStr t)
          | VList (x :: l) => ts <- mapR (fun x => interp wrapper x IText []) (x :: l) ;; Ok (VList ts)
          | v => Ok v
          end
      end
  end.

Definition get (fuel : nat) (cfg : config) (sec key : str) : res value :=
  match assoc sec cfg with
  | None => Crash KeyError
  | Some opts => sget fuel cfg opts key
  end.

Definition get_fuel : nat := 40.

(* ---- wire ------------------------------------------------------------------------------------------------ *)
Definition getS (v : val) : option str := getZs v.
Definition ofS (s : str) : val := VL (map VI s).

Definition dec_pair {A B} (fa : val -> option A) (fb : val -> option B) (v : val) : option (A * B) :=
  match v with
  | VL [a; b] => match fa a, fb b with Some x, Some y => Some (x, y) | _, _ => None end
  | _ => None
  end.
Definition dec_list {A} (f : val -> option A) (v : val) : option (list A) :=
  match v with VL l => mapM f l | _ => None end.

Definition dec_file (v : val) : option file :=
  match v with
  | VL [VI 0] => Some FMissing
  | VL [VI 1] => Some FBad
  | VL [VI 2; secs] =>
      match dec_list (dec_pair getS (dec_list (dec_pair getS getS))) secs with
      | Some s => Some (FParsed s)
      | None => None
      end
  | _ => None
  end.

Definition dec_ekind (z : Z) : option ekind :=
  match z with 0 => Some EKStr | 1 => Some EKInt | 2 => Some EKFloat | _ => None end.

(* a synthetic option table: [key; name; flags; class; default] *)
Definition dec_value (v : val) : option value :=
  match v with
  | VL [VI 0; s] => option_map VStr (getS s)
  | VL [VI 1; VI z] => Some (VInt z)
  | VL [VI 2; VI m; VI e] => Some (VFloat m e)
  | VL [VI 3; VI b] => Some (VBool (negb (b =? 0)))
  | VL [VI 4; l] => option_map VList (dec_list getS l)
  | VL [VI 5] => Some (VDict [])
  | _ => None
  end.
Definition dec_cls (v : val) : option cls :=
  match v with
  | VL [VI 0] => Some CStr | VL [VI 1] => Some CInt | VL [VI 2] => Some CFloat | VL [VI 3] => Some CBool
  | VL [VI 4] => Some CMulti
  | VL [VI 5; VI ek; VI st] =>
      match dec_ekind ek with
      | Some k => Some (CDict k (if st =? 0 then DPairs else DLinks))
      | None => None
      end
  | _ => None
  end.
Definition dec_opt (v : val) : option (str * opt) :=
  match v with
  | VL [key; name; flags; c; dflt] =>
      match getS key, getS name, dec_list getS flags, dec_cls c, dec_value dflt with
      | Some k, Some n, Some f, Some c, Some d => Some (k, mkOpt (mkStatic n f c) d)
      | _, _, _, _, _ => None
      end
  | _ => None
  end.
Definition dec_config (v : val) : option config := dec_list (dec_pair getS (dec_list dec_opt)) v.

Definition enc_entry (e : entry) : val :=
  match e with
  | EStr s => VL [VI 0; ofS s]
  | EInt z => VL [VI 1; ofS (str_of_Z z)]
  | EFloat m e => VL [VI 2; ofS (str_of_Z m); ofS (str_of_Z e)]
  end.
(* integers are sent as their decimal spelling: the driver's integers are 63-bit *)
Definition enc_value (v : value) : val :=
  match v with
  | VStr s => VL [VI 0; ofS s]
  | VInt z => VL [VI 1; ofS (str_of_Z z)]
  | VFloat m e => VL [VI 2; ofS (str_of_Z m); ofS (str_of_Z e)]
  | VBool b => VL [VI 3; ofB b]
  | VList l => VL [VI 4; VL (map ofS l)]
  | VDict d => VL [VI 5; VL (map (fun ke => VL [ofS (fst ke); enc_entry (snd ke)]) d)]
  end.
Definition enc_res {A} (f : A -> val) (r : res A) : val :=
  match r with
  | Ok a => VL [VI 0; f a]
  | Crash k => v_crash k
  | Unmodelled => VL [VI (-4)]
  | OutOfFuel => v_outoffuel
  end.

(* observation: config[section][key] for every option, in order *)
Definition observe (cfg : config) : val :=
  VL (flat_map (fun s => map (fun ko => enc_res enc_value (sget get_fuel cfg (snd s) (fst ko))) (snd s)) cfg).

(* ---- histories: the public API used step by step, with read-backs in between ------------------------------- *)
Inductive hop :=
| HObserve                               (* config[section][key] for every option *)
| HRead (name : str)                     (* config.read(name) *)
| HMain (argv : list str)                (* parse_args; read(data["config"]); updateFromDict(data)  on the current configuration *)
| HAssign (sec key : str) (v : value).   (* config[sec][key] = v      (ConfigSection.__setitem__: self.data[key].value = value) *)

Definition assign (cfg : config) (sec key : str) (v : value) : res config :=
  match opt_at cfg sec key with
  | Some o => Ok (set_at cfg sec key (set_value o v))
  | None => Crash KeyError
  end.

(* the observations made, in order; the history stops at the first step that raises *)
Fixpoint run_history (cfg : config) (f : fs) (ops : list hop) : list val :=
  let continue := fun (r : res config) (rest : list hop) =>
    match r with Ok cfg' => run_history cfg' f rest | e => [enc_res (fun _ => VI 0) e] end in
  match ops with
  | [] => []
  | HObserve :: rest => observe cfg :: run_history cfg f rest
  | HRead name :: rest => continue (read true cfg [fs_lookup f name]) rest
  | HMain argv :: rest => continue (main true cfg f argv) rest
  | HAssign sec key v :: rest => continue (assign cfg sec key v) rest
  end.

Definition dec_hop (v : val) : option hop :=
  match v with
  | VL [VI 0] => Some HObserve
  | VL [VI 1; n] => option_map HRead (getS n)
  | VL [VI 2; argv] => option_map HMain (dec_list getS argv)
  | VL [VI 3; s; k; x] =>
      match getS s, getS k, dec_value x with Some s, Some k, Some x => Some (HAssign s k x) | _, _, _ => None end
  | _ => None
  end.

(* case:  [0; fs; argv]          the shipped option table [cfg0]
          [1; table; fs; argv]   a synthetic table
          [2; s]                 shlex.split(s)      [3; s] int(s)      [4; s] float(s)        (unit level)
          [5; fs; ops]           a history over the shipped table      [6; table; fs; ops]  over a synthetic table *)
Definition run_case (cfg0 : config) (v : val) : val :=
  let go := fun cfg f argv =>
    match dec_list (dec_pair getS dec_file) f, dec_list getS argv with
    | Some f, Some argv => enc_res observe (main true cfg f argv)
    | _, _ => v_bad_input
    end in
  let hist := fun cfg f ops =>
    match dec_list (dec_pair getS dec_file) f, dec_list dec_hop ops with
    | Some f, Some ops => VL [VI 0; VL (run_history cfg f ops)]
    | _, _ => v_bad_input
    end in
  match v with
  | VL [VI 5; f; ops] => hist cfg0 f ops
  | VL [VI 6; tbl; f; ops] => match dec_config tbl with Some cfg => hist cfg f ops | None => v_bad_input end
  | VL [VI 0; f; argv] => go cfg0 f argv
  | VL [VI 1; tbl; f; argv] => match dec_config tbl with Some cfg => go cfg f argv | None => v_bad_input end
  | VL [VI 2; s] => match getS s with Some s => enc_res (fun l => VL (map ofS l)) (shlex_split s) | None => v_bad_input end
  | VL [VI 3; s] => match getS s with Some s => enc_res (fun z => ofS (str_of_Z z)) (parse_int s) | None => v_bad_input end
  | VL [VI 4; s] => match getS s with
                    | Some s => enc_res (fun me => VL [ofS (str_of_Z (fst me)); ofS (str_of_Z (snd me))]) (parse_float s)
                    | None => v_bad_input
                    end
  | _ => v_bad_input
  end.
