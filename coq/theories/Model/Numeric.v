(* C05 -- Model of the numeric scanners of plasTeX/TeX.py:
     readOptionalSpaces readOptionalSigns readOneOptionalSpace readSequence readKeyword
     readInteger(=readNumber) readDecimal readUnitOfMeasure readDimen readMuDimen readGlue readStretch readShrink readMuGlue
   and of the value classes number / dimen / glue of plasTeX/__init__.py, line by line.

   The input stream (TeX.inputs with its push-back buffer) is a list of tokens; pushToken = cons.
   `for t in self` (TeX.__iter__) EXPANDS the next token before it is looked at: a control sequence, `{` or `}` becomes
   an element (nodeType == ELEMENT_NODE) and it is that element that is pushed back.  `for t in self.itertokens()` does not.
   ParameterCommand._enablelevel is the component [lvl] threaded through every reader (ParameterCommand.enabled = lvl >= 0).
   Python floats are exact rationals here (DESIGN C05); dimensions are in sp.

   No proofs in this file. *)
From Coq Require Import List ZArith Bool QArith Qabs.
From Verif Require Import Val Units.
Import ListNotations.
Local Open Scope Z_scope.

(* ---------------------------------------------------------------- tokens *)

(* what a control sequence (or a character that has a macroName) stands for *)
Inductive csk :=
| KInert (name : list Z)                 (* a macro whose invoke() returns None and which is not a ParameterCommand: \relax, ... *)
| KCount (v : Z)                         (* CountCommand subclass with this value *)
| KDimen (v : Q)                         (* DimenCommand subclass *)
| KGlue (v : Q) (st sh : option Q)       (* GlueCommand subclass: value, stretch, shrink *)
| KGrp (opening : bool) (c : Z)          (* the bgroup / egroup element made from a `{` / `}` character token *)
| KMacro (name : list Z).                (* a user macro (NewCommand / Definition): TeX expands it while scanning a number;
                                            its expansion is not modelled (every look at it gives the outcome Unmod) *)

Inductive tok :=
| Ch (cat c : Z)                         (* character token: category code, code point *)
| Cs (k : csk) (ex : bool).              (* ex = false: EscapeSequence token; ex = true: the element it expanded to *)

Definition is_param (k : csk) : bool :=
  match k with KCount _ | KDimen _ | KGlue _ _ _ => true | _ => false end.

(* int(float): truncation toward zero *)
Definition qtrunc (q : Q) : Z := Z.quot (Qnum q) (Zpos (Qden q)).

(* number(t) -> t.__count__() -> count(type(t).value) *)
Definition as_number (k : csk) : Z :=
  match k with KCount v => v | KDimen q => qtrunc q | KGlue q _ _ => qtrunc q | _ => 0 end.
(* dimen(t) -> t.__dimen__() -> dimen(type(t).value);  glue(t) keeps the value only (glue.__init__ resets stretch/shrink) *)
Definition as_dimen (k : csk) : Q :=
  match k with KCount v => inject_Z v | KDimen q => q | KGlue q _ _ => q | _ => 0%Q end.

Definition memz (c : Z) (l : list Z) : bool := existsb (Z.eqb c) l.

(* Token classes that carry a macroName (Tokenizer.py): BeginGroup EndGroup MathShift Alignment Superscript Subscript Active *)
Definition has_macro (cat : Z) : bool :=
  (cat =? 1) || (cat =? 2) || (cat =? 3) || (cat =? 4) || (cat =? 7) || (cat =? 8) || (cat =? 13).

(* One step of TeX.__iter__ on the head token: None = behaviour not modelled
   (math shift, alignment, super/subscript, active characters; a ParameterCommand met while parameters are enabled
   would run its own invoke(), i.e. parse "= value"). *)
Definition expand1 (lvl : Z) (t : tok) : option tok :=
  match t with
  | Ch cat c =>
      if cat =? 1 then Some (Cs (KGrp true c) true)
      else if cat =? 2 then Some (Cs (KGrp false c) true)
      else if has_macro cat then None
      else Some t
  | Cs k true => Some t
  | Cs (KMacro _) false => None
  | Cs k false => if is_param k && (0 <=? lvl) then None else Some (Cs k true)
  end.

Definition is_element (t : tok) : bool := match t with Cs _ true => true | _ => false end.

(* ---------------------------------------------------------------- results *)

Inductive hres (A : Type) := HOk (a : A) (s : list tok) | HUn.
Arguments HOk {A}. Arguments HUn {A}.

Inductive res (A : Type) := Ok (a : A) (s : list tok) (lvl : Z) | Crash (k : Z) (lvl : Z) | Unmod.
Arguments Ok {A}. Arguments Crash {A}. Arguments Unmod {A}.

Definition crash_unbound : Z := 1.   (* UnboundLocalError: `t` in the "Missing number" warning of readInteger *)
Definition crash_type : Z := 2.      (* TypeError: ord() of something that is not one character *)
Definition crash_value : Z := 3.     (* ValueError: int()/float() of a malformed string, unrecognised unit *)
Definition crash_index : Z := 4.     (* IndexError *)

(* ---------------------------------------------------------------- blanks and signs *)

(* readOptionalSpaces: itertokens; an element or a non-space token is pushed back *)
Fixpoint read_optional_spaces (s : list tok) : list tok :=
  match s with
  | Ch cat c :: r => if cat =? 10 then read_optional_spaces r else s
  | _ => s
  end.

(* readOneOptionalSpace *)
Definition read_one_optional_space (s : list tok) : list tok :=
  match s with
  | Ch cat c :: r => if cat =? 10 then r else s
  | _ => s
  end.

(* the loop of readOptionalSigns (for t in self): `+` nothing, `-` flips, blanks skipped, anything else pushed back.
   `t == '+'` compares the string only, whatever the category code. *)
Fixpoint signs_loop (lvl : Z) (sign : Z) (s : list tok) : hres Z :=
  match s with
  | [] => HOk sign []
  | t :: r =>
      match expand1 lvl t with
      | None => HUn
      | Some (Cs k e) => HOk sign (Cs k e :: r)
      | Some (Ch cat c) =>
          if c =? 43 then signs_loop lvl sign r
          else if c =? 45 then signs_loop lvl (- sign) r
          else if cat =? 10 then signs_loop lvl sign r
          else HOk sign (Ch cat c :: r)
      end
  end.

Definition read_optional_signs (lvl : Z) (s : list tok) : hres Z :=
  signs_loop lvl 1 (read_optional_spaces s).

(* readSequence peeks at the next token unexpanded: a token that has a macroName but whose meaning is not one TeX expands
   while it scans a number (here: not a register) -- a brace, $, ~, \relax, any ordinary command -- ends the run and stays
   in the stream UNEXPANDED.  Elements, registers and plain characters go through the expanding iterator as before. *)
Definition stops_unexpanded (t : tok) : bool :=
  match t with
  | Ch cat _ => has_macro cat
  | Cs (KMacro _) false => false
  | Cs k false => negb (is_param k)
  | Cs _ true => false
  end.

(* readSequence(chars, optspace); default handled by the callers *)
Fixpoint read_sequence (lvl : Z) (chars : list Z) (optspace : bool) (s : list tok) : hres (list Z) :=
  match s with
  | [] => HOk [] []
  | t :: r =>
      if stops_unexpanded t then HOk [] (t :: r) else
      match expand1 lvl t with
      | None => HUn
      | Some (Cs k e) => HOk [] (Cs k e :: r)
      | Some (Ch cat c) =>
          if memz c chars then
            match read_sequence lvl chars optspace r with
            | HOk o s' => HOk (c :: o) s'
            | HUn => HUn
            end
          else if optspace && (cat =? 10) then HOk [] r
          else HOk [] (Ch cat c :: r)
      end
  end.

(* ---------------------------------------------------------------- Python int() / float() on digit strings *)

Definition digit_val (c : Z) : option Z :=
  if (48 <=? c) && (c <=? 57) then Some (c - 48)
  else if (65 <=? c) && (c <=? 70) then Some (c - 55)
  else if (97 <=? c) && (c <=? 102) then Some (c - 87)
  else None.

(* int(s, base) for a non-empty digit string: None = ValueError *)
Fixpoint int_of_acc (base : Z) (acc : Z) (ds : list Z) : option Z :=
  match ds with
  | [] => Some acc
  | d :: r => match digit_val d with
              | Some v => if v <? base then int_of_acc base (acc * base + v) r else None
              | None => None
              end
  end.
Definition int_of (base : Z) (ds : list Z) : option Z := int_of_acc base 0 ds.

Fixpoint pow10 (n : nat) : positive := match n with O => 1%positive | S m => (10 * pow10 m)%positive end.

(* float(ip + '.' + fp) as an exact rational *)
Definition dec_of (ip fp : list Z) : option Q :=
  match int_of 10 ip, int_of 10 fp with
  | Some a, Some b => Some (inject_Z a + Qmake b (pow10 (length fp)))%Q
  | _, _ => None
  end.

(* ---------------------------------------------------------------- readInteger *)

Definition digits10 : list Z := [48; 49; 50; 51; 52; 53; 54; 55; 56; 57].   (* string.digits in the `elif t in string.digits` tests *)

(* ord(t) for the token after a backquote (itertokens: not expanded) *)
Definition ord_tok (t : tok) : option Z :=
  match t with
  | Ch _ c => Some c
  | Cs (KInert [c]) false => Some c
  | _ => None
  end.

Definition is_register (t : tok) : bool := match t with Cs k _ => is_param k | Ch _ _ => false end.

Definition read_integer (optspace : bool) (s : list tok) (lvl0 : Z) : res Z :=
  let lvl := lvl0 - 1 in                                   (* ParameterCommand.disable() *)
  match read_optional_signs lvl s with
  | HUn => Unmod
  | HOk sign s1 =>
    match s1 with
    | [] => Crash crash_unbound (lvl + 1)                  (* loop body never runs: num is None, `t` unbound in log.warning *)
    | t :: r =>
      match expand1 lvl t with
      | None => Unmod
      | Some (Cs k e) =>
          if is_param k then Ok (sign * as_number k) r (lvl + 1)
          else Ok 0 (Cs k e :: r) (lvl + 1)                 (* pushed back; "Missing number, treating as 0" *)
      | Some (Ch cat c) =>
          if memz c digits10 then
            match read_sequence lvl dec_digits optspace r with
            | HUn => Unmod
            | HOk ds s2 =>
              match int_of 10 (c :: ds) with
              | None => Crash crash_value lvl
              | Some n =>
                let num := sign * n in
                (* one unexpanded token is looked at (itertokens) and pushed back; only a register -- an element that is a
                   ParameterCommand, or a control sequence whose meaning is a ParameterCommand class -- is then expanded
                   and multiplies the constant; anything else stays where it is, unexpanded *)
                match s2 with
                | [] => Ok num [] (lvl + 1)
                | u :: r2 =>
                  if is_register u then
                    match expand1 lvl u with
                    | None => Unmod
                    | Some (Cs k e) => Ok (num * as_number k) r2 (lvl + 1)
                    | Some u' => Ok num (u' :: r2) (lvl + 1)
                    end
                  else Ok num (u :: r2) (lvl + 1)
                end
              end
            end
          else if c =? 39 then                               (* apostrophe: octal *)
            match read_sequence lvl oct_digits optspace r with
            | HUn => Unmod
            | HOk ds s2 => match int_of 8 (48 :: ds) with
                           | None => Crash crash_value lvl
                           | Some n => Ok (sign * n) s2 (lvl + 1)
                           end
            end
          else if c =? 34 then                               (* double quote: hexadecimal *)
            match read_sequence lvl hex_digits optspace r with
            | HUn => Unmod
            | HOk ds s2 => match int_of 16 (48 :: ds) with
                           | None => Crash crash_value lvl
                           | Some n => Ok (sign * n) s2 (lvl + 1)
                           end
            end
          else if c =? 96 then                               (* backquote: character code of the next unexpanded token *)
            match r with
            | [] => Ok 0 [] (lvl + 1)
            | u :: r2 => match ord_tok u with
                         | Some n => Ok (sign * n) r2 (lvl + 1)
                         | None => Crash crash_type lvl
                         end
            end
          else Ok 0 r (lvl + 1)                              (* the token is consumed, num stays None *)
      end
    end
  end.

(* ---------------------------------------------------------------- readDecimal *)

Definition is_point (c : Z) : bool := (c =? 46) || (c =? 44).
Definition is_quote (c : Z) : bool := (c =? 39) || (c =? 34) || (c =? 96).

Definition read_decimal (s : list tok) (lvl : Z) : res Q :=
  match read_optional_signs lvl s with
  | HUn => Unmod
  | HOk sign s1 =>
    match s1 with
    | [] => Ok 0%Q [] lvl
    | t :: r =>
      match expand1 lvl t with
      | None => Unmod
      | Some (Cs k e) => Ok 0%Q (Cs k e :: r) lvl            (* pushed back; "Missing decimal" -> float(0) *)
      | Some (Ch cat c) =>
          if memz c digits10 then
            match read_sequence lvl dec_digits false r with
            | HUn => Unmod
            | HOk ds s2 =>
              match s2 with
              | [] => match dec_of (c :: ds) [48] with
                      | Some q => Ok (inject_Z sign * q)%Q [] lvl | None => Crash crash_value lvl end
              | u :: r2 =>
                match expand1 lvl u with
                | None => Unmod
                | Some (Cs k e) => match dec_of (c :: ds) [48] with
                                   | Some q => Ok (inject_Z sign * q)%Q (Cs k e :: r2) lvl | None => Crash crash_value lvl end
                | Some (Ch cat2 c2) =>
                    if is_point c2 then
                      match read_sequence lvl dec_digits true r2 with
                      | HUn => Unmod
                      | HOk fs s3 => match dec_of (c :: ds) (match fs with [] => [48] | _ => fs end) with
                                     | Some q => Ok (inject_Z sign * q)%Q s3 lvl | None => Crash crash_value lvl end
                      end
                    else match dec_of (c :: ds) [48] with
                         | Some q => Ok (inject_Z sign * q)%Q (Ch cat2 c2 :: r2) lvl | None => Crash crash_value lvl end
                end
              end
            end
          else if is_point c then
            match read_sequence lvl dec_digits true r with
            | HUn => Unmod
            | HOk fs s2 => match dec_of [48] (match fs with [] => [48] | _ => fs end) with
                           | Some q => Ok (inject_Z sign * q)%Q s2 lvl | None => Crash crash_value lvl end
            end
          else if is_quote c then
            match read_integer true (Ch cat c :: r) lvl with
            | Ok n s2 lvl' => Ok (inject_Z (sign * n)) s2 lvl'
            | Crash k lvl' => Crash k lvl'
            | Unmod => Unmod
            end
          else Ok 0%Q r lvl                                   (* the token is consumed; float(0) *)
      end
    end
  end.

(* ---------------------------------------------------------------- readKeyword *)

(* str.upper() on ASCII (the Model is about code points < 128) *)
Definition upper (c : Z) : Z := if (97 <=? c) && (c <=? 122) then c - 32 else c.

(* t.upper() == letter, for a token from itertokens *)
Definition tok_upper_is (t : tok) (l : Z) : bool :=
  match t with
  | Ch _ c => upper c =? l
  | Cs (KInert [c]) false => upper c =? l
  | _ => false
  end.

(* the inner loop of readKeyword for one word; acc = matched so far, reversed.
   An element ends the loop WITHOUT being appended to `matched`: it is dropped from the stream. *)
Fixpoint match_word (letters : list Z) (s : list tok) (acc : list tok) : bool * list tok :=
  match letters with
  | [] => (true, s)
  | l :: ls =>
      match s with
      | [] => (false, rev acc)
      | t :: r =>
          if is_element t then (false, rev acc ++ r)
          else if tok_upper_is t l then match_word ls r (t :: acc)
          else (false, rev acc ++ t :: r)
      end
  end.

Fixpoint keyword_loop (words : list (list Z)) (optspace : bool) (s : list tok) : option (list Z) * list tok :=
  match words with
  | [] => (None, s)
  | w :: ws =>
      match match_word (map upper w) s [] with
      | (true, s') => (Some w, if optspace then read_one_optional_space s' else s')
      | (false, s') => keyword_loop ws optspace s'
      end
  end.

Definition read_keyword (words : list (list Z)) (optspace : bool) (s : list tok) : option (list Z) * list tok :=
  keyword_loop words optspace (read_optional_spaces s).

(* ---------------------------------------------------------------- dimen('1<unit>') *)

Fixpoint list_eqb (a b : list Z) : bool :=
  match a, b with
  | [], [] => true
  | x :: a', y :: b' => (x =? y) && list_eqb a' b'
  | _, _ => false
  end.

Fixpoint chain_lookup (ch : list (list Z * uact)) (u : list Z) : option uact :=
  match ch with
  | [] => None
  | (n, a) :: r => if list_eqb n u then Some a else chain_lookup r u
  end.

(* dimen.__new__ on the string '1'+unit: v = float('1'), then the if/elif chain *)
Definition dimen_of_unit (u : list Z) : option Q :=
  match chain_lookup unit_chain u with
  | Some (UMul q) => Some (1 * q)%Q
  | Some (UAdd k) => Some (1 + k)%Q
  | Some UPass => Some 1%Q
  | None => None
  end.

(* ---------------------------------------------------------------- readUnitOfMeasure, readDimen *)

Definition kw_true : list Z := [116; 114; 117; 101].
Definition kw_plus : list Z := [112; 108; 117; 115].
Definition kw_minus : list Z := [109; 105; 110; 117; 115].

Definition read_unit_of_measure (units : list (list Z)) (s : list tok) (lvl0 : Z) : res Q :=
  let s1 := read_optional_spaces s in
  let lvl := lvl0 - 1 in
  let continue (s2 : list tok) : res Q :=
    let '(_, s3) := read_keyword [kw_true] true s2 in
    let '(u, s4) := read_keyword units true s3 in
    match (match u with Some w => Some w | None => hd_error units end) with
    | None => Crash crash_index lvl
    | Some w => match dimen_of_unit w with
                | Some q => Ok q s4 (lvl + 1)
                | None => Crash crash_value (lvl + 1)        (* enable() precedes dimen('1%s') *)
                end
    end in
  match s1 with
  | [] => continue []
  | t :: r =>
      match expand1 lvl t with
      | None => Unmod
      | Some (Cs k e) => if is_param k then Ok (as_dimen k) r (lvl + 1) else continue (Cs k e :: r)
      | Some t' => continue (t' :: r)
      end
  end.

Definition two_e9 : Q := 2000000000 # 1.
Definition four_e9 : Q := 4000000000 # 1.
Definition six_e9 : Q := 6000000000 # 1.

Definition qabs (q : Q) : Q := Qabs q.
Definition qle_b (a b : Q) : bool := Qle_bool a b.
Definition qlt_b (a b : Q) : bool := negb (Qle_bool b a).

(* dimen.fill *)
Definition fill_of (u : Q) : Q :=
  let sgn : Q := if qlt_b u 0%Q then (-1 # 1)%Q else 1%Q in
  if qle_b six_e9 (qabs u) then (sgn * (qabs u - six_e9))%Q
  else if qle_b four_e9 (qabs u) then (sgn * (qabs u - four_e9))%Q
  else (sgn * (qabs u - two_e9))%Q.

(* readDimen after the fix: a fil(ll) unit scales the amount and keeps the order offset *)
Definition scale_unit (num u : Q) : Q :=
  if qle_b two_e9 (qabs u) then
    let order := (qabs u - qabs (fill_of u))%Q in
    let n := (num * fill_of u)%Q in
    if qlt_b n 0%Q then (n - order)%Q else (n + order)%Q
  else (num * u)%Q.

Definition read_dimen (units : list (list Z)) (s : list tok) (lvl0 : Z) : res Q :=
  let lvl := lvl0 - 1 in
  match read_optional_signs lvl s with
  | HUn => Unmod
  | HOk sign s1 =>
    let continue (s2 : list tok) : res Q :=
      match read_decimal s2 lvl with
      | Unmod => Unmod
      | Crash k l => Crash k l
      | Ok d s3 lvl1 =>
          match read_unit_of_measure units s3 lvl1 with
          | Unmod => Unmod
          | Crash k l => Crash k l
          | Ok u s4 lvl2 => Ok (scale_unit (inject_Z sign * d) u)%Q s4 (lvl2 + 1)
          end
      end in
    match s1 with
    | [] => continue []
    | t :: r =>
        match expand1 lvl t with
        | None => Unmod
        | Some (Cs k e) => if is_param k then Ok (inject_Z sign * as_dimen k)%Q r (lvl + 1) else continue (Cs k e :: r)
        | Some t' => continue (t' :: r)
        end
    end
  end.

(* ---------------------------------------------------------------- readGlue *)

Definition gluev : Type := (Q * option Q * option Q)%type.

(* readStretch / readShrink: each has its own `units + [...]` list in the source (fils) *)
Definition read_fil_part (kw : list Z) (units fils : list (list Z)) (s : list tok) (lvl : Z) : res (option Q) :=
  match read_keyword [kw] true s with
  | (Some _, s1) => match read_dimen (units ++ fils) s1 lvl with
                    | Ok q s2 l => Ok (Some q) s2 l
                    | Crash k l => Crash k l
                    | Unmod => Unmod
                    end
  | (None, s1) => Ok None s1 lvl
  end.

Definition read_glue (units : list (list Z)) (s : list tok) (lvl0 : Z) : res gluev :=
  let lvl := lvl0 - 1 in
  match read_optional_signs lvl s with
  | HUn => Unmod
  | HOk sign s1 =>
    let continue (s2 : list tok) : res gluev :=
      match read_dimen units s2 lvl with
      | Unmod => Unmod
      | Crash k l => Crash k l
      | Ok d s3 lvl1 =>
          match read_fil_part kw_plus units fil_units s3 lvl1 with
          | Unmod => Unmod
          | Crash k l => Crash k l
          | Ok st s4 lvl2 =>
              match read_fil_part kw_minus units fil_units_minus s4 lvl2 with
              | Unmod => Unmod
              | Crash k l => Crash k l
              | Ok sh s5 lvl3 => Ok ((inject_Z sign * d)%Q, st, sh) s5 (lvl3 + 1)
              end
          end
      end in
    match s1 with
    | [] => continue []
    | t :: r =>
        match expand1 lvl t with
        | None => Unmod
        | Some (Cs k e) => if is_param k then Ok ((inject_Z sign * as_dimen k)%Q, None, None) r (lvl + 1) else continue (Cs k e :: r)
        | Some t' => continue (t' :: r)
        end
    end
  end.
