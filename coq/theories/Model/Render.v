(* Model of the file-splitting and linking part of plasTeX's renderer (properties C13 and C14):

     plasTeX/Renderers/__init__.py   Renderer.render (split level / single-file template, filename generator),
                                     Renderer.cacheFilenames, Renderable.filename, Renderable.__str__ (+ StaticNode),
                                     Renderable.url
     plasTeX/Base/LaTeX/Sectioning.py SectionUtils.footnotes, subsections, allSections, documentSections, links (prev / next / up /
                                     breadcrumbs), tableofcontents, fulltableofcontents, TableOfContents (the depth-limiting proxy)
     plasTeX/__init__.py             Macro.currentSection (Macro.id is data here: the identifiers are read off the rendered document)

   The filename generator is the Model of property C15 (Model/Filenames.v), used unchanged.

   A document is the digested DOM as far as Node.childNodes reaches: text leaves (one per marker word) and element nodes with the
   attributes the anchored code reads (level, nodeType == DOCUMENT_NODE, @id, @hasgenid, title / ref as Renderable.filename would bind
   them, nodeName) and an identity [a_ser] standing for the Python object (r.files is a dictionary keyed by node objects; "s is self").
   parentNode walks are walks along the list of ancestors found by [locate].

   The template engines are NOT modelled.  What a template does enters as three functions of a [Section]:
     tmpl a s        what the template of a node with attributes [a] returns when str(node) -- the rendering of its children -- is [s]
     layout a v fns  what the layout template of a file-producing node returns for content [v] and footnotes [fns] (node, str(node))
     shows a         whether the template of [a] evaluates {{ obj }} at all (only then are the files of nested units written)
   The theorems assume only the linearity hypotheses stated in Proofs/RenderProofs.v; the extracted Model runs with [std_tmpl] /
   [std_layout] / [std_shows], a table of what the shipped HTML5 / XHTML templates emit (ids, links, headings), checked by the
   correspondence.

   Outside the Model (assumptions, see notes/C13/REPORT.md): filenameoverride / splitlevel / urloverride attributes (no shipped macro
   sets them); nodes that live in attribute dictionaries (titles, captions' optional arguments) are not reached by cacheFilenames;
   files opened by sectioning units inside a footnote body are not written by [wr].  No proofs in this file. *)
From Coq Require Import List ZArith NArith Bool.
Import ListNotations.
From Verif Require Import Val Filenames.
Local Open Scope Z_scope.

(* ---- constants of plasTeX/DOM/__init__.py ---- *)
Definition DOCUMENT_LEVEL : Z := -9223372036854775807.     (* -sys.maxsize *)
Definition ENDSECTIONS_LEVEL : Z := 100.

(* ---- the document ---- *)
Record attrs := mkA {
  a_ser : Z;               (* identity of the node object *)
  a_kind : Z;              (* which template the renderer finds for it (see std_tmpl); irrelevant to assign / url / nav / toc *)
  a_level : Z;
  a_isdoc : bool;          (* nodeType == Node.DOCUMENT_NODE *)
  a_id : option str;       (* @id *)
  a_genid : bool;          (* @hasgenid *)
  a_title : option str;    (* title.textContent / title, when hasattr(self, 'title') *)
  a_ref : option str;      (* ref.textContent / ref *)
  a_name : str;            (* nodeName *)
  a_targets : list Z;      (* the nodes a \ref / \pageref / \cite / index page links to *)
  a_resolved : bool }.

Inductive node := T (w : Z) | E (a : attrs) (cs : list node).

Definition nonempty_s (s : str) : bool := match s with [] => false | _ => true end.

(* ---- Renderer.render: split level, filename generator ---- *)
Record rcfg := {
  r_split : Z;             (* config['files']['split-level'] *)
  r_template : str;        (* config['files']['filename'] *)
  r_fc : Filenames.cfg;    (* bad-chars / bad-chars-sub, fileExtension (and which repairs of Filenames.py are present) *)
  r_jobname : str;
  r_base : str;            (* config['document']['base-url'] *)
  r_tocdepth : Z;
  r_tocnonfiles : bool }.

(* filenameTemplate = config["files"]["filename"].strip(); if ' ' not in it and '[' not in it: self.level = -10 *)
Definition single_template (t : str) : bool :=
  let t' := strip t in negb (existsb (Z.eqb 32) t') && negb (existsb (Z.eqb 91) t').
Definition eff_level (c : rcfg) : Z := if single_template (r_template c) then -10 else r_split c.

Definition k_id : str := [105; 100].
Definition k_title : str := [116; 105; 116; 108; 101].
Definition k_ref : str := [114; 101; 102].
Definition k_name : str := [110; 97; 109; 101].
Definition k_jobname : str := [106; 111; 98; 110; 97; 109; 101].

(* Renderable.filename, "Populate vars of filename generator" *)
Definition bindings (a : attrs) : list (str * str) :=
  (match a_id a with Some i => if a_genid a then [] else [(k_id, i)] | None => [] end) ++
  (match a_title a with Some t => [(k_title, t)] | None => [] end) ++
  (match a_ref a with Some r => if nonempty_s r then [(k_ref, r)] else [] | None => [] end) ++
  (if nonempty_s (a_name a) then [(k_name, a_name a)] else []).

(* r.files : node -> filename, in insertion order *)
Definition fileslist := list (Z * option str).
Inductive ares := AOk (st : Filenames.st) (files : fileslist) | ACrash (k : Z).

(* Renderable.filename for a node that is not yet in r.files (cacheFilenames visits every node once) *)
Definition ask (lvl : Z) (fc : Filenames.cfg) (a : attrs) (st : Filenames.st) (files : fileslist) : ares :=
  if lvl <? a_level a then AOk st files                               (* if self.level > level: return *)
  else match request fc st (bindings a) with
       | (RName f, st') => AOk st' (files ++ [(a_ser a, Some f)])
       | (RNone, st') => AOk st' (files ++ [(a_ser a, None)])         (* finished generator: r.files[self] = None *)
       | (RRaise k, _) => ACrash k                                    (* the exception leaves render() *)
       | (RFuel, _) => ACrash (-3)
       end.

(* Renderer.cacheFilenames: _ = node.filename; for child in node.childNodes: self.cacheFilenames(child) *)
Fixpoint cache_filenames (lvl : Z) (fc : Filenames.cfg) (n : node) (st : Filenames.st) (files : fileslist) : ares :=
  match n with
  | T _ => AOk st files                                              (* text nodes have no config: return None *)
  | E a cs =>
      match ask lvl fc a st files with
      | ACrash k => ACrash k
      | AOk st1 files1 =>
          (fix go (cs : list node) (st : Filenames.st) (files : fileslist) : ares :=
             match cs with
             | [] => AOk st files
             | c :: r => match cache_filenames lvl fc c st files with
                         | ACrash k => ACrash k
                         | AOk st' files' => go r st' files'
                         end
             end) cs st1 files1
      end
  end.

Definition gen_init (c : rcfg) (files : list fileent) : Filenames.st :=
  {| ph := PFresh files; vars := [(k_jobname, r_jobname c)]; inval := [] |}.

(* None: the template is outside the modelled grammar of parseFilenames *)
Definition assign (c : rcfg) (doc : node) : option ares :=
  match parse_filenames (r_template c) with
  | None => None
  | Some files => Some (cache_filenames (eff_level c) (r_fc c) doc (gen_init c files) [])
  end.

Fixpoint files_lookup (x : Z) (l : fileslist) : option str :=
  match l with
  | [] => None
  | (y, f) :: r => if x =? y then f else files_lookup x r
  end.

(* ---- parentNode: the ancestors of a node, nearest first ---- *)
Fixpoint locate (x : Z) (chain : list attrs) (n : node) : option (list attrs * attrs * list node) :=
  match n with
  | T _ => None
  | E a cs =>
      if a_ser a =? x then Some (chain, a, cs)
      else (fix go (cs : list node) : option (list attrs * attrs * list node) :=
              match cs with
              | [] => None
              | c :: r => match locate x (a :: chain) c with Some res => Some res | None => go r end
              end) cs
  end.

(* ---- output ---- *)
Inductive item :=
| IWord (w : Z)                       (* a word of body text *)
| IId (s : str)                       (* an element carrying id="s" (or <a name="s">) *)
| IHead (ser : Z)                     (* the heading of a sectioning unit *)
| ILink (href : str) (text : str).    (* <a href="href">text</a> *)

Definition out := list item.

Section Render.
  Context (fmap : Z -> option str).                              (* node.filename *)
  Context (tmpl : attrs -> out -> out).
  Context (layout : attrs -> out -> list (attrs * out) -> out).
  Context (shows : attrs -> bool).

  Definition has_file (a : attrs) : bool := match fmap (a_ser a) with Some f => nonempty_s f | None => false end.

  (* Renderable.__str__: "At the very top level, only render the DOCUMENT_LEVEL node" *)
  Definition vis (a : attrs) (c : node) : bool :=
    if a_isdoc a then match c with E b _ => a_level b =? DOCUMENT_LEVEL | T _ => false end else true.

  (* what a child contributes to the string returned by its parent's __str__ *)
  Fixpoint str_node (n : node) : out :=
    match n with
    | T w => [IWord w]                                              (* s.append(r.textDefault(child)) *)
    | E a cs =>
        if has_file a then []                                        (* written to its own file; "continue" *)
        else tmpl a (flat_map (fun c => if vis a c then str_node c else []) cs)   (* s.append(func(child)) *)
    end.

  (* str(node) *)
  Definition str_kids (a : attrs) (cs : list node) : out := flat_map (fun c => if vis a c then str_node c else []) cs.

  (* SectionUtils.footnotes of the node [self]: for f in userdata['footnotes']: s = f.currentSection;
     while s is not None and not s.filename: s = s.currentSection; if s is self: output.append(f) *)
  Definition owner_of (chain : list attrs) : option Z :=
    match find (fun p => (a_level p <? ENDSECTIONS_LEVEL) && has_file p) chain with
    | Some p => Some (a_ser p)
    | None => None
    end.

  Definition footnotes_of (doc : node) (fnotes : list Z) (self : attrs) : list (attrs * out) :=
    flat_map (fun f => match locate f [] doc with
                       | Some (chain, fa, fcs) =>
                           match owner_of chain with
                           | Some o => if o =? a_ser self then [(fa, str_kids fa fcs)] else []
                           | None => []
                           end
                       | None => []
                       end) fnotes.

  (* val = func(child); val = layoutfunc(StaticNode(child, val)) *)
  Definition content (doc : node) (fnotes : list Z) (a : attrs) (cs : list node) : out :=
    layout a (tmpl a (str_kids a cs)) (footnotes_of doc fnotes a).

  (* the files written while func(n) is evaluated, in the order of the open(filename, 'w') calls *)
  Fixpoint wr (doc : node) (fnotes : list Z) (n : node) : list (str * out) :=
    match n with
    | T _ => []
    | E a cs =>
        let inner := if shows a then flat_map (fun c => if vis a c then wr doc fnotes c else []) cs else [] in
        match fmap (a_ser a) with
        | Some f => if nonempty_s f then inner ++ [(f, content doc fnotes a cs)] else inner
        | None => inner
        end
    end.

  (* str(document) in Renderer.render *)
  Definition render (doc : node) (fnotes : list Z) : list (str * out) :=
    match doc with
    | E a cs => flat_map (fun c => if vis a c then wr doc fnotes c else []) cs
    | T _ => []
    end.

  (* ---- Renderable.url ---- *)
  Definition base_of (base : str) : str :=                       (* if base and base.endswith('/'): base = base[:-1] *)
    match rev base with 47 :: r => rev r | _ => base end.

  Definition url (doc : node) (base : str) (x : Z) : option str :=
    match locate x [] doc with
    | None => None
    | Some (chain, a, _) =>
        let b := base_of base in
        if has_file a then
          match fmap (a_ser a) with
          | Some f => Some (if nonempty_s b then b ++ [47] ++ f else f)
          | None => None
          end
        else
          (* node = self.parentNode; while node is not None and node.filename is None: node = node.parentNode *)
          let filename := match find (fun p => match fmap (a_ser p) with Some _ => true | None => false end) chain with
                          | Some p => match fmap (a_ser p) with Some f => f | None => [] end
                          | None => []
                          end in
          match a_id a with
          | Some i => Some ((if nonempty_s b then b ++ [47] else []) ++ filename ++ [35] ++ i)
          | None => None                      (* self.id would be generated now: not an identifier of the rendered document *)
          end
    end.

  (* ---- SectionUtils: subsections, allSections, documentSections, links ---- *)
  Definition is_sub (c : node) : bool := match c with E b _ => a_level b <? ENDSECTIONS_LEVEL | T _ => false end.

  Fixpoint all_sections (n : node) : list attrs :=
    match n with
    | T _ => []
    | E a cs => a :: flat_map (fun c => if is_sub c then all_sections c else []) cs
    end.

  (* document = self; while document.level is not DOCUMENT_LEVEL: document = document.parentNode; if None: return [] *)
  Definition document_sections (doc : node) (self : attrs) (chain : list attrs) : list attrs :=
    match find (fun p => a_level p =? DOCUMENT_LEVEL) (self :: chain) with
    | Some d => match locate (a_ser d) [] doc with
                | Some (_, da, dcs) => all_sections (E da dcs)
                | None => []
                end
    | None => []
    end.

  (* the for loop of links: prev / next around self in the list of file-producing sections *)
  Fixpoint prev_next (self : Z) (sections : list attrs) (prev : option Z) (breaknext : bool) : option Z * option Z :=
    match sections with
    | [] => (prev, None)
    | item :: r =>
        if a_ser item =? self then prev_next self r prev true
        else if breaknext then (prev, Some (a_ser item))
        else prev_next self r (Some (a_ser item)) false
    end.

  (* breadcrumbs = [self] + parents while level > DOCUMENT_LEVEL + the first one that is not; reversed *)
  Fixpoint crumbs_up (chain : list attrs) : list Z :=
    match chain with
    | [] => []
    | p :: r => if DOCUMENT_LEVEL <? a_level p then a_ser p :: crumbs_up r else [a_ser p]
    end.

  Record navinfo := { n_prev : option Z; n_next : option Z; n_up : option Z; n_crumbs : list Z }.

  Definition links (doc : node) (x : Z) : option navinfo :=
    match locate x [] doc with
    | None => None
    | Some (chain, a, _) =>
        let sections := filter has_file (document_sections doc a chain) in
        let '(p, n) := prev_next (a_ser a) sections None false in
        let up := if DOCUMENT_LEVEL <? a_level a then match chain with q :: _ => Some (a_ser q) | [] => None end else None in
        let crumbs := if DOCUMENT_LEVEL <? a_level a then rev (a_ser a :: crumbs_up chain) else [a_ser a] in
        Some {| n_prev := p; n_next := n; n_up := up; n_crumbs := crumbs |}
    end.

  (* ---- tableofcontents / fulltableofcontents / the TableOfContents proxy ---- *)
  Inductive toc := TocEntry (ser : Z) (sub : list toc).

  (* TableOfContents(x, limit, level).tableofcontents = [TableOfContents(y, limit, level+1) for y in x.fulltableofcontents] while level < limit;
     fulltableofcontents = subsections (only those that create files unless toc-non-files) *)
  Fixpoint toc_entry (nonfiles : bool) (limit : Z) (level : Z) (n : node) : list toc :=
    match n with
    | T _ => []
    | E a cs =>
        [TocEntry (a_ser a)
           (if level <? limit
            then flat_map (fun c => match c with
                                    | E b _ => if is_sub c && (nonfiles || has_file b) then toc_entry nonfiles limit (level + 1) c else []
                                    | T _ => []
                                    end) cs
            else [])]
    end.

  (* SectionUtils.tableofcontents of the node (a, cs) *)
  Definition tableofcontents (nonfiles : bool) (tocdepth : Z) (cs : list node) : list toc :=
    if tocdepth <? 1 then []
    else if negb (existsb (fun c => match c with E b _ => is_sub c && has_file b | T _ => false end) cs) then []
    else flat_map (fun c => match c with
                            | E b _ => if is_sub c && (nonfiles || has_file b) then toc_entry nonfiles tocdepth 1 c else []
                            | T _ => []
                            end) cs.
End Render.

(* ---- what the shipped templates emit (HTML5 *.jinja2s / XHTML *.zpts), as far as ids, links, headings and body text go ---- *)
Definition K_PLAIN := 0.     Definition K_SECTION := 1.   Definition K_FOOTNOTE := 2.  Definition K_REF := 3.
Definition K_PAGEREF := 4.   Definition K_ANCHOR := 5.    Definition K_CITE := 6.      Definition K_BIBITEM := 7.
Definition K_CAPTION := 8.   Definition K_INDEXPAGE := 9. Definition K_HIDDEN := 10.   Definition K_ITEM := 11.
Definition K_DOCENV := 12.   Definition K_ROOT := 13.

Record env := { e_url : Z -> option str; e_ref : Z -> option str; e_item_ids : bool }.

Definition opt_id (a : attrs) : out := match a_id a with Some i => [IId i] | None => [] end.
Definition link_to (e : env) (t : Z) : out :=
  match e_url e t with
  | Some u => [ILink u (match e_ref e t with Some r => r | None => [] end)]
  | None => []
  end.

Definition std_tmpl (e : env) (a : attrs) (s : out) : out :=
  let k := a_kind a in
  if k =? K_SECTION then opt_id a ++ [IHead (a_ser a)] ++ s                       (* <hN id="{{ obj.id }}">{{ obj.fullTitle }}</hN> {{ obj }} *)
  else if k =? K_FOOTNOTE then                                                    (* <a class="footnote" href="#{{ obj.id }}"> mark *)
    match a_id a with Some i => [ILink (35 :: i) []] | None => [] end
  else if k =? K_REF then                                                         (* <a href="{{ obj.idref.label.url }}">{{ obj.idref.label.ref }}</a> or ?? *)
    if a_resolved a then flat_map (link_to e) (a_targets a) else []
  else if k =? K_PAGEREF then                                                     (* <a href="{{ obj.idref.label.url }}">*</a> *)
    if a_resolved a then flat_map (fun t => match e_url e t with Some u => [ILink u [42]] | None => [] end) (a_targets a) else []
  else if k =? K_ANCHOR then opt_id a                                             (* <a name=.. id="{{ obj.id }}"></a> *)
  else if k =? K_CITE then flat_map (link_to e) (a_targets a)
  else if k =? K_BIBITEM then opt_id a ++ s                                       (* <dt><a name="{{ item.id }}">..</a></dt><dd>{{ item }}</dd> *)
  else if k =? K_CAPTION then opt_id a ++ s                                       (* <figure id="{{ obj.title.id }}"> around the caption's figure *)
  else if k =? K_INDEXPAGE then opt_id a ++ flat_map (link_to e) (a_targets a) ++ s   (* <h1 id="{{ obj.id }}">, <a href="{{ page.url }}"> (after notes/C14/fix-1.diff) *)
  else if k =? K_HIDDEN then []
  else if k =? K_ITEM then (if e_item_ids e then opt_id a else []) ++ s
  else s.

(* the layout templates: {{ obj }} then <li id="{{ footnote.id }}">{{ footnote }}</li> for each footnote of the file *)
Definition std_layout (a : attrs) (v : out) (fns : list (attrs * out)) : out :=
  v ++ flat_map (fun fn => opt_id (fst fn) ++ snd fn) fns.

Definition std_shows (a : attrs) : bool :=
  let k := a_kind a in
  negb ((k =? K_FOOTNOTE) || (k =? K_REF) || (k =? K_PAGEREF) || (k =? K_ANCHOR) || (k =? K_CITE) || (k =? K_HIDDEN)).

(* ---- wire format ---- *)
Definition get_ostr (v : val) : option (option str) :=
  match v with
  | VI _ => Some None
  | VL _ => match getZs v with Some s => Some (Some s) | None => None end
  end.

(* levels are sent as (q r) with level = q * 10^9 + r, because -sys.maxsize does not fit the driver's native integers *)
Definition get_level (v : val) : option Z :=
  match v with
  | VL [VI q; VI r] => Some (q * 1000000000 + r)
  | _ => None
  end.

Fixpoint get_node (v : val) : option node :=
  match v with
  | VI w => Some (T w)
  | VL [VI ser; VI kind; lv; VI isdoc; idv; VI genid; titlev; refv; namev; targetsv; VI resolved; VL kids] =>
      match get_level lv, get_ostr idv, get_ostr titlev, get_ostr refv, getZs namev, getZs targetsv,
            (fix go (l : list val) : option (list node) :=
               match l with
               | [] => Some []
               | x :: r => match get_node x, go r with Some n, Some ns => Some (n :: ns) | _, _ => None end
               end) kids with
      | Some level, Some i, Some t, Some r, Some name, Some targets, Some cs =>
          Some (E {| a_ser := ser; a_kind := kind; a_level := level; a_isdoc := negb (isdoc =? 0); a_id := i; a_genid := negb (genid =? 0);
                     a_title := t; a_ref := r; a_name := name; a_targets := targets; a_resolved := negb (resolved =? 0) |} cs)
      | _, _, _, _, _, _, _ => None
      end
  | _ => None
  end.

Definition mk_fcfg (bad sub e : str) (lr lw lp : Z) : Filenames.cfg :=
  {| cs := Some (bad, sub); ext := e; legacy_reset := negb (lr =? 0); legacy_words := negb (lw =? 0); legacy_passes := negb (lp =? 0) |}.

(* cfg: (split template bad sub ext jobname base tocdepth tocnonfiles legacy_reset legacy_words legacy_passes item_ids) *)
Definition get_cfg (v : val) : option (rcfg * bool) :=
  match v with
  | VL [VI split; tv; badv; subv; extv; jobv; basev; VI tocdepth; VI nonfiles; VI lr; VI lw; VI lp; VI itemids] =>
      match getZs tv, getZs badv, getZs subv, getZs extv, getZs jobv, getZs basev with
      | Some t, Some bad, Some sub, Some e, Some job, Some base =>
          Some ({| r_split := split; r_template := t; r_fc := mk_fcfg bad sub e lr lw lp; r_jobname := job; r_base := base;
                   r_tocdepth := tocdepth; r_tocnonfiles := negb (nonfiles =? 0) |}, negb (itemids =? 0))
      | _, _, _, _, _, _ => None
      end
  | _ => None
  end.

Definition of_str (s : str) : val := VL (map VI s).
Definition of_ostr (s : option str) : val := match s with Some s => of_str s | None => VI 0 end.
Definition of_oz (z : option Z) : val := match z with Some z => VI z | None => VI (-1) end.

Definition words (o : out) : list Z := flat_map (fun i => match i with IWord w => [w] | _ => [] end) o.
Definition heads (o : out) : list Z := flat_map (fun i => match i with IHead s => [s] | _ => [] end) o.
Definition ids (o : out) : list str := flat_map (fun i => match i with IId s => [s] | _ => [] end) o.
Definition hrefs (o : out) : list (str * str) := flat_map (fun i => match i with ILink h t => [(h, t)] | _ => [] end) o.

(* every element node, document order *)
Fixpoint elements (n : node) : list attrs :=
  match n with T _ => [] | E a cs => a :: flat_map elements cs end.

Fixpoint of_toc (t : toc) : val := match t with TocEntry s sub => VL [VI s; VL (map of_toc sub)] end.

Definition v_unmodelled : val := VL [VI (-4)].

Definition the_fmap (files : fileslist) : Z -> option str := fun x => files_lookup x files.

Definition the_env (doc : node) (c : rcfg) (files : fileslist) (itemids : bool) : env :=
  {| e_url := url (the_fmap files) doc (r_base c);
     e_ref := fun t => match locate t [] doc with Some (_, a, _) => a_ref a | None => None end;
     e_item_ids := itemids |}.

(* case: (mode cfg tree fnotes).
   mode 13 -> (0 assignment files) with files = ((name words headings) ...) in the order they are written
   mode 14 -> (0 urls nav toc files) with files = ((name ids links) ...)                                                *)
Definition run_case (v : val) : val :=
  match v with
  | VL [VI mode; cfgv; treev; fnv] =>
      match get_cfg cfgv, get_node treev, getZs fnv with
      | Some (c, itemids), Some doc, Some fnotes =>
          match assign c doc with
          | None => v_unmodelled
          | Some (ACrash k) => v_crash k
          | Some (AOk _ files) =>
              let fm := the_fmap files in
              let e := the_env doc c files itemids in
              let rendered := render fm (std_tmpl e) std_layout std_shows doc fnotes in
              if mode =? 13 then
                VL [VI 0;
                    VL (map (fun xf => VL [VI (fst xf); of_ostr (snd xf)]) files);
                    VL (map (fun fo => VL [of_str (fst fo); VL (map VI (words (snd fo))); VL (map VI (heads (snd fo)))]) rendered)]
              else
                let els := match doc with E _ cs => flat_map elements cs | T _ => [] end in
                VL [VI 0;
                    VL (flat_map (fun a => match (if has_file fm a then true else match a_id a with Some _ => true | None => false end),
                                                 url fm doc (r_base c) (a_ser a) with
                                           | true, Some u => [VL [VI (a_ser a); of_str u]]
                                           | _, _ => []
                                           end) els);
                    VL (flat_map (fun a => if has_file fm a then
                                             match links fm doc (a_ser a) with
                                             | Some n => [VL [VI (a_ser a); of_oz (n_prev n); of_oz (n_next n); of_oz (n_up n); VL (map VI (n_crumbs n))]]
                                             | None => []
                                             end
                                           else []) els);
                    VL (flat_map (fun a => if has_file fm a then
                                             match locate (a_ser a) [] doc with
                                             | Some (_, _, cs) => [VL [VI (a_ser a); VL (map of_toc (tableofcontents fm (r_tocnonfiles c) (r_tocdepth c) cs))]]
                                             | None => []
                                             end
                                           else []) els);
                    VL (map (fun fo => VL [of_str (fst fo); VL (map of_str (ids (snd fo)));
                                           VL (map (fun ht => VL [of_str (fst ht); of_str (snd ht)]) (hrefs (snd fo)))]) rendered)]
          end
      | _, _, _ => v_bad_input
      end
  | _ => v_bad_input
  end.
