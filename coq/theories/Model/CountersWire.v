(* C08 -- wire decoding for the correspondence check: one case = [cls; depth; events];
   the answer is [model observation; spec observation]. *)
From Coq Require Import List ZArith Bool.
Import ListNotations.
From Verif Require Import Val CounterSyntax FormatParse ClassCounters Counters NumberingSpec.
Local Open Scope Z_scope.

Definition get_opt_name (v : val) : option (option name) :=
  match v with
  | VL [] => Some None
  | VL [n] => match getZs n with Some s => Some (Some s) | None => None end
  | _ => None
  end.

Definition get_repr (z : Z) : option (option repr) :=
  if z =? -1 then Some None else if z =? 0 then Some (Some RArabic) else if z =? 1 then Some (Some RRoman)
  else if z =? 2 then Some (Some Rroman) else if z =? 3 then Some (Some RAlph) else if z =? 4 then Some (Some Ralph)
  else if z =? 5 then Some (Some RFnsymbol) else if z =? 6 then Some (Some RUnknown) else None.

Definition get_event (v : val) : option event :=
  match v with
  | VL [VI 0; n; s] => match getZs n, getB s with Some n', Some s' => Some (ESec n' s') | _, _ => None end
  | VL [VI 1] => Some EEquation
  | VL [VI 2; VL rows] => match mapM getB rows with Some r => Some (EEqnarray r) | None => None end
  | VL [VI 3] => Some EEqnarrayStar
  | VL [VI 4; t] => match getB t with Some t' => Some (ECaption t') | None => None end
  | VL [VI 5; n] => match getZs n with Some n' => Some (EThm n') | None => None end
  | VL [VI 6; n; sh; w; s] =>
      match getZs n, get_opt_name sh, get_opt_name w, getB s with
      | Some n', Some sh', Some w', Some s' => Some (ENewTheorem n' sh' w' s')
      | _, _, _, _ => None
      end
  | VL [VI 7; n; w] => match getZs n, get_opt_name w with Some n', Some w' => Some (ENewCounter n' w') | _, _ => None end
  | VL [VI 8; c; VI x] => match getZs c with Some c' => Some (ESet c' x) | None => None end
  | VL [VI 9; c; VI x] => match getZs c with Some c' => Some (EAddTo c' x) | None => None end
  | VL [VI 10; c] => match getZs c with Some c' => Some (EStep c') | None => None end
  | VL [VI 11; b] => match getB b with Some b' => Some (EBeginList b') | None => None end
  | VL [VI 12] => Some EEndList
  | VL [VI 13] => Some EItem
  | VL [VI 14] => Some EAppendix
  | VL [VI 15; VI r; c] => match get_repr r, getZs c with Some r', Some c' => Some (EPrint r' c') | _, _ => None end
  | _ => None
  end.

Definition of_opt_str (o : option str) : val := match o with None => VL [] | Some s => VL [ofZs s] end.
Definition of_outs (l : list out) : val := VL (map (fun p => VL [VI (fst p); of_opt_str (snd p)]) l).

Definition model_obs (cls depth : Z) (es : list event) : val :=
  match number_doc cls depth es with
  | Ok (ms, outs) =>
      VL [VI 0; of_outs outs;
          VL (map (fun p => VL [ofZs (fst p); of_opt_str (truthy (c_resetby (snd p))); VI (c_value (snd p))]) (m_counters ms));
          VI (m_ldepth ms)]
  | Crash k => v_crash k
  | Fuel => v_outoffuel
  end.

Definition spec_obs (cls depth : Z) (es : list event) : val :=
  match spec_doc false cls depth es with
  | Some (ss, outs) =>
      VL [VI 1; of_outs outs; VL (map (fun p => VL [ofZs (fst p); VI (snd p)]) (s_vals ss));
          (* is the document also in the domain of the proved (strict) theorem? *)
          ofB (match spec_doc true cls depth es with Some _ => true | None => false end)]
  | None => VL []
  end.

Definition run_case (v : val) : val :=
  match v with
  | VL [VI 101; VI trim; fs] =>      (* a format string given to context.newcounter('zz', format=..., trimLeft=...) in a book *)
      match getZs fs with
      | Some s =>
          let zz := [122; 122] in
          let ms0 := init_state 1 in
          let st := setcounter [101; 113; 117; 97; 116; 105; 111; 110] 12
                      (setcounter [115; 101; 99; 116; 105; 111; 110] 3 (setcounter [99; 104; 97; 112; 116; 101; 114] 2 (m_counters ms0))) in
          let ms1 := newcounter zz None (parse_format s) (negb (trim =? 0)) (with_counters ms0 st) in
          let ms2 := with_counters ms1 (setcounter zz 7 (m_counters ms1)) in
          match the_of ms2 zz with
          | Ok t => VL [VI 0; ofZs t]
          | Crash k => v_crash k
          | Fuel => v_outoffuel
          end
      | None => v_bad_input
      end
  | VL [VI cls; VI depth; VL evs] =>
      match mapM get_event evs with
      | Some es => VL [model_obs cls depth es; spec_obs cls depth es]
      | None => v_bad_input
      end
  | VL [VI 100; VI r; VI v] =>       (* representation check: one counter value *)
      match get_repr r with
      | Some (Some r') =>
          VL [match counter_repr r' v with Ok s => VL [VI 0; ofZs s] | Crash k => v_crash k | Fuel => v_outoffuel end;
              of_opt_str (spec_repr r' v)]
      | _ => v_bad_input
      end
  | _ => v_bad_input
  end.
