(* Model of plasTeX/Base/LaTeX/Index.py (with plasTeX/Packages/makeidx.py supplying \see / \seealso):
     index.invoke        -> scan / finish / parse_format / parse_entry     (the ! @ | and double-quote syntax)
     IndexEntry.__lt__   -> cmpkey / lkey_lt / entry_lt                     (after fix-1; the comparator before the fix is entry_lt_orig)
     sorted(...)         -> isort (a stable insertion sort; Proofs: every stable sort by a strict weak order returns the same list)
     IndexUtils.digest   -> digest_step / digest                            (the previous-entry prefix merge, on a zipper)
     Index.totallen, IndexUtils.groups, IndexUtils.splitColumns -> totallen / title_of / batch / split_columns / groups
   The Model follows the Python statement by statement; Python exceptions are the outcome [None].
   External behaviour enters as Section variables:
     ck   : the collator (pyuca sort_key or the str.lower fallback), with the comparison of its keys (keqb, kltb)
     tx   : textContent of tex.expandTokens(tokens);   src : .source of tex.expandTokens(tokens)
     ud   : unidecode(c).upper() for one character;    letters : encoding.stringletters()
   No proofs here. *)
From Coq Require Import List ZArith Bool Arith.
Import ListNotations.
From Verif Require Import Val.
Local Open Scope Z_scope.

Definition str := list Z.                 (* Python str: code points *)
Definition tok := (Z * str)%type.         (* a TeX token: (catcode, characters); an escape sequence is (0, name) *)

(* ---------- Python == and < on sequences ---------- *)
Fixpoint list_eqb {A} (eqb : A -> A -> bool) (a b : list A) : bool :=
  match a, b with
  | [], [] => true
  | x :: a', y :: b' => eqb x y && list_eqb eqb a' b'
  | _, _ => false
  end.
Definition str_eqb : str -> str -> bool := list_eqb Z.eqb.
Definition tok_eqb (a b : tok) : bool := Z.eqb (fst a) (fst b) && str_eqb (snd a) (snd b).
Definition toks_eqb : list tok -> list tok -> bool := list_eqb tok_eqb.

(* sequence '<': the first position where the elements differ under ==, then '<' there; a proper prefix is smaller *)
Fixpoint lex_lt {A} (eqb lt : A -> A -> bool) (a b : list A) : bool :=
  match a, b with
  | [], [] => false
  | [], _ :: _ => true
  | _ :: _, [] => false
  | x :: a', y :: b' => if eqb x y then lex_lt eqb lt a' b' else lt x y
  end.
Definition str_lt : str -> str -> bool := lex_lt Z.eqb Z.ltb.   (* str < str compares code points *)

(* ================================================================================================ *)
(* index.invoke : parsing of the entry argument                                                      *)

Definition alnum (t : tok) : bool := (fst t =? 12) || (fst t =? 11) || (fst t =? 10).   (* CC_OTHER, CC_LETTER, CC_SPACE *)
Definition is_ch (t : tok) (c : Z) : bool := str_eqb (snd t) [c].                          (* tok == '<c>' *)
Definition is_letter (t : tok) : bool := fst t =? 11.

(* a Python list object as index.invoke handles it: a list of its own, or THE list named `format`
   (which `current`, and through it elements of `key` and `sortkey`, may alias) *)
Inductive cell := COwn (l : list tok) | CFmt.
Record pst := mkP { p_sort : list cell; p_key : list cell; p_fmt : list tok; p_cur : cell }.

(* current.append(tok) *)
Definition push (s : pst) (t : tok) : pst :=
  match p_cur s with
  | COwn l => mkP (p_sort s) (p_key s) (p_fmt s) (COwn (l ++ [t]))
  | CFmt => mkP (p_sort s) (p_key s) (p_fmt s ++ [t]) CFmt
  end.

(* key.append(current); if len(sortkey) < len(key): sortkey.append(current); current = <newcur> *)
Definition close_key (s : pst) (newcur : cell) : pst :=
  let key' := p_key s ++ [p_cur s] in
  let sort' := if (length (p_sort s) <? length key')%nat then p_sort s ++ [p_cur s] else p_sort s in
  mkP sort' key' (p_fmt s) newcur.

(* for tok in entry: ...   (the inner 'for tok in entry: current.append(tok); break' takes one more token from the same iterator) *)
Fixpoint scan (ts : list tok) (s : pst) : pst :=
  match ts with
  | [] => s
  | t :: rest =>
      if alnum t then
        if is_ch t 34 then                                   (* the double quote : escape character *)
          match rest with
          | [] => s
          | t2 :: rest' => scan rest' (push s t2)
          end
        else if is_ch t 33 then scan rest (close_key s (COwn []))      (* '!' *)
        else if is_ch t 64 then                                          (* '@' : sortkey.append(current); current = [] *)
          scan rest (mkP (p_sort s ++ [p_cur s]) (p_key s) (p_fmt s) (COwn []))
        else if is_ch t 124 then scan rest (close_key s CFmt)           (* '|' : ...; current = format *)
        else scan rest (push s t)
      else scan rest (push s t)
  end.

(* if not format: key.append(current); if len(sortkey) < len(key): sortkey.append(current) *)
Definition finish (s : pst) : pst :=
  match p_fmt s with [] => close_key s (p_cur s) | _ :: _ => s end.

Definition resolve (s : pst) (c : cell) : list tok := match c with COwn l => l | CFmt => p_fmt s end.

Fixpoint span_letters (l : list tok) : list tok * list tok :=
  match l with
  | t :: r => if is_letter t then let (a, b) := span_letters r in (t :: a, b) else ([], l)
  | [] => ([], [])
  end.

Definition s_see : str := [115; 101; 101].
Definition s_seealso : str := [115; 101; 101; 97; 108; 115; 111].
Definition s_ipn : str := [105; 110; 100; 101; 120; 45; 112; 97; 103; 101; 45; 110; 117; 109; 98; 101; 114].   (* index-page-number *)

(* 'Get the format element': (tokens handed to expandTokens or None, the IndexEntry type)  *)
Definition parse_format (fmt : list tok) : option (list tok) * Z :=
  match fmt with
  | [] => (None, 0)
  | _ :: _ =>
      let (m, rest) := span_letters fmt in
      match m with
      | [] => (Some (fmt ++ [(0, s_ipn)]), 0)
      | _ :: _ =>
          let name := concat (map snd m) in
          (Some ((0, name) :: rest ++ [(0, s_ipn)]),
           if str_eqb name s_see then 1 else if str_eqb name s_seealso then 2 else 0)
      end
  end.

(* sorted(entries): a stable sort that only calls '<'.  Insertion from the right; x goes in front of the
   first element that is not smaller than x, so equal elements keep their order. *)
Section Sort.
  Context {A : Type} (lt : A -> A -> bool).
  Fixpoint insert (x : A) (l : list A) : list A :=
    match l with
    | [] => [x]
    | y :: l' => if lt y x then y :: insert x l' else x :: y :: l'
    end.
  Fixpoint isort (l : list A) : list A :=
    match l with [] => [] | x :: l' => insert x (isort l') end.
End Sort.

Section Model.
  Context {K : Type} (ck : str -> K) (keqb kltb : K -> K -> bool).
  Context (tx : list tok -> str) (src : list tok -> str).
  Context (ud : Z -> str) (letters : str).

  (* what index.invoke stores: IndexEntry(key, self, sortkey, format, type).  key[i] is the fragment expandTokens(tokens):
     it is represented by its tokens (== on fragments is modelled as equality of the token lists, .textContent by tx, .source by src);
     sortkey[i] is the string expandTokens(tokens).textContent.  sortkey is never empty, so IndexEntry.__init__ copies it. *)
  Definition parse_entry (ts : list tok) : list (list tok) * list str * (option (list tok) * Z) :=
    let s := finish (scan ts (mkP [] [] [] (COwn []))) in
    (map (resolve s) (p_key s), map (fun c => tx (resolve s c)) (p_sort s), parse_format (p_fmt s)).

  Record entry := mkEntry { e_key : list (list tok); e_sort : list str; e_fmt : option (list tok); e_type : Z; e_node : Z }.

  Definition entry_of (node : Z) (ts : list tok) : entry :=
    let '(k, s, (f, ty)) := parse_entry ts in mkEntry k s f ty node.

  (* ============================================================================================== *)
  (* IndexEntry.__lt__ (after fix-1):
       key_self = list(zip([collator(x) for x in self.sortkey], [collator(x.textContent) for x in self.key],
                           self.sortkey, [x.source for x in self.key]))      # zip stops at the shortest *)
  Definition lkey := (K * K * str * str)%type.
  Definition cmpkey (e : entry) : list lkey :=
    map (fun p : str * list tok => (ck (fst p), ck (tx (snd p)), fst p, src (snd p))) (combine (e_sort e) (e_key e)).

  Definition lkey_eqb (a b : lkey) : bool :=
    let '(a1, a2, a3, a4) := a in let '(b1, b2, b3, b4) := b in
    keqb a1 b1 && keqb a2 b2 && str_eqb a3 b3 && str_eqb a4 b4.
  (* tuple '<': first component that differs under ==, then '<' there *)
  Definition lkey_lt (a b : lkey) : bool :=
    let '(a1, a2, a3, a4) := a in let '(b1, b2, b3, b4) := b in
    if negb (keqb a1 b1) then kltb a1 b1
    else if negb (keqb a2 b2) then kltb a2 b2
    else if negb (str_eqb a3 b3) then str_lt a3 b3
    else str_lt a4 b4.
  Definition keys_lt : list lkey -> list lkey -> bool := lex_lt lkey_eqb lkey_lt.

  Definition entry_lt (a b : entry) : bool :=
    if keys_lt (cmpkey a) (cmpkey b) then true                  (* key_self < key_other *)
    else if keys_lt (cmpkey b) (cmpkey a) then false            (* key_self > key_other *)
    else (length (e_key a) <? length (e_key b))%nat.

  (* The comparator before fix-1 (NOT used by run_case; kept for the refutation theorems):
       zip(collated sortkeys, collated key texts, self.key)  where the third components are DOM fragments:
       == is structural, and '<' between two fragments is always False (Node.__lt__ ends in nodeName < nodeName). *)
  Definition okey := (K * K * list tok)%type.
  Definition cmpkey_orig (e : entry) : list okey :=
    map (fun p : str * list tok => (ck (fst p), ck (tx (snd p)), snd p)) (combine (e_sort e) (e_key e)).
  Definition okey_eqb (a b : okey) : bool :=
    let '(a1, a2, a3) := a in let '(b1, b2, b3) := b in keqb a1 b1 && keqb a2 b2 && toks_eqb a3 b3.
  Definition okey_lt (a b : okey) : bool :=
    let '(a1, a2, a3) := a in let '(b1, b2, b3) := b in
    if negb (keqb a1 b1) then kltb a1 b1 else if negb (keqb a2 b2) then kltb a2 b2 else false.
  Definition entry_lt_orig (a b : entry) : bool :=
    if lex_lt okey_eqb okey_lt (cmpkey_orig a) (cmpkey_orig b) then true
    else if lex_lt okey_eqb okey_lt (cmpkey_orig b) (cmpkey_orig a) then false
    else (length (e_key a) <? length (e_key b))%nat.

  (* sorted(entries) is [isort entry_lt entries], see below the Section *)

  (* ============================================================================================== *)
  (* IndexUtils.digest : the index tree.  Index nodes: key (fragment, as tokens), sortkey, pages, children. *)
  Definition label := (str * list tok)%type.          (* an element of zip(entry.sortkey, entry.key) *)
  Definition label_eqb (a b : label) : bool := str_eqb (fst a) (fst b) && toks_eqb (snd a) (snd b).
  Definition labels (e : entry) : list label := combine (e_sort e) (e_key e).
  Definition page := (Z * Z)%type.                    (* IndexDestination(item.type, item.node) *)
  Inductive node := Node (key : list tok) (sortkey : str) (pages : list page) (kids : list node).

  (* `current` and its ancestors up to `self` (innermost first): nodes that may still receive children or pages.
     A frame is attached to its parent when `current` moves up past it; in Python it was attached when created,
     as the last child, which is the same tree because only the last child of an open node is open. *)
  Record frame := mkF { f_key : list tok; f_sort : str; f_pages : list page; f_kids : list node }.
  Definition mk (f : frame) : node := Node (f_key f) (f_sort f) (f_pages f) (f_kids f).
  Definition zipper := (list frame * list node)%type.      (* (open nodes, finished children of self) *)

  (* for prevkey, itemkey in zip(zip(prev.sortkey, prev.key), zip(item.sortkey, item.key)): if ==: common += 1; continue; break *)
  Fixpoint common_prefix (a b : list label) : nat :=
    match a, b with
    | x :: a', y :: b' => if label_eqb x y then S (common_prefix a' b') else O
    | _, _ => O
    end.

  (* current = current.parentNode *)
  Definition pop_one (z : zipper) : option zipper :=
    match z with
    | (f :: g :: fs, R) => Some (mkF (f_key g) (f_sort g) (f_pages g) (f_kids g ++ [mk f]) :: fs, R)
    | ([f], R) => Some ([], R ++ [mk f])
    | ([], R) => None       (* current would leave the index node; not reachable: the number of open nodes is len(prev.key) *)
    end.
  Fixpoint pop_n (n : nat) (z : zipper) : option zipper :=
    match n with O => Some z | S n' => match pop_one z with Some z' => pop_n n' z' | None => None end end.

  (* i = common; while i < len(item.key): newidx.key = item.key[i]; newidx.sortkey = item.sortkey[i]; current.append(newidx); current = newidx *)
  Fixpoint push_levels (ks : list (list tok)) (ss : list str) (sp : list frame) : option (list frame) :=
    match ks with
    | [] => Some sp
    | k :: ks' => match ss with
                  | [] => None                                  (* item.sortkey[i]: IndexError *)
                  | s :: ss' => push_levels ks' ss' (mkF k s [] [] :: sp)
                  end
    end.

  (* current.pages.append(IndexDestination(item.type, item.node)) *)
  Definition add_page (pg : page) (sp : list frame) : option (list frame) :=
    match sp with
    | f :: fs => Some (mkF (f_key f) (f_sort f) (f_pages f ++ [pg]) (f_kids f) :: fs)
    | [] => None                                               (* current is self, which has no .pages: AttributeError *)
    end.

  (* one iteration of 'for item in entries' (the page-number text appended to item.node is not part of the index tree) *)
  Definition digest_step (prev item : entry) (z : zipper) : option zipper :=
    let common := common_prefix (labels prev) (labels item) in
    match pop_n (length (e_key prev) - common)%nat z with
    | None => None
    | Some (sp, R) =>
        match push_levels (skipn common (e_key item)) (skipn common (e_sort item)) sp with
        | None => None
        | Some sp' => match add_page (e_type item, e_node item) sp' with
                      | None => None
                      | Some sp'' => Some (sp'', R)
                      end
        end
    end.

  Fixpoint digest_loop (prev : entry) (es : list entry) (z : zipper) : option zipper :=
    match es with
    | [] => Some z
    | item :: es' => match digest_step prev item z with
                     | Some z' => digest_loop item es' z'
                     | None => None
                     end
    end.

  (* the children of self when the loop is over *)
  Fixpoint close (sp : list frame) (pend : list node) (R : list node) : list node :=
    match sp with
    | [] => R ++ pend
    | f :: fs => close fs [Node (f_key f) (f_sort f) (f_pages f) (f_kids f ++ pend)] R
    end.

  Definition prev0 : entry := mkEntry [] [] None 0 0.          (* IndexEntry([], None) *)

  (* entries = sorted(userdata['index']); the loop; the resulting children of the index node *)
  Definition digest_with (lt : entry -> entry -> bool) (es : list entry) : option (list node) :=
    match digest_loop prev0 (isort lt es) ([], []) with
    | Some (sp, R) => Some (close sp [] R)
    | None => None
    end.
  Definition digest : list entry -> option (list node) := digest_with entry_lt.

  (* ============================================================================================== *)
  (* Index.totallen, IndexUtils.splitColumns, IndexUtils.groups *)
  Fixpoint totallen (n : node) : Z :=
    match n with
    | Node _ _ _ kids => 1 + (fix go (l : list node) : Z := match l with [] => 0 | k :: l' => totallen k + go l' end) kids
    end.

  (* The loop over the reversed entries.  `output` is kept with its LAST column first, and every column with its
     LAST appended item first: output[-1].append(item) is a cons on the head column, and the final
     'output.reverse(); for item in output: item.reverse()' is then the identity on this representation. *)
  Fixpoint fill {A} (cols coltotal : Z) (ents : list (Z * A)) (current : Z) (c : list A) (cs : list (list A)) : list (list A) :=
    match ents with
    | [] => c :: cs
    | (num, item) :: rest =>
        let current := current + num in
        if Z.of_nat (length (c :: cs)) >=? cols then fill cols coltotal rest current (item :: c) cs
        else if current >? coltotal then fill cols coltotal rest num [item] (c :: cs)
        else if current =? coltotal then fill cols coltotal rest 0 [] ((item :: c) :: cs)
        else fill cols coltotal rest current (item :: c) cs
    end.

  Definition nonempty {A} (l : list A) : bool := match l with [] => false | _ :: _ => true end.

  Definition split_columns {A} (size : A -> Z) (items : list A) (cols : Z) : option (list (list A)) :=
    if cols =? 0 then None                                            (* grandtotal / cols: ZeroDivisionError *)
    else
      let ents := rev (map (fun it => (size it, it)) items) in        (* entries (without the (0,0) sentinel), reversed *)
      let grandtotal := fold_left (fun a it => a + size it) items 0 in
      let coltotal := Z.quot grandtotal cols in                       (* int(grandtotal / cols) *)
      let out := filter nonempty (fill cols coltotal ents 0 [] []) in
      Some (out ++ repeat [] (Z.to_nat (cols - Z.of_nat (length out)))).

  Definition s_symbols : str := [83; 121; 109; 98; 111; 108; 115].                                        (* Symbols *)
  Definition s_underscore : str := [95; 32; 40; 85; 110; 100; 101; 114; 115; 99; 111; 114; 101; 41].     (* _ (Underscore) *)

  Fixpoint prefix_b (a b : str) : bool :=
    match a, b with
    | [], _ => true
    | x :: a', y :: b' => Z.eqb x y && prefix_b a' b'
    | _ :: _, [] => false
    end.
  Fixpoint infix_b (a b : str) : bool :=                              (* Python: a in b, for strings *)
    prefix_b a b || match b with [] => false | _ :: b' => infix_b a b' end.

  (* title = unidecode(item.sortkey[0]).upper(); letter / '_' / otherwise 'Symbols'; IndexError -> 'Symbols'   (after fix-2) *)
  Definition title_of (sortkey : str) : str :=
    match sortkey with
    | [] => s_symbols
    | c :: _ => let t := ud c in
                if (length t =? 1)%nat && infix_b t letters then t
                else if str_eqb t [95] then s_underscore
                else s_symbols
    end.

  (* the batching loop; batches is kept with the LAST group first and every group with its last item first *)
  Fixpoint batch {A} (titlef : A -> str) (items : list A) (current : str) (bs : list (str * list A)) : option (list (str * list A)) :=
    match items with
    | [] => Some bs
    | it :: rest =>
        let t := titlef it in
        let bs1 := if negb (str_eqb current t) then (t, []) :: bs else bs in
        match bs1 with
        | [] => None                                                   (* batches[-1] on an empty list: IndexError *)
        | (t0, l) :: bs' => batch titlef rest t ((t0, it :: l) :: bs')
        end
    end.

  Fixpoint mapM_o {A B} (f : A -> option B) (l : list A) : option (list B) :=
    match l with
    | [] => Some []
    | x :: xs => match f x with
                 | None => None
                 | Some y => match mapM_o f xs with Some ys => Some (y :: ys) | None => None end
                 end
    end.

  (* groups: items are the children of the index node, paired with their position *)
  Definition node_sortkey (n : node) : str := match n with Node _ s _ _ => s end.
  Definition groups {A} (skey : A -> str) (size : A -> Z) (items : list A) (cols : Z) : option (list (str * list (list A))) :=
    match batch (fun it => title_of (skey it)) items [] [] with
    | None => None
    | Some bs => mapM_o (fun g : str * list A => match split_columns size (rev (snd g)) cols with
                                                 | Some cs => Some (fst g, cs)
                                                 | None => None
                                                 end) (rev bs)
    end.
End Model.

(* ================================================================================================ *)
(* Spec side of the entry syntax: what an \index argument SPELLS (makeindex: main!sub!subsub, sort@display,
   |format, the double quote quoting the next character), written from the makeindex rules and the property text. *)
Definition special (t : tok) : bool := alnum t && (is_ch t 34 || is_ch t 33 || is_ch t 64 || is_ch t 124).
Definition dq : tok := (12, [34]).
Definition bang : tok := (12, [33]).
Definition at_ : tok := (12, [64]).
Definition bar : tok := (12, [124]).

(* text is written with every special character preceded by the quote character *)
Fixpoint quote (l : list tok) : list tok :=
  match l with
  | [] => []
  | t :: r => if special t then dq :: t :: quote r else t :: quote r
  end.

Record level := mkLevel { l_sort : option (list tok); l_disp : list tok }.
(* a format is a macro name (letters) followed by argument tokens, e.g. see{x}, textbf *)
Record ientry := mkI { i_levels : list level; i_fmt : option (str * list tok) }.

Definition print_level (l : level) : list tok :=
  match l_sort l with
  | Some s => quote s ++ [at_] ++ quote (l_disp l)
  | None => quote (l_disp l)
  end.
Fixpoint print_levels (ls : list level) : list tok :=
  match ls with
  | [] => []
  | [l] => print_level l
  | l :: ls' => print_level l ++ [bang] ++ print_levels ls'
  end.
Definition name_toks (name : str) : list tok := map (fun c => (11, [c])) name.
Definition print_entry (e : ientry) : list tok :=
  print_levels (i_levels e) ++
  match i_fmt e with
  | None => []
  | Some (name, args) => [bar] ++ name_toks name ++ args
  end.

Definition sort_part (l : level) : list tok := match l_sort l with Some s => s | None => l_disp l end.
Definition fmt_type (name : str) : Z := if str_eqb name s_see then 1 else if str_eqb name s_seealso then 2 else 0.

(* ================================================================================================ *)
(* Wire: run_case.  K = list Z (a pyuca sort key is a tuple of ints, the fallback key a str: both compare as
   sequences of integers); ck, ud, tx, src by table look-up.  tx_c / src_c below are the rules for the accent-free
   part of the alphabet (used by the worked examples in Proofs/). *)
Definition zs_eqb : list Z -> list Z -> bool := list_eqb Z.eqb.
Definition zs_lt : list Z -> list Z -> bool := lex_lt Z.eqb Z.ltb.

Fixpoint lookup {V} (t : list (list Z * V)) (k : list Z) : option V :=
  match t with
  | [] => None
  | (k0, v) :: t' => if zs_eqb k0 k then Some v else lookup t' k
  end.

(* control symbols whose text is the character itself: \_ \& \% \# \$ \{ \} *)
Definition ctrl_sym (name : str) : bool :=
  match name with [c] => (c =? 95) || (c =? 38) || (c =? 37) || (c =? 35) || (c =? 36) || (c =? 123) || (c =? 125) | _ => false end.
Definition tx_tok (t : tok) : str :=
  if alnum t then snd t else if (fst t =? 0) && ctrl_sym (snd t) then snd t else [].
Definition tx_c (l : list tok) : str := concat (map tx_tok l).
Definition src_tok (t : tok) : str :=
  if fst t =? 0 then (if ctrl_sym (snd t) then 92 :: snd t ++ [32] else 92 :: snd t) else snd t.
Definition src_c (l : list tok) : str := concat (map src_tok l).

Definition tok_of (v : val) : option tok :=
  match v with VL [VI c; s] => match getZs s with Some s => Some (c, s) | None => None end | _ => None end.
Definition toks_of (v : val) : option (list tok) := match v with VL l => mapM tok_of l | _ => None end.
Definition pair_of (v : val) : option (list Z * list Z) :=
  match v with VL [a; b] => match getZs a, getZs b with Some a, Some b => Some (a, b) | _, _ => None end | _ => None end.
Definition cpair_of (v : val) : option (list Z * list Z) :=
  match v with VL [VI c; b] => match getZs b with Some b => Some ([c], b) | None => None end | _ => None end.

Definition of_str (s : str) : val := VL (map VI s).
Definition of_tok (t : tok) : val := VL [VI (fst t); of_str (snd t)].
Definition of_toks (l : list tok) : val := VL (map of_tok l).

(* keys of the tx / src tables: an injective flattening of a token list *)
Definition enc_toks (l : list tok) : list Z := concat (map (fun t : tok => fst t :: Z.of_nat (length (snd t)) :: snd t) l).

Section Out.
  Context (tx src : list tok -> str).
  Fixpoint of_node (n : node) : val :=
    match n with
    | Node k s pgs kids =>
        VL [of_str (src k); of_str (tx k); of_str s;
            VL (map (fun p : page => VL [VI (fst p); VI (snd p)]) pgs);
            VL ((fix go (l : list node) : list val := match l with [] => [] | x :: l' => of_node x :: go l' end) kids)]
    end.
End Out.

(* tx and src by table look-up as well (tables computed by the harness rules for the generated token alphabet, which now
   includes accent control sequences whose text is a composed character; the real .textContent / .source are compared on every
   case); a missing entry yields the sentinel [-1], which no ck table contains, so the case is answered [-4] *)
Definition run_case (v : val) : val :=
  match v with
  | VL [VL ents; VI cols; VL ckt; VL udt; lets; VL txt; VL srct] =>
      match mapM toks_of ents, mapM pair_of ckt, mapM cpair_of udt, getZs lets, mapM pair_of txt, mapM pair_of srct with
      | Some ents, Some ckt, Some udt, Some lets, Some txt, Some srct =>
          let ck := fun s => match lookup ckt s with Some k => k | None => [-1] end in
          let ud := fun c => match lookup udt [c] with Some u => u | None => [] end in
          let tx := fun l => match lookup txt (enc_toks l) with Some t => t | None => [-1] end in
          let src := fun l => match lookup srct (enc_toks l) with Some t => t | None => [-1] end in
          let es := map (fun p : nat * list tok => entry_of tx (Z.of_nat (fst p)) (snd p)) (combine (seq 0 (length ents)) ents) in
          let needed := concat (map (fun e => e_sort e ++ map tx (e_key e)) es) in
          let needc := concat (map (fun e => match e_sort e with (c :: _) :: _ => [[c]] | _ => [] end) es) in
          let needs := concat (map (fun e => map enc_toks (e_key e)) es) in
          if negb (forallb (fun s => match lookup ckt s with Some _ => true | None => false end) needed
                   && forallb (fun c => match lookup udt c with Some _ => true | None => false end) needc
                   && forallb (fun k => match lookup srct k with Some _ => true | None => false end) needs)
          then VL [VI (-4)]                                     (* a table entry is missing: harness error, never silently defaulted *)
          else
          let ents_out := VL (map (fun e => VL [VL (map of_toks (e_key e)); VL (map of_str (e_sort e));
                                                match e_fmt e with None => VL [] | Some f => VL [of_toks f] end;
                                                VI (e_type e)]) es) in
          match digest ck zs_eqb zs_lt tx src es with
          | None => VL [ents_out; v_crash 1; VL []]
          | Some tree =>
              let items := combine (seq 0 (length tree)) tree in
              let g := groups ud lets (fun it : nat * node => node_sortkey (snd it)) (fun it => totallen (snd it)) items cols in
              VL [ents_out; VL (map (of_node tx src) tree);
                  match g with
                  | None => v_crash 2
                  | Some gs => VL (map (fun g : str * list (list (nat * node)) =>
                                          VL [of_str (fst g); VL (map (fun col => VL (map (fun it : nat * node => ofNat (fst it)) col)) (snd g))]) gs)
                  end]
          end
      | _, _, _, _, _, _ => v_bad_input
      end
  | _ => v_bad_input
  end.
