(* Model for C12 (rendered HTML never turns document text into markup), following

     plasTeX/Renderers/PageTemplate/__init__.py   PageTemplate.textDefault, processFileContent, setImageData
     plasTeX/Renderers/__init__.py                Renderable.__str__ (routing of text nodes and .str shortcuts)
     plasTeX/DOM/__init__.py                      Node.textContent
     markupsafe.escape (Jinja2's "e" filter), html.escape (simpleTAL's attribute / string escaper)

   as the code stands after the proposed repairs notes/C12/fix-1.diff (setImageData leaves text that names no image alone;
   [fixed = false] is the code before it), fix-2.diff (layout templates pipe document text in attribute values through "e")
   and fix-3.diff (the tag clean-ups of HTML5 / XHTML.processFileContent use ASCII character classes).

   Strings are lists of code points (N).  Python's str.replace(one character, string) is [replace_char]; re.sub with the image
   placeholder pattern is [sub_placeholder] (leftmost match, greedy \S+ with explicit backtracking, optional units group);
   the list comprehension over characters > 127 is [post_high].  Where Python raises the result is [None]. *)
From Coq Require Import List NArith ZArith Bool Arith.
Import ListNotations.
From Verif Require Import Val HtmlSpec.
Local Open Scope N_scope.

(* ------------------------------------------------------------------------------------------------ *)
(* textDefault *)

(* str.replace(chr c, rep) *)
Definition replace_char (c : N) (rep : str) (s : str) : str :=
  flat_map (fun x => if x =? c then rep else [x]) s.

Definition e_amp : str := [38; 97; 109; 112; 59].   (* &amp; *)
Definition e_lt : str := [38; 108; 116; 59].        (* &lt; *)
Definition e_gt : str := [38; 103; 116; 59].        (* &gt; *)
Definition e_quot : str := [38; 113; 117; 111; 116; 59].  (* &quot; *)
Definition e_x27 : str := [38; 35; 120; 50; 55; 59].      (* &#x27; *)
Definition e_n39 : str := [38; 35; 51; 57; 59].           (* &#39; *)
Definition e_n34 : str := [38; 35; 51; 52; 59].           (* &#34; *)

(*  if not(getattr(node, 'isMarkup', None)):
        node = node.replace('&', '&amp;'); node = node.replace('<', '&lt;'); node = node.replace('>', '&gt;')
    return self.outputType(node) *)
Definition text_default (is_markup : bool) (s : str) : str :=
  if negb is_markup then
    let s1 := replace_char 38 e_amp s in
    let s2 := replace_char 60 e_lt s1 in
    replace_char 62 e_gt s2
  else s.

Definition escape (s : str) : str := text_default false s.

(* markupsafe.escape: five chained str.replace calls, in this order:
     ampersand -> &amp;   greater-than -> &gt;   less-than -> &lt;   apostrophe -> &#39;   double quote -> &#34; *)
Definition escape_e (s : str) : str :=
  replace_char 34 e_n34 (replace_char 39 e_n39 (replace_char 60 e_lt (replace_char 62 e_gt (replace_char 38 e_amp s)))).

(* html.escape(s, quote): ampersand, less-than, greater-than and, if quote, the double quote (&quot;) then the apostrophe (&#x27;) *)
Definition escape_html (quote : bool) (s : str) : str :=
  let s3 := replace_char 62 e_gt (replace_char 60 e_lt (replace_char 38 e_amp s)) in
  if quote then replace_char 39 e_x27 (replace_char 34 e_quot s3) else s3.

(* ------------------------------------------------------------------------------------------------ *)
(* processFileContent, first statement:
     s = re.sub(r'&amp;(\S+)-(width|height|depth);(?:&amp;([a-z]+);)?', self.setImageData, s) *)

(* str.isspace() / \s of the re module on str patterns *)
Definition is_pyspace (c : N) : bool :=
  ((9 <=? c) && (c <=? 13)) || ((28 <=? c) && (c <=? 32)) || (c =? 133) || (c =? 160) || (c =? 5760)
  || ((8192 <=? c) && (c <=? 8202)) || (c =? 8232) || (c =? 8233) || (c =? 8239) || (c =? 8287) || (c =? 12288).

Inductive param := PWidth | PHeight | PDepth.
Definition param_name (p : param) : str :=
  match p with
  | PWidth => [119; 105; 100; 116; 104]
  | PHeight => [104; 101; 105; 103; 104; 116]
  | PDepth => [100; 101; 112; 116; 104]
  end.
Definition param_eqb (a b : param) : bool :=
  match a, b with PWidth, PWidth | PHeight, PHeight | PDepth, PDepth => true | _, _ => false end.

(* -(width|height|depth);  at the start of t: which parameter, and the length of what was matched *)
Definition match_suffix (t : str) : option (param * nat) :=
  if prefixb (45 :: param_name PWidth ++ [59]) t then Some (PWidth, 7%nat)
  else if prefixb (45 :: param_name PHeight ++ [59]) t then Some (PHeight, 8%nat)
  else if prefixb (45 :: param_name PDepth ++ [59]) t then Some (PDepth, 7%nat)
  else None.

(* \S+ is greedy: it first takes the whole run of non-blank characters and gives characters back one at a time *)
Definition nonspace_run (t : str) : nat := length (fst (span (fun c => negb (is_pyspace c)) t)).

Fixpoint backtrack (k : nat) (t : str) : option (nat * param * nat) :=
  match k with
  | O => None
  | S k' =>
      match match_suffix (skipn k t) with
      | Some (p, l) => Some (k, p, l)
      | None => backtrack k' t
      end
  end.

Definition is_lower (c : N) : bool := (97 <=? c) && (c <=? 122).

(* (?:&amp;([a-z]+);)?  at the start of u: the units and the length matched *)
Definition match_units (u : str) : option (str * nat) :=
  if prefixb e_amp u then
    let (ls, tl) := span is_lower (skipn 5 u) in
    match ls, tl with
    | _ :: _, 59 :: _ => Some (ls, (5 + length ls + 1)%nat)
    | _, _ => None
    end
  else None.

Record pmatch := { pm_file : str; pm_param : param; pm_units : option str; pm_len : nat }.

(* a match of the whole pattern at the start of s *)
Definition match_here (s : str) : option pmatch :=
  if prefixb e_amp s then
    let t := skipn 5 s in
    match backtrack (nonspace_run t) t with
    | Some (k, p, l) =>
        let after := skipn (k + l) t in
        match match_units after with
        | Some (u, ul) => Some {| pm_file := firstn k t; pm_param := p; pm_units := Some u; pm_len := (5 + k + l + ul)%nat |}
        | None => Some {| pm_file := firstn k t; pm_param := p; pm_units := None; pm_len := (5 + k + l)%nat |}
        end
    | None => None
    end
  else None.

(* what setImageData sees of the imagers: filename -> per parameter (None / str(value), unit -> getattr(value, unit)) *)
Definition dimval := (str * list (str * str))%type.
Definition image := list (param * dimval).
Definition imgtable := list (str * image).

Definition str_eqb (a b : str) : bool := if list_eq_dec N.eq_dec a b then true else false.

Fixpoint assoc_str {A} (k : str) (l : list (str * A)) : option A :=
  match l with [] => None | (a, v) :: r => if str_eqb a k then Some v else assoc_str k r end.
Fixpoint assoc_param {A} (k : param) (l : list (param * A)) : option A :=
  match l with [] => None | (a, v) :: r => if param_eqb a k then Some v else assoc_param k r end.

(*  img = self.imager.images.get(filename, ...)
    if img is not None and getattr(img, parameter) is not None:
        if units: return getattr(getattr(img, parameter), units)         (AttributeError for an unknown unit: None here)
        return str(getattr(img, parameter))
    return m.group(0)                      before fix-1:  return '&%s-%s;' % (filename, parameter)  *)
Definition set_image_data (fixed : bool) (imgs : imgtable) (m : pmatch) (whole : str) : option str :=
  let fallback := if fixed then whole else 38 :: pm_file m ++ 45 :: param_name (pm_param m) ++ [59] in
  match assoc_str (pm_file m) imgs with
  | Some img =>
      match assoc_param (pm_param m) img with
      | Some (sv, units) =>
          match pm_units m with
          | Some u => assoc_str u units
          | None => Some sv
          end
      | None => Some fallback
      end
  | None => Some fallback
  end.

(* re.sub: scan from the left; at a match emit the replacement and continue after it, otherwise copy one character.
   [skip] characters still belong to the last match. *)
Fixpoint sub_placeholder (fixed : bool) (imgs : imgtable) (skip : nat) (s : str) {struct s} : option str :=
  match s with
  | [] => Some []
  | c :: r =>
      match skip with
      | S k => sub_placeholder fixed imgs k r
      | O =>
          match match_here s with
          | Some m =>
              match set_image_data fixed imgs m (firstn (pm_len m) s), sub_placeholder fixed imgs (pm_len m - 1) r with
              | Some rep, Some out => Some (rep ++ out)
              | _, _ => None
              end
          | None =>
              match sub_placeholder fixed imgs 0 r with
              | Some out => Some (c :: out)
              | None => None
              end
          end
      end
  end.

(* the file names the pattern finds in s (used to state when the substitution leaves a file alone) *)
Fixpoint candidates (skip : nat) (s : str) {struct s} : list str :=
  match s with
  | [] => []
  | c :: r =>
      match skip with
      | S k => candidates k r
      | O =>
          match match_here s with
          | Some m => pm_file m :: candidates (pm_len m - 1) r
          | None => candidates 0 r
          end
      end
  end.

(* ------------------------------------------------------------------------------------------------ *)
(* processFileContent, second statement:
     if document.config['files']['escape-high-chars']:
         for i, item in enumerate(s):  if ord(item) > 127: s[i] = '&#%.3d;' % ord(item) *)

Fixpoint dec_digits_fuel (fuel : nat) (n : N) : str :=
  match fuel with
  | O => [48 + n mod 10]
  | S f => if n <? 10 then [48 + n] else dec_digits_fuel f (n / 10) ++ [48 + n mod 10]
  end.
(* a number below 2^k has at most k decimal digits *)
Definition dec_digits (n : N) : str := dec_digits_fuel (N.to_nat (N.size n)) n.

(* '%.3d' % n : at least three digits *)
Definition fmt_3d (n : N) : str :=
  let ds := dec_digits n in repeat 48 (3 - length ds) ++ ds.

Definition high_char (c : N) : str := if 127 <? c then 38 :: 35 :: fmt_3d c ++ [59] else [c].
Definition post_high (hi : bool) (s : str) : str := if hi then flat_map high_char s else s.

(* PageTemplate.processFileContent (BaseRenderer.processFileContent is the identity) *)
Definition post (fixed : bool) (imgs : imgtable) (hi : bool) (s : str) : option str :=
  match sub_placeholder fixed imgs 0 s with
  | Some s1 => Some (post_high hi s1)
  | None => None
  end.

(* ------------------------------------------------------------------------------------------------ *)
(* HTML5.processFileContent / XHTML.processFileContent: the tag-level clean-ups that follow PageTemplate.processFileContent,
   as the code stands after fix-3 (re.A: \s, \b and case folding are ASCII, as HTML syntax is):
     R0 (XHTML)  re.compile(r'(<(?:hr|br|img|link|meta|col)\b.*?)\s*/?\s*(>)', re.I|re.S|re.A).sub(r'\1 /\2', s)
     R1          re.compile(r'<p>\s*</p>', re.I|re.A).sub(r'', s)
     R2          re.compile(r'(<(td|th)\b[^>]*>)\s*(</\2>)', re.I|re.A).sub(r'\1&nbsp;\3', s)
   Each is a left-to-right scan: at a match emit the replacement and continue after it, else copy one character. *)

Definition is_ws_ascii (c : N) : bool := ((9 <=? c) && (c <=? 13)) || (c =? 32).
Definition is_word (c : N) : bool := is_alnum c || (c =? 95).
Definition lower (c : N) : N := if (65 <=? c) && (c <=? 90) then c + 32 else c.

(* p is lower case *)
Fixpoint prefix_ci (p s : str) : bool :=
  match p, s with
  | [], _ => true
  | x :: p', y :: s' => (x =? lower y) && prefix_ci p' s'
  | _ :: _, [] => false
  end.

Definition ws_run (s : str) : nat := length (fst (span is_ws_ascii s)).
(* \b after a word character: the next character is not a word character (or there is none) *)
Definition at_boundary (s : str) : bool := match s with c :: _ => negb (is_word c) | [] => true end.

Definition r1_match (s : str) : option nat :=
  if prefix_ci [60; 112; 62] s then
    let t := skipn 3 s in
    let w := ws_run t in
    if prefix_ci [60; 47; 112; 62] (skipn w t) then Some (3 + w + 4)%nat else None
  else None.

Definition e_nbsp : str := [38; 110; 98; 115; 112; 59].

Definition r2_match (s : str) : option (str * nat) :=
  match s with
  | c0 :: a :: b :: t =>
      if (c0 =? 60) && (lower a =? 116) && ((lower b =? 100) || (lower b =? 104)) && at_boundary t then
        let (attrs, t1) := span (fun c => negb (c =? 62)) t in
        match t1 with
        | _ :: t2 =>                         (* the ">" that stopped [^>]* *)
            let w := ws_run t2 in
            match skipn w t2 with
            | c1 :: c2 :: a' :: b' :: c5 :: _ =>
                if (c1 =? 60) && (c2 =? 47) && (c5 =? 62) && (lower a' =? lower a) && (lower b' =? lower b)
                then Some ((c0 :: a :: b :: attrs ++ [62]) ++ e_nbsp ++ [c1; c2; a'; b'; c5], (3 + length attrs + 1 + w + 5)%nat)
                else None
            | _ => None
            end
        | [] => None
        end
      else None
  | _ => None
  end.

(* \s*/?\s*>  at the start of u: the length matched *)
Definition r0_tail (u : str) : option nat :=
  let w1 := ws_run u in
  let u1 := skipn w1 u in
  let sl := match u1 with 47 :: _ => 1%nat | _ => 0%nat end in
  let u2 := skipn sl u1 in
  let w2 := ws_run u2 in
  match skipn w2 u2 with
  | 62 :: _ => Some (w1 + sl + w2 + 1)%nat
  | _ => None
  end.

(* .*? : the shortest prefix after which the tail matches *)
Fixpoint r0_lazy (u : str) : option (nat * nat) :=
  match r0_tail u with
  | Some l => Some (0%nat, l)
  | None =>
      match u with
      | [] => None
      | _ :: u' => match r0_lazy u' with Some (k, l) => Some (S k, l) | None => None end
      end
  end.

Definition r0_names : list str :=
  [[104; 114]; [98; 114]; [105; 109; 103]; [108; 105; 110; 107]; [109; 101; 116; 97]; [99; 111; 108]].

Fixpoint r0_name (names : list str) (t : str) : option nat :=
  match names with
  | [] => None
  | n :: r => if prefix_ci n t && at_boundary (skipn (length n) t) then Some (length n) else r0_name r t
  end.

Definition r0_match (s : str) : option (str * nat) :=
  match s with
  | 60 :: t =>
      match r0_name r0_names t with
      | Some ln =>
          match r0_lazy (skipn ln t) with
          | Some (k, l) => Some (firstn (1 + ln + k) s ++ [32; 47; 62], (1 + ln + k + l)%nat)
          | None => None
          end
      | None => None
      end
  | _ => None
  end.

Fixpoint sub_scan (m : str -> option (str * nat)) (skip : nat) (s : str) {struct s} : str :=
  match s with
  | [] => []
  | c :: r =>
      match skip with
      | S k => sub_scan m k r
      | O =>
          match m s with
          | Some (rep, L) => rep ++ sub_scan m (L - 1) r
          | None => c :: sub_scan m 0 r
          end
      end
  end.

Definition r1 (s : str) : str := sub_scan (fun x => match r1_match x with Some L => Some ([], L) | None => None end) 0 s.
Definition r2 (s : str) : str := sub_scan r2_match 0 s.
Definition r0 (s : str) : str := sub_scan r0_match 0 s.

Definition post_html5 (s : str) : str := r2 (r1 s).
Definition post_xhtml (s : str) : str := r2 (r1 (r0 s)).

(* ------------------------------------------------------------------------------------------------ *)
(* Renderable.__str__ over an abstract document tree and an abstract table of templates.

   A template is a list of pieces; what Jinja2 / simpleTAL do with an expression is abstracted to the piece kind
   (this abstraction is checked against the shipped templates by Gen/Templates.v and against the engines by the
   correspondence, it is not verified):
     Lit l         literal template text
     RenderChild   {{ obj }}                       str(obj): the node's children rendered in order
     RenderAttr a  {{ obj.title }}, {{ obj.attributes.a }} ...   str(fragment)
     RawString a   {{ obj.title.textContent }}     the DOM text of the fragment, as it is
     EscString a   {{ obj.title.textContent | e }} the same through markupsafe.escape
   Attributes are numbered; an attribute is a fragment (a list of nodes). *)
Inductive piece := Lit (l : str) | RenderChild | RenderAttr (a : nat) | RawString (a : nat) | EscString (a : nat).

Inductive node :=
| NText (is_markup : bool) (s : str)
| NElem (name : N) (uni : option (bool * str)) (attrs : list (list node)) (children : list node).

(* Node.textContent:  self.str if there is one; else text children, item.str, item.textContent in order *)
Fixpoint text_content (n : node) : str :=
  match n with
  | NText _ s => s
  | NElem _ (Some (_, u)) _ _ => u
  | NElem _ None _ ch => flat_map text_content ch
  end.

Section Render.
  (* r.textDefault is looked up on the renderer (PageTemplate.textDefault = [text_default], the base class has str);
     [te] is the escaper behind EscString (markupsafe.escape = [escape_e]); [tr] is what the engine does to a plain string
     result (Jinja2 without autoescape: nothing) *)
  Context (td : bool -> str -> str) (te tr : str -> str) (tpl : N -> list piece).

  (* what the parent appends for one child:
       text node            -> r.textDefault(child)
       child.str is not None -> r.textDefault(child.str)
       otherwise            -> the child's template applied to it, where str(child) is the join over its own children *)
  Fixpoint render (n : node) : str :=
    match n with
    | NText mk s => td mk s
    | NElem nm (Some (mk, u)) _ _ => td mk u
    | NElem nm None attrs ch =>
        let body := flat_map render ch in
        let astr := map (flat_map render) attrs in
        let atxt := map (flat_map text_content) attrs in
        flat_map (fun p =>
          match p with
          | Lit l => l
          | RenderChild => body
          | RenderAttr a => nth a astr []
          | RawString a => tr (nth a atxt [])
          | EscString a => te (nth a atxt [])
          end) (tpl nm)
    end.

  (* str(node) called directly (the document, a fragment): no template of its own *)
  Definition node_str (n : node) : str :=
    match n with
    | NText mk s => td mk s
    | NElem _ (Some (mk, u)) _ _ => td mk u
    | NElem _ None _ ch => flat_map render ch
    end.
End Render.

(* ------------------------------------------------------------------------------------------------ *)
(* wire *)

Definition opt_bind {A B} (o : option A) (f : A -> option B) : option B := match o with Some a => f a | None => None end.

Definition get_param (v : val) : option param :=
  match v with VI 0%Z => Some PWidth | VI 1%Z => Some PHeight | VI 2%Z => Some PDepth | _ => None end.

Definition get_pair {A B} (fa : val -> option A) (fb : val -> option B) (v : val) : option (A * B) :=
  match v with
  | VL [a; b] => match fa a, fb b with Some x, Some y => Some (x, y) | _, _ => None end
  | _ => None
  end.

Definition get_list {A} (f : val -> option A) (v : val) : option (list A) :=
  match v with VL l => mapM f l | _ => None end.

Definition get_dimval : val -> option dimval := get_pair getNs (get_list (get_pair getNs getNs)).
Definition get_image : val -> option image := get_list (get_pair get_param get_dimval).
Definition get_imgs : val -> option imgtable := get_list (get_pair getNs get_image).

Fixpoint get_node (fuel : nat) (v : val) : option node :=
  match fuel with
  | O => None
  | S f =>
      match v with
      | VL [VI 0%Z; mk; s] =>
          match getB mk, getNs s with Some b, Some t => Some (NText b t) | _, _ => None end
      | VL [VI 1%Z; nm; uni; attrs; ch] =>
          match getN nm,
                match uni with
                | VL [] => Some None
                | VL [mk; s] => match getB mk, getNs s with Some b, Some t => Some (Some (b, t)) | _, _ => None end
                | _ => None
                end,
                get_list (get_list (get_node f)) attrs, get_list (get_node f) ch with
          | Some n, Some u, Some a, Some c => Some (NElem n u a c)
          | _, _, _, _ => None
          end
      | _ => None
      end
  end.

Definition get_piece (v : val) : option piece :=
  match v with
  | VL [VI 0%Z; l] => match getNs l with Some s => Some (Lit s) | None => None end
  | VL [VI 1%Z] => Some RenderChild
  | VL [VI 2%Z; VI a] => Some (RenderAttr (Z.to_nat a))
  | VL [VI 3%Z; VI a] => Some (RawString (Z.to_nat a))
  | VL [VI 4%Z; VI a] => Some (EscString (Z.to_nat a))
  | _ => None
  end.

(* a name without a template falls back to Renderer.default = str: the children in order *)
Fixpoint tpl_of (l : list (N * list piece)) (nm : N) : list piece :=
  match l with
  | [] => [RenderChild]
  | (a, p) :: r => if a =? nm then p else tpl_of r nm
  end.

Definition of_token (t : token) : val :=
  match t with Chr c => VL [VI 0%Z; ofN c] | Markup m => VL [VI 1%Z; ofNs m] end.

(* one text leaf of a rendered document: how it is escaped on its way into the file, and what an HTML parser reads back
     kind 0  element content through textDefault
     kind 1  attribute value through markupsafe.escape ("e")
     kind 2  attribute value through html.escape(quote=1) (simpleTAL)
     kind 3  element content through html.escape(quote=0) (simpleTAL, string results)  *)
Definition leaf_out (hi : bool) (kind : Z) (s : str) : option (str * option str) :=
  let fin := post_high hi in
  match kind with
  | 0%Z => let o := fin (escape s) in Some (o, Some (html_text core_ents o))
  | 1%Z => let o := fin (escape_e s) in
           Some (o, match attr_dq core_ents 0 (o ++ [34]) with Some (v, _) => Some v | None => None end)
  | 2%Z => let o := fin (escape_html true s) in
           Some (o, match attr_dq core_ents 0 (o ++ [34]) with Some (v, _) => Some v | None => None end)
  | 3%Z => let o := fin (escape_html false s) in Some (o, Some (html_text core_ents o))
  | _ => None
  end.

Definition of_opt_str (o : option str) : val := match o with Some s => VL [ofNs s] | None => VL [] end.

Definition run_case (v : val) : val :=
  match v with
  | VL [VI 0%Z; mk; s] =>
      match getB mk, getNs s with
      | Some b, Some t => VL [VI 0%Z; ofNs (text_default b t)]
      | _, _ => v_bad_input
      end
  | VL [VI 1%Z; hi; imgs; s] =>
      match getB hi, get_imgs imgs, getNs s with
      | Some h, Some im, Some t =>
          match post true im h t with Some o => VL [VI 0%Z; ofNs o] | None => v_crash 0 end
      | _, _, _ => v_bad_input
      end
  | VL [VI 2%Z; s] => match getNs s with Some t => VL [VI 0%Z; ofNs (escape_e t)] | None => v_bad_input end
  | VL [VI 3%Z; q; s] =>
      match getB q, getNs s with Some b, Some t => VL [VI 0%Z; ofNs (escape_html b t)] | _, _ => v_bad_input end
  | VL [VI 4%Z; s] => match getNs s with Some t => VL (map of_token (tokenize core_ents t)) | None => v_bad_input end
  | VL [VI 5%Z; s] =>
      match getNs s with
      | Some t => match attr_dq core_ents 0 t with Some (a, tl) => VL [VI 0%Z; ofNs a; ofNs tl] | None => VL [VI 1%Z] end
      | None => v_bad_input
      end
  | VL [VI 6%Z; tpls; n] =>
      match get_list (get_pair getN (get_list get_piece)) tpls, get_node 64 n with
      | Some tp, Some nd => VL [VI 0%Z; ofNs (node_str text_default escape_e (fun s => s) (tpl_of tp) nd)]
      | _, _ => v_bad_input
      end
  | VL [VI 7%Z; hi; leaves] =>
      match getB hi, get_list (get_pair getZ getNs) leaves with
      | Some h, Some ls =>
          match mapM (fun ks => leaf_out h (fst ks) (snd ks)) ls with
          | Some outs => VL (map (fun o => VL [ofNs (fst o); of_opt_str (snd o)]) outs)
          | None => v_bad_input
          end
      | _, _ => v_bad_input
      end
  | VL [VI 9%Z; which; hi; s] =>         (* HTML5 (0) / XHTML (1) processFileContent, no images *)
      match getB which, getB hi, getNs s with
      | Some w, Some h, Some t =>
          match post true [] h t with
          | Some o => VL [VI 0%Z; ofNs (if w then post_xhtml o else post_html5 o)]
          | None => v_crash 0
          end
      | _, _, _ => v_bad_input
      end
  | VL [VI 8%Z; hi; imgs; s] =>          (* the code before fix-1, for the replay of the finding *)
      match getB hi, get_imgs imgs, getNs s with
      | Some h, Some im, Some t =>
          match post false im h t with Some o => VL [VI 0%Z; ofNs o] | None => v_crash 0 end
      | _, _, _ => v_bad_input
      end
  | _ => v_bad_input
  end.
