(* Universal value type used on the wire between the harness and the extracted Model:
   a case is a nested list of integers.  Strings are lists of code points. *)
From Coq Require Import List ZArith Bool.
Import ListNotations.
Local Open Scope Z_scope.

Inductive val := VI (z : Z) | VL (l : list val).

Fixpoint val_eqb (a b : val) {struct a} : bool :=
  match a, b with
  | VI x, VI y => Z.eqb x y
  | VL xs, VL ys =>
      (fix go (xs ys : list val) {struct xs} : bool :=
         match xs, ys with
         | [], [] => true
         | x :: xs', y :: ys' => val_eqb x y && go xs' ys'
         | _, _ => false
         end) xs ys
  | _, _ => false
  end.

(* decoding helpers: total, with an explicit failure *)
Definition getZ (v : val) : option Z := match v with VI z => Some z | _ => None end.
Definition getL (v : val) : option (list val) := match v with VL l => Some l | _ => None end.
Definition getN (v : val) : option N := match v with VI z => if z <? 0 then None else Some (Z.to_N z) | _ => None end.
Definition getB (v : val) : option bool := match v with VI 0 => Some false | VI 1 => Some true | _ => None end.

Fixpoint mapM {A B} (f : A -> option B) (l : list A) : option (list B) :=
  match l with
  | [] => Some []
  | x :: xs => match f x, mapM f xs with Some y, Some ys => Some (y :: ys) | _, _ => None end
  end.

Definition getZs (v : val) : option (list Z) := match v with VL l => mapM getZ l | _ => None end.
Definition getNs (v : val) : option (list N) := match v with VL l => mapM getN l | _ => None end.

Definition ofB (b : bool) : val := VI (if b then 1 else 0).
Definition ofN (n : N) : val := VI (Z.of_N n).
Definition ofNs (l : list N) : val := VL (map ofN l).
Definition ofZs (l : list Z) : val := VL (map VI l).
Definition ofNat (n : nat) : val := VI (Z.of_nat n).

(* distinguished outcomes *)
Definition v_bad_input : val := VL [VI (-1)].       (* the driver was given something the decoder rejects *)
Definition v_crash (k : Z) : val := VL [VI (-2); VI k]. (* the Model says: the implementation raises here *)
Definition v_outoffuel : val := VL [VI (-3)].
